#!/bin/bash
# Offline setup: build the Lean library (all property modules) and the model drivers.
set -u
cd "$(dirname "$0")/lean"
targets="Ipv8"
for f in DrvC*.lean; do
  [ -e "$f" ] || continue
  n=$(echo "${f%.lean}" | sed 's/^Drv//' | tr 'A-Z' 'a-z')
  targets="$targets drv_$n"
done
# a failing module must not stop the others from being built: each check rebuilds what it needs anyway
lake build $targets || true
exit 0
