"""Write notes/round<N>_feedback/Cxx.txt from seeded/<name>/{meta,result}.json.  Usage: python3 notes/mk_feedback.py 4 m10 m11 m12"""
import json
import sys
from pathlib import Path

V = Path(__file__).resolve().parent.parent
rnd = sys.argv[1]
ks = sys.argv[2:]
out = V / "notes" / f"round{rnd}_feedback"
out.mkdir(exist_ok=True)
tot = {"caught": 0, "weak": 0, "missed": 0}
import os
only = os.environ.get('PROPS', '').split()
for p in range(1, 21):
    pid = f"C{p:02d}"
    if only and pid not in only:
        continue
    good, bad = [], []
    for k in ks:
        name = f"{pid}_{k}"
        d = V / "seeded" / name
        m = json.loads((d / "meta.json").read_text())
        r = json.loads((d / "result.json").read_text())
        if r.get("detected") and r.get("with_failing_input"):
            good.append(name)
            tot["caught"] += 1
            continue
        if r.get("detected"):
            verdict = "caught only as a broken obligation / disagreement (no-failing-input-found): " + "; ".join(r.get("broken", []))[:400]
            tot["weak"] += 1
        elif r.get("error"):
            verdict = "ERROR running the check: " + r["error"]
        else:
            verdict = f"MISSED (check exits {r.get('exit')})" + (" stderr: " + r.get("stderr_tail", "")[-300:] if r.get("exit") not in (0, 1) else "")
            tot["missed"] += 1
        bad.append(f"* {name}: {verdict}\n  what: {m.get('summary', '')}\n  mechanism: {m.get('mechanism', '')}\n  needs: {m.get('needs', '')}\n  files: {m.get('files', '')}")
    txt = (f"Round {rnd} of independently written breaking changes for {pid} (patch.diff, demo.py, meta.json under /verif/seeded/<name>/; each keeps "
           f"all 602 unit tests green, its demo passes on the clean tree and fails with the patch; base tree = current /repo HEAD).\n"
           f"Caught with a concrete failing input: {', '.join(good) or 'none'}.\n")
    if bad:
        txt += "Not (properly) caught:\n\n" + "\n\n".join(bad) + "\n\n"
        txt += (f"What to do (as in the earlier rounds): for each item first decide, against the property's wording, whether it really violates {pid} "
                f"(read demo.py; run it with PYTHONPATH=<patched tree>). If the property's statement covers the behaviour, the file not being in the "
                f"anchor list is not a reason to exclude it. If it does violate: work out which CLASS of inputs / histories / schedules / configurations "
                f"your generator, oracle and model do not cover and widen that class (never special-case the patch): add the missing state to the model, "
                f"state the corresponding theorem(s) in Props.lean where the claim is new, extend correspondence and the implementation-level oracle, "
                f"measure the new classes in the evidence distribution. If you conclude an item is outside the property, say why in design.d/{pid}.md "
                f"(seeded-changes section) and leave the check alone. Keep `./check {pid} quick` within ~90 s and green on /repo for VERIF_SEED 0-3 "
                f"(thorough green for seed 0), confirm with `python3 tools/seeded.py <names>` that the items now go red with a concrete failing input "
                f"and that ALL earlier seeded changes of {pid} (`ls /verif/seeded | grep ^{pid}_`) are still caught (rebase a patch.diff that no longer "
                f"applies: keep patch_orig.diff, add \"rebased_on\"), update design.d/{pid}.md and manifest.d/{pid}.json, and report briefly (which class "
                f"was missing, what you added, results). Only your own files; mutations only via scratch worktrees/VERIF_REPO; no commits in /verif; "
                f"/repo only for genuine `fix:` commits of defects your check reports on the unchanged tree (message describes only the code change).")
    else:
        txt += "Nothing to do for this round.\n"
    (out / f"{pid}.txt").write_text(txt)
    print(pid, "caught", good, "todo", len(bad))
print(tot)
