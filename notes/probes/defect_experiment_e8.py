import sys, asyncio, logging
sys.path.insert(0, "/repo"); sys.path.insert(0, "/tmp/exp")
logging.disable(logging.CRITICAL)
import vclock
from ipv8.messaging.anonymization.community import TunnelCommunity, TunnelSettings
from ipv8.messaging.anonymization.tunnel import *
from ipv8.test.mocking.ipv8 import MockIPv8
from ipv8.test.mocking.endpoint import AutoMockEndpoint
AutoMockEndpoint.SEND_INET_EXCEPTION_TO_LOOP = False
loop = vclock.VLoop(); asyncio.set_event_loop(loop); vclock.install(loop)
def mk(flags):
    s = TunnelSettings(); s.min_circuits = 0; s.max_circuits = 0
    s.peer_flags = set(flags)
    return MockIPv8("curve25519", TunnelCommunity, settings=s)
async def main():
    a = mk({PEER_FLAG_RELAY}); c = mk({PEER_FLAG_RELAY, PEER_FLAG_EXIT_BT})
    a.overlay.walk_to(c.endpoint.wan_address); c.overlay.walk_to(a.endpoint.wan_address)
    await asyncio.sleep(1)
    circ = a.overlay.create_circuit(1)
    await asyncio.sleep(2)
    es = c.overlay.exit_sockets[circ.circuit_id]
    es.enable()
    await asyncio.sleep(1)
    t4 = es.transport_ipv4
    print("transport open:", t4 is not None and not t4.is_closing(), "delay:", c.overlay.settings.remove_tunnel_delay)
    await c.overlay.unload()
    await asyncio.sleep(60)
    print("after unload+60s: exit_sockets:", len(c.overlay.exit_sockets), " transport closed:", t4.is_closing(), " es.transport_ipv4 is None:", es.transport_ipv4 is None)
    await a.stop()
loop.run_until_complete(main())
