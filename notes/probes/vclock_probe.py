import asyncio, heapq, selectors, time as _time
class VLoop(asyncio.SelectorEventLoop):
    """Event loop with a virtual clock: when nothing is ready, jump to the next timer."""
    def __init__(self):
        super().__init__(selectors.SelectSelector())
        self._vnow = 1_000_000.0
    def time(self):
        return self._vnow
    def _run_once(self):
        # drop cancelled timer heads, then jump the clock if idle
        while self._scheduled and self._scheduled[0]._cancelled:
            h = heapq.heappop(self._scheduled); h._scheduled = False
        if not self._ready and self._scheduled:
            when = self._scheduled[0]._when
            if when > self._vnow:
                self._vnow = when
        super()._run_once()
def install(loop):
    _time.time = loop.time          # modules doing `import time; time.time()`
    import sys
    for name, mod in list(sys.modules.items()):
        if name.startswith("ipv8") and getattr(mod, "time", None) is _REAL:
            setattr(mod, "time", loop.time)   # modules doing `from time import time`
_REAL = _time.time
