import sys, asyncio, logging
sys.path.insert(0, "/repo")
logging.disable(logging.CRITICAL)
from ipv8.messaging.anonymization.community import TunnelCommunity, TunnelSettings
from ipv8.messaging.anonymization.tunnel import *
from ipv8.messaging.anonymization.payload import CreatePayload
from ipv8.test.mocking.ipv8 import MockIPv8
from ipv8.test.mocking.endpoint import AutoMockEndpoint
AutoMockEndpoint.SEND_INET_EXCEPTION_TO_LOOP = False

def mk(flags):
    s = TunnelSettings(); s.min_circuits = 0; s.max_circuits = 0; s.remove_tunnel_delay = 0
    s.peer_flags = set(flags)
    n = MockIPv8("curve25519", TunnelCommunity, settings=s)
    n.overlay.cancel_all_pending_tasks()
    return n

async def main():
    a = mk({PEER_FLAG_RELAY}); b = mk({PEER_FLAG_RELAY, PEER_FLAG_EXIT_BT}); c = mk({PEER_FLAG_RELAY})
    nodes = [a, b, c]
    for x in nodes:
        for y in nodes:
            if x is not y:
                x.overlay.walk_to(y.endpoint.wan_address)
    await asyncio.sleep(0.1)
    circ = a.overlay.create_circuit(1)
    await asyncio.sleep(0.2)
    print("circuit state", circ.state, "exit sockets at b:", list(b.overlay.exit_sockets))
    cid = circ.circuit_id
    old = b.overlay.exit_sockets[cid]
    # simulate the CreatedRequestCache having timed out (60 s)
    b.overlay.request_cache.pop("created", cid)
    # attacker c sends a plaintext CREATE with the same circuit id
    dh = c.overlay.crypto.generate_diffie_secret()
    c.overlay.send_cell(b.endpoint.wan_address, CreatePayload(cid, 1, c.overlay.my_peer.public_key.key_to_bin(), dh[1]))
    await asyncio.sleep(0.2)
    new = b.overlay.exit_sockets.get(cid)
    print("exit socket replaced:", new is not old, " now keyed for attacker:", new.hop.peer == c.overlay.my_peer)
    # C11: unload b, then deliver intro request from a
    sent = []
    orig = b.endpoint.send
    b.endpoint.send = lambda addr, pkt: (sent.append((addr, pkt[22])), orig(addr, pkt))
    await b.overlay.unload()
    print("b shutdown flag", b.overlay._shutdown)
    a.overlay.walk_to(b.endpoint.wan_address)
    await asyncio.sleep(0.2)
    print("packets sent by b after unload:", sent)
    # C03: short datagrams
    for d in (b"", a.overlay.get_prefix(), a.overlay.get_prefix() + b"\x00", a.overlay.get_prefix() + b"\x00" + b"\x00"*6):
        try:
            a.endpoint.notify_listeners((("1.2.3.4", 5), d)); print(len(d), "ok")
        except Exception as e:
            print(len(d), "EXC", type(e).__name__, e)
    for n in (a, c): await n.stop()
asyncio.run(main())
