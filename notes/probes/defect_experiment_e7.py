import sys, asyncio, logging, time
sys.path.insert(0, "/repo"); sys.path.insert(0, "/tmp/exp")
logging.disable(logging.CRITICAL)
import vclock
from ipv8.messaging.anonymization.community import TunnelCommunity, TunnelSettings
from ipv8.messaging.anonymization.tunnel import *
from ipv8.test.mocking.ipv8 import MockIPv8
from ipv8.test.mocking.endpoint import AutoMockEndpoint
AutoMockEndpoint.SEND_INET_EXCEPTION_TO_LOOP = False
loop = vclock.VLoop(); asyncio.set_event_loop(loop); vclock.install(loop)
def mk(flags):
    s = TunnelSettings(); s.min_circuits = 0; s.max_circuits = 0   # defaults otherwise (remove_tunnel_delay=5)
    s.peer_flags = set(flags)
    return MockIPv8("curve25519", TunnelCommunity, settings=s)
async def main():
    t0 = loop.time(); w0 = vclock._REAL()
    a = mk({PEER_FLAG_RELAY}); b = mk({PEER_FLAG_RELAY}); c = mk({PEER_FLAG_RELAY, PEER_FLAG_EXIT_BT})
    nodes = [a, b, c]
    for x in nodes:
        for y in nodes:
            if x is not y: x.overlay.walk_to(y.endpoint.wan_address)
    await asyncio.sleep(1)
    circ = a.overlay.create_circuit(2)
    await asyncio.sleep(3)
    print("t=%.1f state=%s hops=%d  b.relays=%d c.exits=%d" % (loop.time()-t0, circ.state, len(circ.hops), len(b.overlay.relay_from_to), len(c.overlay.exit_sockets)))
    # abandon: originator silently forgets the circuit (no destroy)
    a.overlay.circuits.pop(circ.circuit_id)
    for dt in (10, 10, 10, 10):
        await asyncio.sleep(dt)
        print("t=%.1f  b.relays=%d c.exits=%d" % (loop.time()-t0, len(b.overlay.relay_from_to), len(c.overlay.exit_sockets)))
    print("virtual %.1fs in wall %.2fs" % (loop.time()-t0, vclock._REAL()-w0))
    for n in nodes: await n.stop()
loop.run_until_complete(main())
