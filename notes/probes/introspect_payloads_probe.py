import sys, pkgutil, importlib, inspect
sys.path.insert(0, "/repo")
import ipv8
from ipv8.messaging.serialization import Serializable
from ipv8.messaging.lazy_payload import VariablePayload
mods = []
for m in pkgutil.walk_packages(ipv8.__path__, "ipv8."):
    if ".test" in m.name: continue
    try:
        importlib.import_module(m.name)
    except Exception as e:
        print("IMPORT FAIL", m.name, type(e).__name__, e)
def allsubs(c):
    out = set()
    for s in c.__subclasses__():
        out.add(s); out |= allsubs(s)
    return out
subs = sorted(allsubs(Serializable), key=lambda c: (c.__module__, c.__name__))
for c in subs:
    kind = "VP" if issubclass(c, VariablePayload) else "OLD"
    import dataclasses
    if dataclasses.is_dataclass(c): kind = "DC"
    compiled = "compiled" if (kind != "OLD" and c.to_pack_list is not VariablePayload.to_pack_list) else ""
    print(f"{c.__module__}.{c.__name__:40s} {kind:4s} {compiled:9s} msg_id={getattr(c,'msg_id',None)} fmt={[f if isinstance(f,str) else ('['+f[0].__name__+']' if isinstance(f,list) else f.__name__) for f in c.format_list]}")
print(len(subs))
