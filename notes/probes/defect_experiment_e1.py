import sys, time, traceback
sys.path.insert(0, "/repo")
from ipv8.messaging.serialization import default_serializer, Serializer
from ipv8.messaging.payload import IntroductionRequestPayload
from ipv8.messaging.anonymization.payload import Flags
from ipv8.messaging.payload_headers import BinMemberAuthenticationPayload

print("== C02 advice")
p = IntroductionRequestPayload(("1.2.3.4", 5), ("1.2.3.4", 5), ("1.2.3.4", 5), True, "unknown", 7, b"x")
b = default_serializer.pack_serializable(p)
q, off = default_serializer.unpack_serializable(IntroductionRequestPayload, b)
print("advice in", p.advice, "out", q.advice)

print("== C02 flags offset")
f = Flags()
out = []
print("ret offset at 5:", f.unpack(b"\x00"*5 + b"\x00\x03", 5, out), out)

print("== C03 truncated varlen")
try:
    v, off = default_serializer.unpack_serializable(BinMemberAuthenticationPayload, b"\x00\x0aabc")
    print("accepted", v.public_key_bin, off, "buffer len", 5)
except Exception as e:
    print("rejected", type(e))

print("== C14 generate_id")
from ipv8.dht.routing import Bucket
bk = Bucket("101")
bad = sum(0 if bk.owns(bk.generate_id()) else 1 for _ in range(100))
print("ids outside bucket 101:", bad, "/100")

print("== C15 storage clean")
from ipv8.dht import storage as st
S = st.Storage()
t0 = time.time()
S.put(b"k", b"old-long", max_age=3600)
S.put(b"k", b"new-short", max_age=10)
for v in S.items[b"k"]:
    v.last_update = t0 - 100
S.clean()
print("after clean:", S.get(b"k"))

print("== C18 add")
from ipv8.attestation.wallet.primitives.value import FP2Value
p_ = 23
a = FP2Value(p_, 3, 4, 0, 5, 6, 0); b = FP2Value(p_, 7, 8, 0, 9, 10, 0)
lhs = a + b
# reference: a/b + c/d = (ad+cb)/(bd)
num = FP2Value(p_, 3, 4) * FP2Value(p_, 9, 10) + FP2Value(p_, 7, 8) * FP2Value(p_, 5, 6)
den = FP2Value(p_, 5, 6) * FP2Value(p_, 9, 10)
print("add ok?", lhs == num // den, " sub-consistency:", (lhs - b) == a)

print("== C20 string default")
from ipv8.messaging.lazy_payload import VariablePayload, vp_compile
try:
    class P(VariablePayload):
        names = ["a", "b"]; format_list = ["I", "varlenHutf8"]
        def __init__(self, a, b="hello"):
            super().__init__(a, b)
    x = P(1)
    print("interp ok", x.b)
    C = vp_compile(P)
    print("compiled", C(1).b)
except Exception as e:
    print("compile failed:", type(e).__name__, e)
