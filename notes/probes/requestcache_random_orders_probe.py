import sys, asyncio, logging, random, itertools
sys.path.insert(0, "/repo"); sys.path.insert(0, "/tmp/exp")
logging.disable(logging.CRITICAL)
import vclock
from ipv8.requestcache import RequestCache, NumberCache
from asyncio import Future
loop = vclock.VLoop(); asyncio.set_event_loop(loop); vclock.install(loop)

class C(NumberCache):
    def __init__(self, rc, prefix, number, delay, log, on_to=None):
        super().__init__(rc, prefix, number); self.delay = delay; self.log = log; self.on_to = on_to
        self.fut = Future(); self.register_future(self.fut, "TO")
    @property
    def timeout_delay(self): return self.delay
    def on_timeout(self):
        self.log.append(("timeout", id(self)))
        if self.on_to: self.on_to()

async def scenario(seed):
    rnd = random.Random(seed)
    rc = RequestCache(); log = []; caches = {}
    problems = []
    def do_pop(n):
        try:
            c = rc.pop("p", n); log.append(("claimed", id(c)))
        except KeyError:
            log.append(("keyerror", n))
    for step in range(rnd.randint(3, 12)):
        op = rnd.choice(["add", "add", "pop", "sleep", "sleep", "pop_in_timeout", "clear", "shutdown"] if step > 1 else ["add"])
        n = rnd.randint(0, 2)
        if op == "add":
            try:
                cb = None
                if rnd.random() < 0.3:
                    m = rnd.randint(0, 2); cb = (lambda m=m: do_pop(m))
                c = C(rc, "p", n, rnd.choice([0.5, 1.0, 1.0, 2.0]), log, cb)
                r = rc.add(c)
                if r is not None: caches[id(c)] = c; log.append(("added", id(c)))
            except RuntimeError:
                log.append(("dup", n))
        elif op == "pop": do_pop(n)
        elif op == "sleep": await asyncio.sleep(rnd.choice([0.5, 1.0, 0.25, 1.5]))
        elif op == "clear" and rnd.random() < 0.3: rc.clear(); log.append(("clear",))
        elif op == "shutdown" and rnd.random() < 0.2:
            await rc.shutdown(); log.append(("shutdown",))
    await asyncio.sleep(5)
    # oracle
    sd = None
    for i, e in enumerate(log):
        if e[0] == "shutdown": sd = i; break
    for cid, c in caches.items():
        res = [e for e in log if e[0] in ("claimed", "timeout") and e[1] == cid]
        if len(res) > 1: problems.append(("resolved twice", res))
    if sd is not None:
        after = [e for e in log[sd+1:] if e[0] in ("timeout", "added")]
        if after: problems.append(("after shutdown", after))
    await rc.shutdown()
    return problems, log
async def main():
    bad = 0
    for seed in range(3000):
        p, log = await scenario(seed)
        if p:
            bad += 1
            if bad <= 3: print(seed, p, [e[0] for e in log])
    print("scenarios with problems:", bad)
loop.run_until_complete(main())
