import sys, time, traceback, asyncio
sys.path.insert(0, "/repo")
from ipv8.peerdiscovery.network import Network
from ipv8.peer import Peer
from ipv8.keyvault.crypto import default_eccrypto
from ipv8.messaging.interfaces.udp.endpoint import UDPv4Address

k1 = default_eccrypto.generate_key("curve25519"); k2 = default_eccrypto.generate_key("curve25519")
print("== C12 stale ip cache after remove_peer")
n = Network(); a = UDPv4Address("1.1.1.1", 1)
p = Peer(k1.pub().key_to_bin(), a)
n.add_verified_peer(p)
print(n.get_verified_by_address(a) is p)
n.remove_peer(p)
print("after remove_peer by_address:", n.get_verified_by_address(a), " by key:", n.get_verified_by_public_key_bin(p.public_key.key_to_bin()))

print("== C12 remove_by_address leaves key index")
n = Network(); p = Peer(k1.pub().key_to_bin(), a)
n.add_verified_peer(p)
n.remove_by_address(a)
print("verified:", p in n.verified_peers, " by key:", n.get_verified_by_public_key_bin(p.public_key.key_to_bin()))
n.add_verified_peer(Peer(k1.pub().key_to_bin(), a))
print("re-add ->verified_peers:", len(n.verified_peers))

print("== C12 query mutates: get_walkable_addresses adds service to introducer")
n = Network(); p = Peer(k1.pub().key_to_bin(), a)
n.add_verified_peer(p); n.discover_services(p, [b"A"])
n.discover_address(p, UDPv4Address("2.2.2.2", 2), b"B")
print("peers for B before:", n.get_peers_for_service(b"B"))
n.reverse_service_lookup.clear()
n.get_walkable_addresses(b"B")
n.reverse_service_lookup.clear()
print("peers for B after walkable query:", n.get_peers_for_service(b"B"))

print("== C16 fork before parent")
from ipv8.attestation.tokentree.tree import TokenTree
from ipv8.attestation.tokentree.token import Token
sk = default_eccrypto.generate_key("curve25519")
own = TokenTree(private_key=sk)
A = own.add(b"a"); B = own.add(b"b", A); C = own.add(b"c", A)
def fresh(t): return Token(t.previous_token_hash, content_hash=t.content_hash, signature=t.signature)
for order in ([A,B,C],[B,C,A],[C,B,A],[B,A,C]):
    v = TokenTree(public_key=sk.pub())
    for t in order: v.gather_token(fresh(t))
    print([ "ABC"[[A,B,C].index(t)] for t in order], "elements:", len(v.elements), "unchained:", len(v.unchained))

print("== C11 TunnelEndpoint.remove_listener")
from ipv8.messaging.anonymization.endpoint import TunnelEndpoint
from ipv8.test.mocking.endpoint import AutoMockEndpoint, MockEndpointListener
inner = AutoMockEndpoint(); inner.open()
te = TunnelEndpoint(inner)
l = MockEndpointListener(te)
print("inner listeners after add:", len(inner._listeners))
te.remove_listener(l)
print("inner listeners after remove:", len(inner._listeners))
