import sys
sys.path.insert(0, "/repo")
from ipv8.peerdiscovery.network import Network
from ipv8.peer import Peer
from ipv8.keyvault.crypto import default_eccrypto
from ipv8.messaging.interfaces.udp.endpoint import UDPv4Address
k1 = default_eccrypto.generate_key("curve25519")
n = Network(); a1 = UDPv4Address("1.1.1.1", 1); a2 = UDPv4Address("2.2.2.2", 2)
p = Peer(k1.pub().key_to_bin(), a1)
n.add_verified_peer(p)
print("cached:", n.get_verified_by_address(a1) is p)
n.add_verified_peer(Peer(k1.pub().key_to_bin(), a2))   # address update for the same key
print("addresses now:", dict(p.addresses))
print("lookup by old address a1:", n.get_verified_by_address(a1))
n2 = Network(); q = Peer(k1.pub().key_to_bin(), a1); n2.add_verified_peer(q); n2.add_verified_peer(Peer(k1.pub().key_to_bin(), a2))
print("same history without the earlier query:", n2.get_verified_by_address(a1))
# intro cache staleness
n3 = Network(); r = Peer(k1.pub().key_to_bin(), a1); n3.add_verified_peer(r)
x = UDPv4Address("9.9.9.9", 9)
n3.discover_address(r, x, b"S")
print("intros:", n3.get_introductions_from(r))
n3.remove_by_address(x)
print("intros after remove_by_address(x):", n3.get_introductions_from(r), " walkable:", n3.get_walkable_addresses())
