import Mathlib.Tactic.Ring
import Mathlib.Tactic.LinearCombination

/-- x + yω with ω² + ω + 1 = 0 -/
structure Eis (R : Type) where
  re : R
  im : R
deriving DecidableEq, Repr

namespace Eis
variable {R : Type} [CommRing R]
@[ext] theorem ext' {a b : Eis R} (h1 : a.re = b.re) (h2 : a.im = b.im) : a = b := by
  cases a; cases b; simp_all
instance : Add (Eis R) := ⟨fun a b => ⟨a.re + b.re, a.im + b.im⟩⟩
instance : Mul (Eis R) := ⟨fun a b => ⟨a.re*b.re - a.im*b.im, a.re*b.im + a.im*b.re - a.im*b.im⟩⟩
@[simp] theorem add_re (a b : Eis R) : (a+b).re = a.re + b.re := rfl
@[simp] theorem add_im (a b : Eis R) : (a+b).im = a.im + b.im := rfl
@[simp] theorem mul_re (a b : Eis R) : (a*b).re = a.re*b.re - a.im*b.im := rfl
@[simp] theorem mul_im (a b : Eis R) : (a*b).im = a.re*b.im + a.im*b.re - a.im*b.im := rfl
end Eis

structure FP2 (R : Type) where
  a : R
  b : R
  c : R
  aC : R
  bC : R
  cC : R

namespace FP2
variable {R : Type} [CommRing R]
def num (v : FP2 R) : Eis R := ⟨v.a - v.c, v.b - v.c⟩
def den (v : FP2 R) : Eis R := ⟨v.aC - v.cC, v.bC - v.cC⟩

-- as translated from value.py __mul__
def mul (s o : FP2 R) : FP2 R :=
  { a := s.a * o.a - s.c * o.a - s.b * o.b + s.c * o.b - s.a * o.c + s.b * o.c
    b := s.b * o.a - s.c * o.a + s.a * o.b - s.b * o.b - s.a * o.c + s.c * o.c
    c := 0
    aC := s.aC * o.aC - s.cC * o.aC - s.bC * o.bC + s.cC * o.bC - s.aC * o.cC + s.bC * o.cC
    bC := s.bC * o.aC - s.cC * o.aC + s.aC * o.bC - s.bC * o.bC - s.aC * o.cC + s.cC * o.cC
    cC := 0 }

theorem mul_num (s o : FP2 R) : (mul s o).num = s.num * o.num := by
  ext <;> simp [mul, num] <;> ring
theorem mul_den (s o : FP2 R) : (mul s o).den = s.den * o.den := by
  ext <;> simp [mul, den] <;> ring
end FP2
#print axioms FP2.mul_num
