import sys, asyncio, logging
sys.path.insert(0, "/repo")
logging.disable(logging.CRITICAL)
from ipv8.attestation.identity.community import IdentityCommunity, IdentitySettings
from ipv8.attestation.identity.manager import IdentityManager
from ipv8.attestation.identity.payload import DisclosePayload
from ipv8.test.mocking.ipv8 import MockIPv8
H = b"a" * 32
def mk(): return MockIPv8("curve25519", IdentityCommunity, settings=IdentitySettings(identity_manager=IdentityManager(":memory:")))
async def main():
    subj, att, third = mk(), mk(), mk()
    nodes = [subj, att, third]
    for x in nodes:
        for y in nodes:
            if x is not y: x.overlay.walk_to(y.endpoint.wan_address)
    await asyncio.sleep(0.2)
    sent = []
    orig = att.endpoint.send
    att.endpoint.send = lambda addr, pkt: (sent.append(pkt[22]), orig(addr, pkt))
    sk = subj.overlay.my_peer.public_key.key_to_bin()
    def peer_of(n, other): return n.overlay.network.get_verified_by_public_key_bin(other.overlay.my_peer.public_key.key_to_bin())
    # 1. third party attests first
    third.overlay.add_known_hash(H, "attr", sk)
    subj.overlay.request_attestation_advertisement(peer_of(subj, third), H, "attr")
    await asyncio.sleep(0.3)
    cred = subj.overlay.pseudonym_manager.get_credentials()[0]
    print("attestations held by subject after third party:", len(cred.attestations))
    # 2. subject discloses (including third party's attestation) to attester, who registered consent
    att.overlay.add_known_hash(H, "attr", sk)
    disclosure = subj.overlay.pseudonym_manager.disclose_credentials([cred], {a.get_hash() for a in cred.attestations})
    subj.overlay.permissions[peer_of(subj, att)] = len(subj.overlay.token_chain)
    for i in range(3):   # the same disclosure, replayed
        subj.overlay.ez_send(peer_of(subj, att), DisclosePayload(*disclosure))
        await asyncio.sleep(0.3)
        print("round", i, "AttestPayload(msg 2) sent by attester so far:", sent.count(2))
    for n in nodes: await n.stop()
asyncio.run(main())
