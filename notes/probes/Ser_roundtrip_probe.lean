-- probe: mutual inductive formats, absolute-offset unpack, round trip
abbrev Bytes := List UInt8

def beEnc : Nat → Nat → Bytes
  | 0, _ => []
  | w+1, n => beEnc w (n / 256) ++ [UInt8.ofNat (n % 256)]

def beDecAux : Bytes → Nat → Nat
  | [], acc => acc
  | b :: bs, acc => beDecAux bs (acc * 256 + b.toNat)
def beDec (bs : Bytes) : Nat := beDecAux bs 0

theorem beEnc_length (w n : Nat) : (beEnc w n).length = w := by
  induction w generalizing n with
  | zero => rfl
  | succ w ih => simp [beEnc, ih]

theorem beDecAux_append (a b : Bytes) (acc : Nat) : beDecAux (a ++ b) acc = beDecAux b (beDecAux a acc) := by
  induction a generalizing acc with
  | nil => rfl
  | cons x xs ih => simp [beDecAux, ih]

theorem beDec_beEnc (w n : Nat) (h : n < 256 ^ w) : beDec (beEnc w n) = n := by
  unfold beDec
  induction w generalizing n with
  | zero => simp [beEnc, beDecAux] at *; omega
  | succ w ih =>
    have h1 : n / 256 < 256 ^ w := by
      rw [Nat.pow_succ] at h; exact Nat.div_lt_of_lt_mul (by omega)
    have : (UInt8.ofNat (n % 256)).toNat = n % 256 := by
      simp [UInt8.toNat_ofNat']
    simp [beEnc, beDecAux_append, ih _ h1, beDecAux, this]
    omega

mutual
inductive Fmt where
  | uint (w : Nat)
  | varlen (lenW : Nat)
  | listOf (lenW : Nat) (f : Fmt)
  | nested (fs : FmtList)
inductive FmtList where
  | nil
  | cons (f : Fmt) (fs : FmtList)
end

mutual
inductive Val where
  | nat (n : Nat)
  | bytes (b : Bytes)
  | list (vs : ValList)
  | record (vs : ValList)
inductive ValList where
  | nil
  | cons (v : Val) (vs : ValList)
end

def ValList.length : ValList → Nat
  | .nil => 0
  | .cons _ vs => vs.length + 1

inductive Err | short | bad deriving Repr, DecidableEq

mutual
def pack : Fmt → Val → Except Err Bytes
  | .uint w, .nat n => if n < 256 ^ w then .ok (beEnc w n) else .error .bad
  | .varlen lw, .bytes b => if b.length < 256 ^ lw then .ok (beEnc lw b.length ++ b) else .error .bad
  | .listOf lw f, .list vs =>
      if vs.length < 256 ^ lw then do
        let body ← packMany f vs
        .ok (beEnc lw vs.length ++ body)
      else .error .bad
  | .nested fs, .record vs => do
      let body ← packList fs vs
      if body.length < 65536 then .ok (beEnc 2 body.length ++ body) else .error .bad
  | _, _ => .error .bad
def packMany : Fmt → ValList → Except Err Bytes
  | _, .nil => .ok []
  | f, .cons v vs => do
      let a ← pack f v
      let b ← packMany f vs
      .ok (a ++ b)
def packList : FmtList → ValList → Except Err Bytes
  | .nil, .nil => .ok []
  | .cons f fs, .cons v vs => do
      let a ← pack f v
      let b ← packList fs vs
      .ok (a ++ b)
  | _, _ => .error .bad
end

-- stream-style unpack: returns value and number of bytes consumed
mutual
def unpack : Fmt → Bytes → Except Err (Val × Nat)
  | .uint w, d => if d.length < w then .error .short else .ok (.nat (beDec (d.take w)), w)
  | .varlen lw, d =>
      if d.length < lw then .error .short else
      let n := beDec (d.take lw)
      if d.length < lw + n then .error .short else
      .ok (.bytes ((d.drop lw).take n), lw + n)
  | .listOf lw f, d =>
      if d.length < lw then .error .short else do
      let n := beDec (d.take lw)
      let (vs, c) ← unpackMany f n (d.drop lw)
      .ok (.list vs, lw + c)
  | .nested fs, d =>
      if d.length < 2 then .error .short else
      let n := beDec (d.take 2)
      if d.length < 2 + n then .error .short else do
      let (vs, _) ← unpackList fs ((d.drop 2).take n)
      .ok (.record vs, 2 + n)
def unpackMany : Fmt → Nat → Bytes → Except Err (ValList × Nat)
  | _, 0, _ => .ok (.nil, 0)
  | f, k+1, d => do
      let (v, c) ← unpack f d
      let (vs, c') ← unpackMany f k (d.drop c)
      .ok (.cons v vs, c + c')
def unpackList : FmtList → Bytes → Except Err (ValList × Nat)
  | .nil, _ => .ok (.nil, 0)
  | .cons f fs, d => do
      let (v, c) ← unpack f d
      let (vs, c') ← unpackList fs (d.drop c)
      .ok (.cons v vs, c + c')
end




theorem bind_ok {α β} {x : Except Err α} {f : α → Except Err β} {b : β}
    (h : (x >>= f) = .ok b) : ∃ a, x = .ok a ∧ f a = .ok b := by
  cases x with
  | error e => simp [bind, Except.bind] at h
  | ok a => exact ⟨a, rfl, by simpa [bind, Except.bind] using h⟩

mutual
theorem rt (f : Fmt) (v : Val) (b post : Bytes) (h : pack f v = .ok b) :
    unpack f (b ++ post) = .ok (v, b.length) := by
  cases f with
  | uint w =>
    cases v with
    | nat n =>
      simp only [pack] at h
      split at h
      · rename_i hn
        cases h
        have hl := beEnc_length w n
        simp [unpack, hl, beDec_beEnc w n hn]
      · cases h
    | _ => simp [pack] at h
  | varlen lw =>
    cases v with
    | bytes bs =>
      simp only [pack] at h
      split at h
      · rename_i hn
        cases h
        have hl := beEnc_length lw bs.length
        simp [unpack, hl, beDec_beEnc lw bs.length hn, List.append_assoc]
        rw [if_neg (by omega), if_neg (by omega)]
      · cases h
    | _ => simp [pack] at h
  | listOf lw f' =>
    cases v with
    | list vs =>
      simp only [pack] at h
      split at h
      · rename_i hn
        obtain ⟨body, hb, h2⟩ := bind_ok h
        cases h2
        have hl := beEnc_length lw vs.length
        have hm := rtMany f' vs body post hb
        simp [unpack, hl, beDec_beEnc lw vs.length hn, List.append_assoc, hm,
              bind, Except.bind]
      · cases h
    | _ => simp [pack] at h
  | nested fs =>
    cases v with
    | record vs =>
      simp only [pack] at h
      obtain ⟨body, hb, h2⟩ := bind_ok h
      split at h2
      · rename_i hn
        cases h2
        have hl := beEnc_length 2 body.length
        have hm := rtList fs vs body [] hb
        simp at hm
        simp [unpack, hl, beDec_beEnc 2 body.length (by simpa using hn),
              List.append_assoc, hm, bind, Except.bind]
        rw [if_neg (by omega), if_neg (by omega)]
      · cases h2
    | _ => simp [pack] at h
termination_by (sizeOf f, sizeOf v)
theorem rtMany (f : Fmt) (vs : ValList) (b post : Bytes) (h : packMany f vs = .ok b) :
    unpackMany f vs.length (b ++ post) = .ok (vs, b.length) := by
  cases vs with
  | nil => simp [packMany] at h; subst h; simp [unpackMany, ValList.length]
  | cons v vs' =>
    simp only [packMany] at h
    obtain ⟨a, ha, h1⟩ := bind_ok h
    obtain ⟨c, hc, h2⟩ := bind_ok h1
    cases h2
    have e1 := rt f v a (c ++ post) ha
    have e2 := rtMany f vs' c post hc
    simp [unpackMany, ValList.length, List.append_assoc, e1, bind, Except.bind, e2]
termination_by (sizeOf f, sizeOf vs)
theorem rtList (fs : FmtList) (vs : ValList) (b post : Bytes) (h : packList fs vs = .ok b) :
    unpackList fs (b ++ post) = .ok (vs, b.length) := by
  cases fs with
  | nil =>
    cases vs with
    | nil => simp [packList] at h; subst h; simp [unpackList]
    | cons _ _ => simp [packList] at h
  | cons f fs' =>
    cases vs with
    | nil => simp [packList] at h
    | cons v vs' =>
      simp only [packList] at h
      obtain ⟨a, ha, h1⟩ := bind_ok h
      obtain ⟨c, hc, h2⟩ := bind_ok h1
      cases h2
      have e1 := rt f v a (c ++ post) ha
      have e2 := rtList fs' vs' c post hc
      simp [unpackList, List.append_assoc, e1, bind, Except.bind, e2]
termination_by (sizeOf fs, sizeOf vs)
end

