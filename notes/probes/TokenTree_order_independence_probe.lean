-- probe for C16: gather with full wake-up (repaired behaviour), inductive spec, soundness + completeness
structure Token where
  id : Nat
  prev : Nat      -- 0 = genesis
  valid : Bool
deriving DecidableEq, Repr

structure Tree where
  els : List Token
  unc : List Token
deriving Repr

def hasId (l : List Token) (h : Nat) : Bool := l.any (fun t => t.id == h)

theorem hasId_iff (l : List Token) (h : Nat) : hasId l h = true ↔ ∃ t ∈ l, t.id = h := by
  simp [hasId]

/-- move every orphan whose parent is present into `els`, until none is left -/
def saturate (els unc : List Token) : Tree :=
  match h : unc.find? (fun u => hasId els u.prev) with
  | none => ⟨els, unc⟩
  | some u => saturate (if hasId els u.id then els else u :: els) (unc.erase u)
termination_by unc.length
decreasing_by
  have hm : u ∈ unc := List.mem_of_find?_eq_some h
  rw [List.length_erase_of_mem hm]
  have : 0 < unc.length := List.length_pos_of_mem hm
  omega

def gather (tr : Tree) (t : Token) : Tree :=
  if !t.valid then tr
  else if t.prev != 0 && !hasId tr.els t.prev then ⟨tr.els, if t ∈ tr.unc then tr.unc else tr.unc ++ [t]⟩
  else if hasId tr.els t.id then tr
  else saturate (t :: tr.els) tr.unc

def gatherAll (ts : List Token) : Tree := ts.foldl gather ⟨[], []⟩

inductive InTree (offered : List Token) : Token → Prop
  | root (t) : t ∈ offered → t.valid = true → t.prev = 0 → InTree offered t
  | child (t p) : t ∈ offered → t.valid = true → InTree offered p → p.id = t.prev → t.prev ≠ 0 → InTree offered t

theorem InTree.mono {a b : List Token} (h : ∀ t, t ∈ a → t ∈ b) {t : Token} (ht : InTree a t) : InTree b t := by
  induction ht with
  | root t hm hv hp => exact .root t (h _ hm) hv hp
  | child t p hm hv _ hid hne ih => exact .child t p (h _ hm) hv ih hid hne


/-- what holds before saturation: orphans need not yet be parentless -/
structure PreInv (seen : List Token) (els unc : List Token) : Prop where
  sound : ∀ t ∈ els, InTree seen t
  orphan : ∀ t ∈ unc, t ∈ seen ∧ t.valid = true ∧ t.prev ≠ 0
  kept : ∀ t ∈ seen, t.valid = true → hasId els t.id = true ∨ t ∈ unc
  inj : ∀ a ∈ seen, ∀ b ∈ seen, a.id = b.id → a = b      -- hash injectivity on what was offered

structure TInv (seen : List Token) (tr : Tree) : Prop where
  pre : PreInv seen tr.els tr.unc
  parentless : ∀ t ∈ tr.unc, hasId tr.els t.prev = false

theorem hasId_cons (x : Token) (l : List Token) (h : Nat) :
    hasId (x :: l) h = (x.id == h || hasId l h) := by simp [hasId]

theorem sound_mem_seen {seen els unc} (P : PreInv seen els unc) {t} (ht : t ∈ els) : t ∈ seen := by
  have := P.sound t ht
  cases this <;> assumption

theorem saturate_inv (seen els unc : List Token) (P : PreInv seen els unc) :
    TInv seen (saturate els unc) := by
  fun_induction saturate els unc with
  | case1 els unc hnone =>
    refine ⟨P, ?_⟩
    intro t ht
    have := List.find?_eq_none.mp hnone t ht
    simpa using this
  | case2 els unc u hsome ih =>
    apply ih
    have hu : u ∈ unc := List.mem_of_find?_eq_some hsome
    have hpar : hasId els u.prev = true := by
      have := List.find?_some hsome; simpa using this
    obtain ⟨huseen, huvalid, huprev⟩ := P.orphan u hu
    -- u is in the tree: its parent is an element
    have huTree : InTree seen u := by
      obtain ⟨p, hp, hpid⟩ := (hasId_iff els u.prev).mp hpar
      exact .child u p huseen huvalid (P.sound p hp) hpid huprev
    constructor
    · intro t ht
      split at ht
      · exact P.sound t ht
      · rcases List.mem_cons.mp ht with rfl | h
        · exact huTree
        · exact P.sound t h
    · intro t ht
      exact P.orphan t (List.mem_of_mem_erase ht)
    · intro t ht hv
      rcases P.kept t ht hv with h | h
      · left
        split
        · exact h
        · simp [hasId_cons, h]
      · by_cases htu : t = u
        · subst htu
          left
          split
          · assumption
          · simp [hasId_cons]
        · right
          exact (List.mem_erase_of_ne htu).mpr h
    · exact P.inj


theorem PreInv.mono {seen els unc} (P : PreInv seen els unc) (t : Token)
    (hinj : ∀ a ∈ seen ++ [t], ∀ b ∈ seen ++ [t], a.id = b.id → a = b)
    (hk : t.valid = true → hasId els t.id = true ∨ t ∈ unc) : PreInv (seen ++ [t]) els unc := by
  have hsub : ∀ x, x ∈ seen → x ∈ seen ++ [t] := fun x hx => List.mem_append_left _ hx
  refine ⟨fun x hx => (P.sound x hx).mono hsub, ?_, ?_, hinj⟩
  · intro x hx
    obtain ⟨a, b, c⟩ := P.orphan x hx
    exact ⟨hsub _ a, b, c⟩
  · intro x hx hv
    rcases List.mem_append.mp hx with h | h
    · exact P.kept x h hv
    · have : x = t := by simpa using h
      subst this; exact hk hv

theorem gather_inv (seen : List Token) (tr : Tree) (t : Token) (I : TInv seen tr)
    (hinj : ∀ a ∈ seen ++ [t], ∀ b ∈ seen ++ [t], a.id = b.id → a = b) :
    TInv (seen ++ [t]) (gather tr t) := by
  have hsub : ∀ x, x ∈ seen → x ∈ seen ++ [t] := fun x hx => List.mem_append_left _ hx
  have htmem : t ∈ seen ++ [t] := by simp
  unfold gather
  by_cases hv : t.valid = true
  · simp only [hv, Bool.not_true, Bool.false_eq_true, ↓reduceIte]
    by_cases horph : (t.prev != 0 && !hasId tr.els t.prev) = true
    · -- delayed as orphan
      simp only [horph, ↓reduceIte]
      have hprev : t.prev ≠ 0 := by
        simp at horph; exact horph.1
      have hnop : hasId tr.els t.prev = false := by
        simp at horph; exact horph.2
      constructor
      · refine ⟨fun x hx => (I.pre.sound x hx).mono hsub, ?_, ?_, hinj⟩
        · intro x hx
          split at hx
          · obtain ⟨a, b, c⟩ := I.pre.orphan x hx; exact ⟨hsub _ a, b, c⟩
          · rcases List.mem_append.mp hx with h | h
            · obtain ⟨a, b, c⟩ := I.pre.orphan x h; exact ⟨hsub _ a, b, c⟩
            · have : x = t := by simpa using h
              subst this; exact ⟨htmem, hv, hprev⟩
        · intro x hx hxv
          rcases List.mem_append.mp hx with h | h
          · rcases I.pre.kept x h hxv with k | k
            · exact Or.inl k
            · right; split
              · exact k
              · exact List.mem_append_left _ k
          · have : x = t := by simpa using h
            subst this
            right; split
            · assumption
            · simp
      · intro x hx
        split at hx
        · exact I.parentless x hx
        · rcases List.mem_append.mp hx with h | h
          · exact I.parentless x h
          · have : x = t := by simpa using h
            subst this; exact hnop
    · simp only [horph, Bool.false_eq_true, ↓reduceIte]
      by_cases hdup : hasId tr.els t.id = true
      · simp only [hdup, ↓reduceIte]
        exact ⟨I.pre.mono t hinj (fun _ => Or.inl hdup), I.parentless⟩
      · simp only [hdup, Bool.false_eq_true, ↓reduceIte]
        apply saturate_inv
        -- t joins the tree
        have htTree : InTree (seen ++ [t]) t := by
          by_cases hp0 : t.prev = 0
          · exact .root t htmem hv hp0
          · have hpar : hasId tr.els t.prev = true := by
              simp [hp0] at horph; exact horph
            obtain ⟨p, hp, hpid⟩ := (hasId_iff tr.els t.prev).mp hpar
            exact .child t p htmem hv ((I.pre.sound p hp).mono hsub) hpid hp0
        refine ⟨?_, ?_, ?_, hinj⟩
        · intro x hx
          rcases List.mem_cons.mp hx with rfl | h
          · exact htTree
          · exact (I.pre.sound x h).mono hsub
        · intro x hx
          obtain ⟨a, b, c⟩ := I.pre.orphan x hx; exact ⟨hsub _ a, b, c⟩
        · intro x hx hxv
          rcases List.mem_append.mp hx with h | h
          · rcases I.pre.kept x h hxv with k | k
            · left; simp [hasId_cons, k]
            · exact Or.inr k
          · have : x = t := by simpa using h
            subst this; left; simp [hasId_cons]
  · simp only [hv, Bool.not_false, ↓reduceIte]
    have hv' : t.valid = false := by simpa using hv
    exact ⟨I.pre.mono t hinj (fun h => by simp [hv'] at h), I.parentless⟩

theorem gatherAll_inv_aux (ts seen : List Token) (tr : Tree) (I : TInv seen tr)
    (hinj : ∀ a ∈ seen ++ ts, ∀ b ∈ seen ++ ts, a.id = b.id → a = b) :
    TInv (seen ++ ts) (ts.foldl gather tr) := by
  induction ts generalizing seen tr with
  | nil => simpa using I
  | cons t ts ih =>
    have h1 : seen ++ t :: ts = (seen ++ [t]) ++ ts := by simp
    rw [h1] at hinj ⊢
    simp only [List.foldl_cons]
    apply ih
    · apply gather_inv _ _ _ I
      intro a ha b hb
      exact hinj a (List.mem_append_left _ ha) b (List.mem_append_left _ hb)
    · exact hinj

theorem gatherAll_inv (ts : List Token) (hinj : ∀ a ∈ ts, ∀ b ∈ ts, a.id = b.id → a = b) :
    TInv ts (gatherAll ts) := by
  have I0 : TInv [] ⟨[], []⟩ := ⟨⟨by simp, by simp, by simp, by simp⟩, by simp⟩
  simpa [gatherAll] using gatherAll_inv_aux ts [] _ I0 (by simpa using hinj)

/-- soundness and completeness: the elements are exactly the least fixpoint -/
theorem elements_iff (ts : List Token) (hinj : ∀ a ∈ ts, ∀ b ∈ ts, a.id = b.id → a = b) (t : Token) :
    t ∈ (gatherAll ts).els ↔ InTree ts t := by
  have I := gatherAll_inv ts hinj
  constructor
  · exact I.pre.sound t
  · intro h
    induction h with
    | root t hm hv hp =>
      rcases I.pre.kept t hm hv with k | k
      · obtain ⟨x, hx, hid⟩ := (hasId_iff _ _).mp k
        have : x = t := I.pre.inj x (sound_mem_seen I.pre hx) t hm hid
        exact this ▸ hx
      · exact absurd hp (I.pre.orphan t k).2.2
    | child t p hm hv _ hid hne ih =>
      rcases I.pre.kept t hm hv with k | k
      · obtain ⟨x, hx, hid'⟩ := (hasId_iff _ _).mp k
        have : x = t := I.pre.inj x (sound_mem_seen I.pre hx) t hm hid'
        exact this ▸ hx
      · have := I.parentless t k
        have hp : hasId (gatherAll ts).els t.prev = true := (hasId_iff _ _).mpr ⟨p, ih, hid⟩
        simp [hp] at this

theorem InTree.perm {a b : List Token} (h : a.Perm b) (t : Token) : InTree a t ↔ InTree b t :=
  ⟨fun x => x.mono (fun _ hx => h.mem_iff.mp hx), fun x => x.mono (fun _ hx => h.mem_iff.mpr hx)⟩

/-- order independence -/
theorem order_independent (ts us : List Token) (hp : ts.Perm us)
    (hinj : ∀ a ∈ ts, ∀ b ∈ ts, a.id = b.id → a = b) (t : Token) :
    t ∈ (gatherAll ts).els ↔ t ∈ (gatherAll us).els := by
  have hinj' : ∀ a ∈ us, ∀ b ∈ us, a.id = b.id → a = b :=
    fun a ha b hb => hinj a (hp.mem_iff.mpr ha) b (hp.mem_iff.mpr hb)
  rw [elements_iff ts hinj, elements_iff us hinj', InTree.perm hp]

#print axioms order_independent
