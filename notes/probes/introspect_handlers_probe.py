import sys, pkgutil, importlib, inspect, asyncio
sys.path.insert(0, "/repo")
import ipv8
from ipv8.community import Community
for m in pkgutil.walk_packages(ipv8.__path__, "ipv8."):
    if ".test" in m.name: continue
    try: importlib.import_module(m.name)
    except Exception as e: pass
def allsubs(c):
    out = set()
    for s in c.__subclasses__():
        out.add(s); out |= allsubs(s)
    return out
subs = sorted(allsubs(Community), key=lambda c: (c.__module__, c.__name__))
from ipv8.test.mocking.ipv8 import MockIPv8
async def main():
    for c in subs:
        if not hasattr(c, "community_id"):
            print("NOID", c); continue
        try:
            kw = {}
            if "Identity" in c.__name__ or "Attestation" in c.__name__: kw = {"working_directory": ":memory:"}
            node = MockIPv8("curve25519", c, **kw)
        except Exception as e:
            print("FAIL", c.__name__, type(e).__name__, e); continue
        o = node.overlay
        print("==", c.__module__, c.__name__)
        for i, h in enumerate(o.decode_map):
            if h is None: continue
            f = getattr(h, "__func__", h)
            code = f.__code__
            w = getattr(f, "__wrapped__", None)
            print(f"  {i:3d} {f.__qualname__:45s} wrapper_src={code.co_filename.split('/')[-1]}:{code.co_firstlineno} wrapped={'Y' if w else 'N'}")
        if hasattr(o, "decode_map_private"):
            for i, h in sorted(o.decode_map_private.items()):
                f = getattr(h, "__func__", h)
                print(f"  cell {i:3d} {f.__qualname__:45s} {f.__code__.co_filename.split('/')[-1]}:{f.__code__.co_firstlineno}")
        await node.stop()
asyncio.run(main())
