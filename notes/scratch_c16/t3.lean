import Ipv8.C16.Lemmas
open Ipv8 Ipv8.C16
#print axioms drain_inv
#print axioms inv_holds_iff
#print axioms gatherAll_contentOk
#print axioms fits_of_length
#check @history_full
