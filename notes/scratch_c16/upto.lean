import Ipv8.C16.Lemmas
namespace Ipv8.C16
open Ipv8
variable {C : Crypto} {g : Bytes} {cap : Nat}

/-- the `while` loop of serialize_public(up_to) follows the same links as the verify loop -/
theorem upTo_eq_walk (els : List Token) (hg : hasId C els g = false) :
    ∀ (n : Nat) (t : Token) (path : List Token), walk C g els n t = some path → ∀ m, n ≤ m + 1 →
      t.signed ++ upToLoop C els m t.prev = path.flatMap Token.signed
  | 0, _, _, h, _, _ => by simp [walk] at h
  | n + 1, t, path, h, m, hm => by
    rw [walk] at h
    split at h
    · cases h
    · split at h
      · rename_i hgg
        have hg' : t.prev = g := by simpa using hgg
        simp only [Option.some.injEq] at h
        subst h
        have hl : lookup C els t.prev = none := by
          cases hl : lookup C els t.prev with
          | none => rfl
          | some p =>
            obtain ⟨hp, hid⟩ := lookup_some C hl
            rw [hg'] at hid
            rw [(hasId_iff C els g).mpr ⟨p, hp, hid⟩] at hg; cases hg
        cases m with
        | zero => simp [upToLoop]
        | succ k => simp [upToLoop, hl]
      · cases hl : lookup C els t.prev with
        | none => simp [hl] at h
        | some p =>
          simp only [hl] at h
          cases hw : walk C g els n p with
          | none => simp [hw] at h
          | some rest =>
            simp only [hw, Option.map_some, Option.some.injEq] at h
            subst h
            cases m with
            | zero =>
              have : n = 0 := by omega
              subst this
              simp [walk] at hw
            | succ k =>
              have ih := upTo_eq_walk els hg n p rest hw k (by omega)
              have hpid := (lookup_some C hl).2
              simp only [upToLoop, hl, List.flatMap_cons]
              rw [ih]

end Ipv8.C16

namespace Ipv8.C16
open Ipv8
variable {C : Crypto} {g : Bytes} {cap : Nat}

theorem Path.head_mem {els : List Token} {t : Token} {path : List Token} (h : Path C g els t path) : t ∈ path := by
  cases h <;> simp

theorem Path.subset {els : List Token} {t : Token} {path : List Token} (h : Path C g els t path) (ht : t ∈ els) :
    ∀ x ∈ path, x ∈ els := by
  induction h with
  | root t _ _ => intro x hx; have : x = t := by simpa using hx
                  exact this ▸ ht
  | step t p rest _ hp _ _ ih =>
    intro x hx
    rcases List.mem_cons.mp hx with rfl | h
    · exact ht
    · exact ih hp x h

theorem Path.all_inTree {els : List Token} {t : Token} {path : List Token} (h : Path C g els t path) :
    ∀ x ∈ path, InTree C g path x := by
  induction h with
  | root t hv hg =>
    intro x hx
    have : x = t := by simpa using hx
    subst this
    exact .root x (Off.self (by simp)) hv hg
  | step t p rest hv _ hid hp ih =>
    intro x hx
    have hsub : ∀ y, y ∈ rest → y ∈ t :: rest := fun y hy => List.mem_cons_of_mem _ hy
    rcases List.mem_cons.mp hx with rfl | h
    · exact .child x p (Off.self (by simp)) hv ((ih p hp.head_mem).mono hsub) hid
    · exact (ih x h).mono hsub

theorem InTree.mono_off {a b : List Token} (h : ∀ t, Off a t → Off b t) {t : Token} (ht : InTree C g a t) :
    InTree C g b t := by
  induction ht with
  | root t hm hv hp => exact .root t (h t hm) hv hp
  | child t p hm hv _ hid ih => exact .child t p (h t hm) hv ih hid

theorem off_map_strip (l : List Token) (t : Token) : Off (l.map Token.strip) t ↔ Off l t := by
  constructor
  · rintro ⟨o, ho, hc⟩
    obtain ⟨y, hy, rfl⟩ := List.mem_map.mp ho
    exact ⟨y, hy, hc⟩
  · rintro ⟨o, ho, hc⟩
    exact ⟨o.strip, List.mem_map.mpr ⟨o, ho, rfl⟩, hc⟩

theorem upto_reload (tr : Tree) (t : Token) (hc : Chained C g tr.els) (ht : t ∈ tr.els)
    (hw : ∀ e ∈ tr.els, WireOk C e) (hg : hasId C tr.els g = false) (hinj : HashInj C tr.els)
    (hcap : tr.els.length ≤ cap) :
    (unserializePublic C g cap Tree.empty (serializeUpTo C tr t)).2.isSome = true ∧
    ∀ x, (unserializePublic C g cap Tree.empty (serializeUpTo C tr t)).1.holds x ↔
      ∃ y ∈ rootPath C g tr t tr.els.length, y.core = x.core := by
  have hsome := chained_walk hc t ht
  cases hwk : walk C g tr.els tr.els.length t with
  | none => simp [hwk] at hsome
  | some path =>
    obtain ⟨hpath, hlen⟩ := walk_sound tr.els _ t path hwk
    have hser : serializeUpTo C tr t = path.flatMap Token.signed :=
      upTo_eq_walk tr.els hg _ t path hwk _ (Nat.le_succ _)
    have hsub := hpath.subset ht
    have hparse := parse_serialize (C := C) path (fun x hx => hw x (hsub x hx))
    have hrp : rootPath C g tr t tr.els.length = path := by simp [rootPath, hwk]
    have hinj' : HashInj C (path.map Token.strip) := by
      intro a ha b hb hid
      obtain ⟨a', ha', rfl⟩ := List.mem_map.mp ha
      obtain ⟨b', hb', rfl⟩ := List.mem_map.mp hb
      exact hinj a' (hsub a' ha') b' (hsub b' hb') hid
    have hfit : Fits C g cap Tree.empty (path.map Token.strip) :=
      fits_of_length Tree.empty _ (by simp [Tree.empty]; omega)
    have I := history_full (g := g) (cap := cap) (path.map Token.strip) hfit hinj'
    simp only [unserializePublic, hser, hparse, gatherFlags_fst, hrp]
    refine ⟨rfl, fun x => ?_⟩
    unfold Tree.holds
    rw [inv_holds_iff I x]
    constructor
    · intro hx
      obtain ⟨o, ho, hoc⟩ := (off_map_strip path x).mp hx.off
      exact ⟨o, ho, hoc⟩
    · rintro ⟨y, hy, hyc⟩
      exact ((hpath.all_inTree y hy).mono_off (fun z hz => (off_map_strip path z).mpr hz)).of_core hyc

end Ipv8.C16
