#!/bin/bash
# usage: mut.sh <name> <file-rel> <python-expr-old> <python-expr-new>
name="$1"; file="$2"
cd /tmp/wt_c16 && git checkout -q -- . 
/venv/bin/python - "$file" "$3" "$4" <<'PY'
import sys
p,old,new=sys.argv[1],sys.argv[2],sys.argv[3]
s=open(p).read()
assert s.count(old)>=1,(old,'not found')
s=s.replace(old,new,1)
open(p,'w').write(s)
PY
echo "=== $name"
(cd /tmp/wt_c16 && /venv/bin/python -m pytest -q -p no:cacheprovider --timeout=900 ipv8/test/attestation 2>&1 | tail -1)
cd /verif && VERIF_REPO=/tmp/wt_c16 ./check C16 quick 2>&1 | grep -v "^  " | cut -c1-400 | tail -5
/venv/bin/python - <<'PY'
import json,glob
for f in sorted(glob.glob('/verif/replays/C16/violation_*.json'))[:3]:
    r=json.load(open(f)); print('   ', r['signature'],'|',r['what'][:160])
PY
rm -rf /verif/replays/C16
