import Ipv8.C16.Lemmas
import Ipv8.C16.Source
namespace Ipv8.C16
open Ipv8
variable {C : Crypto} {g : Bytes} {cap : Nat}

theorem lookup_of_hasId {els : List Token} {h : Bytes} (hh : hasId C els h = true) :
    ∃ x, lookup C els h = some x := by
  have := lookup_isSome C els h
  rw [hh] at this
  cases hl : lookup C els h with
  | none => simp [hl] at this
  | some x => exact ⟨x, rfl⟩

theorem gather_token_matches_source (tr : Tree) (t : Token) :
    Gen.gatherTree.eval (gatherVal C g tr t) = gatherAct C g tr t := by
  unfold Gen.gatherTree gatherAct gatherKind
  simp only [DTree.eval, Cond.eval, gatherVal, Token.ok, Token.sized, bne]
  rcases Bool.eq_false_or_eq_true (t.prev.length == g.length) with h1 | h1 <;>
  rcases Bool.eq_false_or_eq_true (t.chash.length == g.length) with h2 | h2 <;>
  rcases Bool.eq_false_or_eq_true (t.valid C) with h3 | h3 <;>
  rcases Bool.eq_false_or_eq_true (t.prev == g) with h4 | h4 <;>
  rcases Bool.eq_false_or_eq_true (hasId C tr.els t.prev) with h5 | h5 <;>
  rcases Bool.eq_false_or_eq_true (hasId C tr.els (t.id C)) with h6 | h6 <;>
  simp only [h1, h2, h3, h4, h5, h6] <;> try (simp; done)
  all_goals
    obtain ⟨x, hx⟩ := lookup_of_hasId h6
    simp only [hx]
    cases x.content <;> cases t.content <;> simp
end Ipv8.C16

namespace Ipv8.C16
open Ipv8
variable {C : Crypto} {g : Bytes} {cap : Nat}

/-- what each path through gather_token does to the tree -/
theorem gather_by_act (tr : Tree) (t : Token) :
    gather C g cap tr t =
      match gatherAct C g tr t with
      | .retNone => tr
      | .park => ⟨tr.els, uncAdd cap tr.unc t⟩
      | .shadowKeep => ⟨absorb C tr.els t, tr.unc⟩
      | .shadowReceive => ⟨absorb C tr.els t, tr.unc⟩
      | .chain => drain C g cap (tr.els ++ [t]) (othersOf tr.unc (t.id C)) (kidsOf tr.unc (t.id C))
      | _ => tr := by
  unfold gather gatherAct gatherKind
  rw [drain]
  by_cases hv : (!t.ok C g) = true
  · simp [hv, drain_nil]
  · by_cases ho : (t.prev != g && !hasId C tr.els t.prev) = true
    · simp [hv, ho, drain_nil]
    · by_cases hd : hasId C tr.els (t.id C) = true
      · obtain ⟨x, hx⟩ := lookup_of_hasId hd
        simp only [hv, ho, hd, hx, Bool.false_eq_true, ↓reduceIte, drain_nil]
        cases (x.content.isNone && t.content.isSome) <;> rfl
      · simp [hv, ho, hd]

theorem verify_loop_matches_source (els : List Token) (cur : Token) :
    Gen.verifyLoopTree.eval (walkVal C g els cur) = walkAct C g els cur ∧
    Gen.rootPathLoopTree.eval (walkVal C g els cur) = walkAct C g els cur := by
  unfold Gen.verifyLoopTree Gen.rootPathLoopTree walkAct
  simp only [DTree.eval, Cond.eval, walkVal]
  rcases Bool.eq_false_or_eq_true (cur.valid C) with h1 | h1 <;>
  rcases Bool.eq_false_or_eq_true (cur.prev == g) with h2 | h2 <;>
  rcases Bool.eq_false_or_eq_true (hasId C els cur.prev) with h3 | h3 <;>
  simp only [h1, h2, h3] <;> try (simp; done)
  · obtain ⟨x, hx⟩ := lookup_of_hasId h3
    simp [hx]
  · have := lookup_isSome C els cur.prev
    rw [h3] at this
    cases hl : lookup C els cur.prev with
    | none => simp
    | some x => simp [hl] at this

/-- what each path through one loop iteration does -/
theorem walk_by_act (els : List Token) (n : Nat) (cur : Token) :
    walk C g els (n + 1) cur =
      match walkAct C g els cur with
      | .fail => none
      | .brk => some [cur]
      | .step => ((lookup C els cur.prev).bind (fun p => walk C g els n p)).map (cur :: ·)
      | _ => none := by
  rw [walk]
  unfold walkAct
  by_cases hv : (!cur.valid C) = true
  · simp [hv]
  · by_cases hg : (cur.prev == g) = true
    · simp [hv, hg]
    · cases hl : lookup C els cur.prev <;> simp [hv, hg]

theorem receive_content_matches_source (t : Token) (c : Bytes) :
    Gen.receiveTree.eval (receiveVal C t c) =
      (if (t.receiveContent C c).2 then .setContent else .retFalse) ∧
    ((t.receiveContent C c).2 = true → (t.receiveContent C c).1 = { t with content := some c }) ∧
    ((t.receiveContent C c).2 = false → (t.receiveContent C c).1 = t) := by
  unfold Gen.receiveTree Token.receiveContent
  simp only [DTree.eval, Cond.eval, receiveVal]
  rcases Bool.eq_false_or_eq_true (C.hash c == t.chash) with h | h <;> simp [h]

theorem waiting_bound_matches_source : Gen.capCmp = .gt ∧ Gen.popLast = false := by decide
end Ipv8.C16
