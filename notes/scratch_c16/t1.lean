import Ipv8.C16.Model
open Ipv8 Ipv8.C16

def toy : Crypto := ⟨fun x => x.take 1, fun _ s => s == [1], 1⟩
-- tokens: id = first byte of prev?? hash = take 1 of signed = first byte of prev. bad toy; use hash = [sum]
def toy2 : Crypto := ⟨fun x => [x.foldl (· + ·) 0], fun _ s => s == [1], 1⟩
def A : Token := ⟨[0], [10], [1], none⟩   -- id = [11]
def B : Token := ⟨[11], [20], [1], none⟩  -- id 32
def Cc : Token := ⟨[11], [30], [1], none⟩ -- id 42
#eval gatherAll toy2 [0] 100 Tree.empty [B, Cc, A]
example : (gatherAll toy2 [0] 100 Tree.empty [B, Cc, A]).els = [A, B, Cc] := by decide
