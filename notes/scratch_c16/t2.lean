import Ipv8.C16.Model
open Ipv8 Ipv8.C16
def toy2 : Crypto := ⟨fun x => [x.foldl (· + ·) 0], fun _ s => s == [1], 1⟩
def A : Token := ⟨[0], [10], [1], none⟩   -- id = [11]
def B : Token := ⟨[11], [20], [1], none⟩  -- id 32
def Cc : Token := ⟨[11], [30], [1], none⟩ -- id 42
example : (gatherAll toy2 [0] 100 Tree.empty [B, Cc, A]).els = [A, B, Cc] := by decide +kernel
example : (gatherAll toy2 [0] 100 Tree.empty [B, Cc, A]).els = [A, B, Cc] := by
  simp [gatherAll, gather, drain, Tree.empty, toy2, A, B, Cc, Token.valid, Token.id, Token.signed, Token.plain, hasId, uncAdd, kidsOf, othersOf, Token.same]
