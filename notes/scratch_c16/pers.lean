import Ipv8.C16.Lemmas
namespace Ipv8.C16
open Ipv8
variable {C : Crypto} {g : Bytes} {cap : Nat}

/-- soundness alone, for trees that are NOT known to be a chain (elements loaded from a database in any order) -/
theorem drain_wsound (seen els unc stack : List Token)
    (h1 : ∀ e ∈ els, InTree C g seen e) (h2 : ∀ u ∈ unc, Off seen u) (h3 : ∀ r ∈ stack, Off seen r) :
    (∀ e ∈ (drain C g cap els unc stack).els, InTree C g seen e) ∧
    (∀ u ∈ (drain C g cap els unc stack).unc, Off seen u) := by
  fun_induction drain C g cap els unc stack with
  | case1 els unc => exact ⟨h1, h2⟩
  | case2 els unc r rest hv ih => exact ih h1 h2 (fun x hx => h3 x (List.mem_cons_of_mem _ hx))
  | case3 els unc r rest hv ho ih =>
    refine ih h1 ?_ (fun x hx => h3 x (List.mem_cons_of_mem _ hx))
    intro u hu
    rcases mem_uncAdd cap hu with h | rfl
    · exact h2 u h
    · exact h3 u List.mem_cons_self
  | case4 els unc r rest hv ho hd ih =>
    refine ih ?_ h2 (fun x hx => h3 x (List.mem_cons_of_mem _ hx))
    intro e he
    obtain ⟨e0, h0, hc⟩ := mem_absorb C he
    exact (h1 e0 h0).of_core hc
  | case5 els unc r rest hv ho hd ih =>
    have hv' : r.ok C g = true := by simpa using hv
    have hroff : Off seen r := h3 r List.mem_cons_self
    have hpar : r.prev = g ∨ hasId C els r.prev = true := by
      by_cases hg : r.prev = g
      · exact Or.inl hg
      · right
        cases hh : hasId C els r.prev with
        | true => rfl
        | false => exact absurd (by simp [hg, hh]) ho
    have hrTree : InTree C g seen r := by
      rcases hpar with hg | hp
      · exact .root r hroff hv' hg
      · obtain ⟨p, hp1, hp2⟩ := (hasId_iff C els r.prev).mp hp
        exact .child r p hroff hv' (h1 p hp1) hp2
    refine ih ?_ ?_ ?_
    · intro e he
      rcases List.mem_append.mp he with h | h
      · exact h1 e h
      · have : e = r := by simpa using h
        exact this ▸ hrTree
    · intro u hu; exact h2 u (mem_othersOf.mp hu).1
    · intro x hx
      rcases List.mem_append.mp hx with h | h
      · exact h2 x (mem_kidsOf.mp h).1
      · exact h3 x (List.mem_cons_of_mem _ h)

theorem gatherAll_wsound (seen : List Token) (tr : Tree) (ts : List Token)
    (h1 : ∀ e ∈ tr.els, InTree C g seen e) (h2 : ∀ u ∈ tr.unc, Off seen u) :
    (∀ e ∈ (gatherAll C g cap tr ts).els, InTree C g (seen ++ ts) e) ∧
    (∀ u ∈ (gatherAll C g cap tr ts).unc, Off (seen ++ ts) u) := by
  induction ts generalizing seen tr with
  | nil => simpa [gatherAll] using And.intro h1 h2
  | cons t ts ih =>
    have hsub : ∀ x, x ∈ seen → x ∈ seen ++ [t] := fun x hx => List.mem_append_left _ hx
    have := drain_wsound (C := C) (g := g) (cap := cap) (seen ++ [t]) tr.els tr.unc [t]
      (fun e he => (h1 e he).mono hsub) (fun u hu => (h2 u hu).mono hsub)
      (fun r hr => by
        have : r = t := by simpa using hr
        exact this ▸ Off.self (by simp))
    have h := ih (seen ++ [t]) (gather C g cap tr t) this.1 this.2
    simpa [gatherAll, List.append_assoc] using h

theorem mem_dictSet {els : List Token} {t x : Token} (h : x ∈ dictSet C els t) : x ∈ els ∨ x = t := by
  unfold dictSet at h
  split at h
  · obtain ⟨y, hy, rfl⟩ := List.mem_map.mp h
    split
    · exact Or.inr rfl
    · exact Or.inl hy
  · rcases List.mem_append.mp h with h | h
    · exact Or.inl h
    · right; simpa using h

theorem mem_dbInsert {db : List Token} {t x : Token} (h : x ∈ dbInsert db t) : x ∈ db ∨ x = t := by
  unfold dbInsert at h
  split at h
  · exact Or.inl h
  · rcases List.mem_append.mp h with h | h
    · exact Or.inl h
    · right; simpa using h

theorem mem_foldl_dbInsert {db l : List Token} {x : Token} (h : x ∈ l.foldl dbInsert db) : x ∈ db ∨ x ∈ l := by
  induction l generalizing db with
  | nil => exact Or.inl h
  | cons a l ih =>
    rcases ih h with h1 | h1
    · rcases mem_dbInsert h1 with h2 | h2
      · exact Or.inl h2
      · exact Or.inr (h2 ▸ List.mem_cons_self)
    · exact Or.inr (List.mem_cons_of_mem _ h1)

/-- invariant of the manager: tree elements and stored rows are in the fixpoint, waiting tokens were offered -/
structure PInv (C : Crypto) (g : Bytes) (seen : List Token) (p : Pseudo) : Prop where
  els : ∀ e ∈ p.tree.els, InTree C g seen e
  unc : ∀ u ∈ p.tree.unc, Off seen u
  db : ∀ d ∈ p.db, InTree C g seen d

theorem PInv.mono {seen seen' : List Token} {p : Pseudo} (h : ∀ t, t ∈ seen → t ∈ seen') (I : PInv C g seen p) :
    PInv C g seen' p :=
  ⟨fun e he => (I.els e he).mono h, fun u hu => (I.unc u hu).mono h, fun d hd => (I.db d hd).mono h⟩

theorem storeNew_inv {seen : List Token} {p : Pseudo} (known : List Bytes) (I : PInv C g seen p) :
    PInv C g seen (p.storeNew C known) := by
  refine ⟨I.els, I.unc, ?_⟩
  intro d hd
  rcases mem_foldl_dbInsert hd with h | h
  · exact I.db d h
  · exact I.els d (List.mem_filter.mp h).1

theorem restart_inv {seen : List Token} {p : Pseudo} (I : PInv C g seen p) : PInv C g seen (p.restart C) := by
  refine ⟨?_, by simp [Pseudo.restart], I.db⟩
  have key : ∀ (l els : List Token), (∀ e ∈ els, InTree C g seen e) → (∀ d ∈ l, InTree C g seen d) →
      ∀ e ∈ l.foldl (fun els t => dictSet C els (Token.ofDatabaseTuple C t.prev t.sig t.chash t.content)) els,
        InTree C g seen e := by
    intro l
    induction l with
    | nil => intro els h _; exact h
    | cons a l ih =>
      intro els h hl
      apply ih
      · intro e he
        rcases mem_dictSet he with h1 | h1
        · exact h e h1
        · have hc : (Token.ofDatabaseTuple C a.prev a.sig a.chash a.content).core = a.core := by
            cases hcon : a.content with
            | none => simp [Token.ofDatabaseTuple, Token.ofHash, Token.core]
            | some c =>
              simp only [Token.ofDatabaseTuple]
              rw [receiveContent_core]; rfl
          rw [h1]
          exact (hl a List.mem_cons_self).of_core hc.symm
      · exact fun d hd => hl d (List.mem_cons_of_mem _ hd)
  exact key p.db [] (by simp) I.db

theorem step_inv (seen : List Token) (p : Pseudo) (ev : PEvent) (I : PInv C g seen p) :
    PInv C g (seen ++ ev.offers C.sigLen) (p.step C g cap ev) := by
  cases ev with
  | restart =>
    simpa [PEvent.offers, Pseudo.step] using restart_inv I
  | substantiate s =>
    simp only [PEvent.offers, Pseudo.step, Pseudo.substantiate]
    apply storeNew_inv
    have hsub : ∀ t, t ∈ seen → t ∈ seen ++ (parseChunks C.sigLen s).1 := fun t ht => List.mem_append_left _ ht
    have := gatherAll_wsound (C := C) (g := g) (cap := cap) seen p.tree (parseChunks C.sigLen s).1 I.els I.unc
    refine ⟨?_, ?_, fun d hd => (I.db d hd).mono hsub⟩
    · simpa [unserializePublic, gatherFlags_fst] using this.1
    · simpa [unserializePublic, gatherFlags_fst] using this.2
  | credential t =>
    simp only [PEvent.offers, Pseudo.step, Pseudo.addCredential]
    have hsub : ∀ x, x ∈ seen → x ∈ seen ++ [t] := fun x hx => List.mem_append_left _ hx
    have := gatherAll_wsound (C := C) (g := g) (cap := cap) seen p.tree [t] I.els I.unc
    have hg : gatherAll C g cap p.tree [t] = gather C g cap p.tree t := rfl
    rw [hg] at this
    split
    · rename_i hk
      apply storeNew_inv
      refine ⟨this.1, this.2, ?_⟩
      intro d hd
      rcases mem_dbInsert hd with h | h
      · exact (I.db d h).mono hsub
      · -- the offered token was accepted: signed, sized, and its parent is genesis or an element
        subst h
        have hoff : Off (seen ++ [d]) d := Off.self (by simp)
        unfold gatherKind at hk
        by_cases hv : (!d.ok C g) = true
        · simp [hv, Kind.isSome] at hk
        · have hv' : d.ok C g = true := by simpa using hv
          by_cases ho : (d.prev != g && !hasId C p.tree.els d.prev) = true
          · simp [hv, ho, Kind.isSome] at hk
          · by_cases hg : d.prev = g
            · exact .root d hoff hv' hg
            · have hp : hasId C p.tree.els d.prev = true := by
                cases hh : hasId C p.tree.els d.prev with
                | true => rfl
                | false => exact absurd (by simp [hg, hh]) ho
              obtain ⟨q, hq1, hq2⟩ := (hasId_iff C _ _).mp hp
              exact .child d q hoff hv' ((I.els q hq1).mono hsub) hq2
    · exact ⟨this.1, this.2, fun d hd => (I.db d hd).mono hsub⟩

/-- the manager after a history of events, started empty -/
def Pseudo.run (C : Crypto) (g : Bytes) (cap : Nat) (evs : List PEvent) : Pseudo :=
  evs.foldl (Pseudo.step C g cap) Pseudo.fresh

theorem run_inv (evs : List PEvent) :
    PInv C g (evs.flatMap (PEvent.offers C.sigLen)) (Pseudo.run C g cap evs) := by
  have key : ∀ (evs : List PEvent) (seen : List Token) (p : Pseudo), PInv C g seen p →
      PInv C g (seen ++ evs.flatMap (PEvent.offers C.sigLen)) (evs.foldl (Pseudo.step C g cap) p) := by
    intro evs
    induction evs with
    | nil => intro seen p I; simpa using I
    | cons ev evs ih =>
      intro seen p I
      have := ih _ _ (step_inv (cap := cap) seen p ev I)
      simpa [List.flatMap_cons, List.append_assoc] using this
  have := key evs [] Pseudo.fresh ⟨by simp [Pseudo.fresh, Tree.empty], by simp [Pseudo.fresh, Tree.empty],
    by simp [Pseudo.fresh]⟩
  simpa [Pseudo.run] using this

end Ipv8.C16
