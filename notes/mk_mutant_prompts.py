"""Derive the mutant-writer prompts of round N+1 from those of round N: python3 notes/mk_mutant_prompts.py 5 6 m13,m14,m15 m16,m17,m18 [ORDINAL]
(adds the summaries of the previous round's changes to the list of used ideas, renames worktree/output dirs and the three directory names)."""
import json
import sys
from pathlib import Path

V = Path(__file__).resolve().parent.parent
prev, new = sys.argv[1], sys.argv[2]
pk, nk = sys.argv[3].split(","), sys.argv[4].split(",")
ordn = {"5": "FIFTH", "6": "SIXTH", "7": "SEVENTH", "8": "EIGHTH"}
out = Path(f"/tmp/mut_prompts{new}")
out.mkdir(exist_ok=True)
Path(f"/tmp/mut_out{new}").mkdir(exist_ok=True)
for p in range(1, 21):
    pid = f"C{p:02d}"
    s = (V / "notes" / "mutant_prompts" / f"{pid}_round{prev}.txt").read_text()
    s = s.replace(f"mutwt{prev}", f"mutwt{new}").replace(f"mut_out{prev}", f"mut_out{new}").replace(ordn[prev], ordn[new])
    a, b = int(pk[0][1:]), int(pk[-1][1:])
    c, d = int(nk[0][1:]), int(nk[-1][1:])
    old = f"in {a}..{b} (name the three directories {', '.join(pk)})"
    assert old in s, old
    s = s.replace(old, f"in {c}..{d} (name the three directories {', '.join(nk)})")
    extra = []
    for k in pk:
        m = json.loads((V / "seeded" / f"{pid}_{k}" / "meta.json").read_text())
        extra.append("  - " + m.get("summary", "").replace("\n", " ")[:260])
    marker = "Prefer changes whose effect only shows"
    assert marker in s
    s = s.replace(marker, "\n".join(extra) + "\n" + marker, 1)
    (out / f"{pid}.txt").write_text(s)
    (V / "notes" / "mutant_prompts" / f"{pid}_round{new}.txt").write_text(s)
print("ok", out)
