import sys, asyncio, random, struct
sys.path.insert(0,"/repo"); sys.path.insert(0,"/verif/tools"); sys.path.insert(0,"/verif/harness")
import c04, vclock
from ipv8.messaging.anonymization.tunnel import *
from ipv8.messaging.anonymization.payload import DataPayload
async def main():
    rng = random.Random(1)
    sim = c04.Sim(rng, False, True)
    for _ in range(2): sim.add_node()
    sim.nodes[1].overlay.settings.peer_flags = {PEER_FLAG_RELAY, PEER_FLAG_SPEED_TEST, PEER_FLAG_EXIT_BT}
    await sim.introduce()
    o = sim.nodes[0].overlay
    # hold back the CREATE so that the circuit stays without hops
    sim.nodes[0].endpoint.send = lambda a, p: None
    c = o.create_circuit(1)
    print("state", c.state, "hops", len(c.hops), "cid", c.circuit_id)
    ser = o.serializer
    msg = bytes([1]) + ser.pack_serializable(DataPayload(c.circuit_id, ("0.0.0.0",0), ("6.6.6.6",6), b"FOREIGN-DATA"))[4:]
    pkt = o.get_prefix() + b"\x00" + struct.pack("!I??", c.circuit_id, False, False) + msg
    q = sim.inject(0, 1, pkt)
    await sim.settle()
    print("raw_log", sim.raw_log, "delivered", q.delivered[:1] and q.delivered[0][:2])
loop = vclock.new_loop()
loop.run_until_complete(main())
