import sys, asyncio, random
sys.path.insert(0, "/repo"); sys.path.insert(0, "/verif/tools")
import vclock
from ipv8.test.mocking import endpoint as mep
from ipv8.test.mocking.ipv8 import MockIPv8
from ipv8.messaging.anonymization.community import TunnelCommunity, TunnelSettings
from ipv8.messaging.anonymization.tunnel import *
from ipv8.test.messaging.anonymization.mock import MockDHTProvider
mep.AutoMockEndpoint.SEND_INET_EXCEPTION_TO_LOOP = False

def mk():
    s = TunnelSettings(); s.min_circuits=0; s.max_circuits=0; s.remove_tunnel_delay=0
    s.peer_flags = {PEER_FLAG_RELAY, PEER_FLAG_SPEED_TEST}
    n = MockIPv8("curve25519", TunnelCommunity, settings=s)
    n.overlay.cancel_all_pending_tasks()
    n.overlay.settings.min_circuits = 1; n.overlay.settings.max_circuits = 1
    n.overlay.dht_provider = MockDHTProvider(n.overlay.my_peer)
    return n

async def main():
    nodes = [mk() for _ in range(4)]
    log = []
    for i, n in enumerate(nodes):
        orig = n.endpoint.send
        def send(addr, pkt, i=i, orig=orig):
            log.append((i, addr, pkt)); orig(addr, pkt)
        n.endpoint.send = send
    nodes[3].overlay.settings.peer_flags |= {PEER_FLAG_EXIT_BT}
    for a in nodes:
        for b in nodes:
            if a is not b: a.overlay.walk_to(b.endpoint.wan_address)
    await asyncio.sleep(0.1)
    c = nodes[0].overlay.create_circuit(3)
    await c.ready
    print("ready", c.circuit_id, [h.peer.address for h in c.hops], c.relay_early_count)
    for i, n in enumerate(nodes):
        o = n.overlay
        print(i, n.endpoint.wan_address, "circ", list(o.circuits), "relays", {k:(v.circuit_id, v.direction, v.hop.address, v.relay_early_count) for k,v in o.relay_from_to.items()}, "exits", {k:v.hop.address for k,v in o.exit_sockets.items()})
    n0 = len(log)
    got = []
    nodes[0].overlay.on_raw_data = lambda c, o, d: got.append((c.circuit_id, o, d))
    # exit side
    ex = [n for n in nodes if n.overlay.exit_sockets][0]
    es = list(ex.overlay.exit_sockets.values())[0]
    es.tunnel_data(("1.2.3.4", 5), b"hello-back")
    await asyncio.sleep(0.05)
    print(got)
    for (i, addr, pkt) in log[n0:]:
        print(i, addr, len(pkt), pkt[22:29].hex())
    print("loop time", asyncio.get_event_loop().time())
    for n in nodes: await n.stop()

loop = vclock.new_loop()
loop.run_until_complete(main())
