import sys, asyncio, random, logging
sys.path.insert(0,"/repo"); sys.path.insert(0,"/verif/tools"); sys.path.insert(0,"/verif/harness")
import c04, vclock
from ipv8.messaging.anonymization.tunnel import *
from vlib import Ctx
ctx = Ctx("C04","quick",0)
async def main():

    from ipv8.peer import Peer
    from ipv8.test.messaging.anonymization.mock import global_dht_services
    global_dht_services.clear()
    rng = random.Random(1)
    sim = c04.Sim(rng, True, True)
    for _ in range(3): sim.add_node()
    service = b"0"*20
    o0,o2 = sim.nodes[0].overlay, sim.nodes[2].overlay
    fut = asyncio.get_running_loop().create_future()
    o0.join_swarm(service,1,lambda a: fut.set_result(a), seeding=False)
    o2.join_swarm(service,1,lambda a: None)
    await sim.introduce([0,1,2])
    print("cands", [len(n.overlay.candidates) for n in sim.nodes])
    await asyncio.wait_for(o2.create_introduction_point(service), 30)
    await sim.settle(0.05)
    print("intro", [ (list(n.overlay.circuits), list(n.overlay.exit_sockets), list(n.overlay.intro_point_for)) for n in sim.nodes])
    sim.wrap_exits()
    x = sim.add_node(flags={PEER_FLAG_RELAY,PEER_FLAG_SPEED_TEST,PEER_FLAG_EXIT_BT})
    xn = sim.nodes[x]
    pub = Peer(xn.my_peer.public_key, xn.my_peer.address)
    sim.nodes[0].network.add_verified_peer(pub)
    sim.nodes[0].network.discover_services(pub, [xn.overlay.community_id])
    o0.candidates[pub] = list(xn.overlay.settings.peer_flags)
    o0.build_tunnels(1)
    await sim.settle(0.05)
    print("o0 circuits", [(c.circuit_id,c.ctype,c.state) for c in o0.circuits.values()])
    sim.wrap_exits()
    await o0.do_peer_discovery()
    await sim.settle(0.2)
    print("o0 circuits", [(c.circuit_id,c.ctype,c.state,c.e2e) for c in o0.circuits.values()], fut.done())
    print("o2 circuits", [(c.circuit_id,c.ctype,c.state) for c in o2.circuits.values()])
    print(global_dht_services)
    for p in sim.passages[-12:]:
        print(p.pid,p.kind,p.node,p.target,p.msg[:1].hex(), len(p.wires), p.delivered[:1] and p.delivered[0][:2], p.raised)
loop = vclock.new_loop()
loop.set_exception_handler(lambda l,c: print("LOOPERR", c))
loop.run_until_complete(main())
