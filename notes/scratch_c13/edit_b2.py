p = '/verif/tools/gen_c13.py'
s = open(p).read()
def rep(old, new, cnt=1):
    global s
    assert s.count(old) == cnt, (s.count(old), old[:70])
    s = s.replace(old, new)

# Tr: names that stand for "is a peer present" in boolean position
rep('''    def expr(self, e) -> str:
        if isinstance(e, ast.Name):
            if e.id in self.locals or e.id in self.params:
                return e.id
            self.fail(e, "unknown name")''', '''    def expr(self, e) -> str:
        if isinstance(e, ast.Name):
            if e.id in self.truth:
                return self.truth[e.id]          # `if introduction:` -> is there a peer to introduce
            if e.id in self.locals or e.id in self.params:
                return e.id
            self.fail(e, "unknown name")
        if isinstance(e, ast.Compare) and len(e.ops) == 1 and isinstance(e.ops[0], (ast.Is, ast.IsNot)) \\
                and isinstance(e.left, ast.Name) and e.left.id in self.truth \\
                and isinstance(e.comparators[0], ast.Constant) and e.comparators[0].value is None:
            t = self.truth[e.left.id]
            return f"(!{t})" if isinstance(e.ops[0], ast.Is) else t''')
rep('''        self.auto_locals = auto_locals''', '''        self.auto_locals = auto_locals
        self.truth: dict[str, str] = {}''')

old = s[s.index('''    body = _body(fn)
    srcs = [_src(s) for s in body]
    for need in ("introduction_lan = ('0.0.0.0', 0)",'''):s.index('''    # payload address arguments, both styles''')]
new = '''    body = _body(fn)
    srcs = [_src(s) for s in body]
    if "other = self.network.get_verified_by_address(socket_address)" not in srcs:
        raise TranslatorError("create_introduction_response: `other = self.network.get_verified_by_address(socket_address)` not found")
    pick = next((s for s in body if isinstance(s, ast.If) and _src(s.test) == "not introduction" and not s.orelse
                 and len(s.body) == 1 and _src(s.body[0]).startswith("introduction = ")), None)
    if pick is None or _src(pick.body[0]) != \\
            "introduction = self.get_peer_for_introduction(exclude=other, new_style=new_style)":
        raise TranslatorError("create_introduction_response: candidate selection differs from "
                              "`get_peer_for_introduction(exclude=other, new_style=new_style)`")
    # The statements that decide introduction_lan / introduction_wan (/ the `introduced` flag), in source order, whatever their
    # nesting: defaults + `if introduction:` block, or one flat if/elif/else chain.  They are translated as ONE function of
    # "is there a peer to introduce" (`present`) and that peer; `new_style_intro` bookkeeping is checked and left out.
    DEC = {"introduction_lan", "introduction_wan", "introduced"}
    NS_OK = {"False", "introduction.new_style_intro", "introduction.new_style_intro if introduction else False"}

    def assigns(st):
        return {t.id for n in ast.walk(st) if isinstance(n, ast.Assign) for t in n.targets if isinstance(t, ast.Name)}

    class DropNs(ast.NodeTransformer):
        def visit_Assign(self, node):
            if len(node.targets) == 1 and isinstance(node.targets[0], ast.Name) and node.targets[0].id == "new_style_intro":
                if _src(node.value) not in NS_OK:
                    raise TranslatorError(f"create_introduction_response: unexpected new_style_intro value `{_src(node.value)}`")
                return None
            return node
    region = []
    for st in body[body.index(pick) + 1:] + body[:body.index(pick)]:
        pass
    for st in body:
        if st is pick:
            continue
        if isinstance(st, (ast.Assign, ast.If)) and assigns(st) & DEC and "Payload(" not in _src(st):
            if isinstance(st, ast.If) and body.index(st) < body.index(pick):
                raise TranslatorError("create_introduction_response: addresses are decided before the candidate is selected")
            region.append(ast.fix_missing_locations(DropNs().visit(copy.deepcopy(st))))
    if not region:
        raise TranslatorError("create_introduction_response: no statement decides introduction_lan / introduction_wan")
    # the puncture request is guarded by an `if` whose body builds it with self.create_puncture_request
    pr = next((s for s in body if isinstance(s, ast.If) and not s.orelse and len(s.body) == 2
               and "self.create_puncture_request(" in _src(s.body[0])), None)
    if pr is None:
        raise TranslatorError("create_introduction_response: the guarded puncture request block was not found")
    if body.index(pr) < max(body.index(x) for x in body if assigns(x) & DEC and "Payload(" not in _src(x)):
        raise TranslatorError("create_introduction_response: the puncture request is sent before the addresses are decided")
    tr = Tr("create_introduction_response", set(DEC), set())
    tr.truth = {"introduction": "present"}
    lines = tr.stmts(region, 1)
    guard = tr.expr(pr.test)
    out = ("/-- create_introduction_response: (introduction_lan, introduction_wan, is the puncture request sent) as decided for\\n"
           "    `present` = there is a peer to introduce, and that peer -/\\n"
           "def introAddrsGen (self : SelfView) (present : Bool) (introduction : PeerView) : Addr × Addr × Bool := Id.run do\\n"
           "  let mut introduction_lan := Addr.zero\\n  let mut introduction_wan := Addr.zero\\n  let mut introduced := false\\n"
           + "\\n".join(lines) + f"\\n  return (introduction_lan, introduction_wan, {guard})\\n\\n"
           "/-- … when a peer is introduced -/\\n"
           "def introAddrs (self : SelfView) (introduction : PeerView) : Addr × Addr × Bool := introAddrsGen self true introduction\\n\\n"
           "/-- … when there is nobody to introduce -/\\n"
           "def introNobody (self : SelfView) : Addr × Addr × Bool := introAddrsGen self false ⟨Addr.zero, none⟩\\n\\n")
'''
s = s.replace(old, new)
rep('''    pr = next((s for s in body if isinstance(s, ast.If) and _src(s.test) == "introduced and introduction is not None"), None)
    if pr is None or len(pr.body) != 2:
        raise TranslatorError("create_introduction_response: `if introduced and introduction is not None:` block not found")
    mk, snd = pr.body''', '''    mk, snd = pr.body''')
open(p, 'w').write(s)
print("ok")
