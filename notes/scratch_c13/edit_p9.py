import re
p = '/verif/lean/Ipv8/C13/Props.lean'
s = open(p).read()

def cut(name, with_example=False):
    """remove the block '/-- doc -/ theorem name ... ' up to the next blank line (+ following example lines)"""
    global s
    i = s.index(f"theorem {name} ")
    d = s.rfind("/--", 0, i)
    j = s.index("\n\n", i)
    blk = s[d:j]
    rest = s[j:]
    if with_example and rest.lstrip("\n").startswith("example"):
        k = s.index("\n\n", j + 2)
        blk = s[d:k]
        j = k
    s = s[:d] + s[j:].lstrip("\n")
    return blk

moved = []
for nm, ex in [("response_teaches_lan", False), ("walkable_iff", False), ("choice_is_a_candidate", False),
               ("request_teaches_lan", False), ("response_goes_to_sender", False), ("puncture_request_names_requester", False),
               ("response_updates_wan_iff_public", False), ("hole_punch_opens", False), ("filter_monotone", False),
               ("no_puncture_no_entry", False)]:
    moved.append(cut(nm, ex))
# the example that followed no_puncture_no_entry
ex = "example : accepts { lan := ⟨1, 1⟩, wan := ⟨2, 2⟩, box := 1, typ := .portRestricted, sent := [⟨9, 9⟩] } ⟨9, 8⟩ = false := by decide\n"
s = s.replace(ex, "")
s = s.replace("/-! ## NAT rules, for every filter state -/\n", "")
for a, b in [("theorem intro_reaches (c", "theorem intro_reaches_partial (c"),
             ("theorem same_nat_uses_lan (c", "theorem same_nat_uses_lan_partial (c"),
             ("theorem style_respected (c", "theorem style_respected_partial (c"),
             ("theorem intro_reaches_more_candidates (c", "theorem intro_reaches_more_candidates_partial (c"),
             ("theorem intro_reaches_response_history (c", "theorem intro_reaches_response_history_partial (c"),
             ("theorem intro_reaches_other_histories (c", "theorem intro_reaches_other_histories_partial (c"),
             ("theorem intro_reaches_second_overlay (c", "theorem intro_reaches_second_overlay_partial (c")]:
    assert s.count(a) == 1, a
    s = s.replace(a, b)
s = s.replace("For ANY number of further records at the introducer see `introducer_packets_any_table`.",
              "(`introducer_packets_any_table` below is a conditional statement about one step, not a lift of this table.)")
# header
i = s.index("/-! ## the table -/")
s = s[:i] + '''/-! ## the script tables — PARTIAL

  FULL STATEMENT (not proved, and false for the code as it is — see the two witnesses below):
      ∀ address assignments, ∀ NAT types of requester and introduced peer, ∀ placements, both styles, ∀ numbers of
      candidates, ∀ reachable prior states of requester, introducer and introduced peer (histories):
        after  R's request → I's response + puncture request → P's puncture → R's walks to what its overlay reports as
        walkable → P's response,   R and P are in each other's get_peers() of that overlay (over LAN when behind one box).
  PROVED (`…_partial`, each `decide +kernel` over the 160 `Cfg` values = 4×4 NAT types × 5 placements × 2 styles):
      the statement for ONE fixed address assignment (Script.lean: I 1.1.1.1, R 2.2.2.2 / 192.168.1.2, P 3.3.3.3 /
      192.168.1.3, all on port 8090, port-remapping boxes, fixed node ages) and for prior states in which the REQUESTER
      KNOWS NOBODY BUT THE INTRODUCER (plus the other parties of the named history); what varies is how the introducer
      learned P (five histories), the number of live candidates (1, 3, 5), a second overlay in which the same three nodes
      connected first, a blacklisted bootstrap introducer, an introducer behind a box with P on its own machine.
  Both restrictions are load-bearing: `lan_collision_blocks_same_nat` and `foreign_entry_blocks_overlay` are requester
  states outside the tables in which the unchanged code does not connect the pair (known findings).
-/

''' + s[i + len("/-! ## the table -/\n"):]

# new theorems after second overlay theorem: insert before "/-- create_introduction_request: whatever"
marker = "/-- create_introduction_request: whatever the node's age"
assert s.count(marker) == 1
new = '''/-- the introducer is a bootstrap server whose address everybody else has on the blacklist (so it never becomes a
    verified peer; old-style only, it cannot be `ask`ed): introductions received from it are still recorded and walked -/
theorem intro_reaches_bootstrap_partial (c : Cfg) (h : c.newStyle = false) : allOkW c (prehistoryBootstrap c) = true := by
  have hm : c ∈ oldCfgs := by simp [oldCfgs, mem_allCfgs, h]
  exact List.all_eq_true.mp tableI1 c hm
example : ((prehistoryBootstrap ⟨.none, .none, .diff, false⟩).verifiedAt 2 0) = none := by decide +kernel

/-- the introducer sits behind an unfiltered port-preserving box, knows its WAN address, and the introduced peer runs on
    the introducer's own machine (first branch of create_introduction_response: LAN address as seen, WAN address =
    introducer's WAN ip + the peer's port): a public or separately boxed requester and that peer end up verified at each
    other under their WAN addresses -/
theorem intro_reaches_own_machine_partial (c : Cfg) (h : c.pl = .pub ∨ c.pl = .diff) :
    mutualOwn c (scriptOwn c) = true := by
  have hm : c ∈ ownCfgs := by
    simp only [ownCfgs, List.mem_filter, mem_allCfgs, true_and, Bool.or_eq_true, beq_iff_eq]; exact h
  exact List.all_eq_true.mp tableI2 c hm

/-! ## requester states outside the tables in which the unchanged code FAILS (known findings, witnesses) -/

/-- KNOWN FINDING (a), negation of the full statement: R and P behind one box (both port-restricted, old style, the
    table's addresses); R already holds a verified peer Q on another LAN whose recorded LAN address is P's LAN address
    192.168.1.3:8090.  The introduction hands out that LAN address, `get_walkable_addresses` subtracts it as Q's
    address: nothing is walkable, nobody is verified. -/
theorem lan_collision_blocks_same_nat :
    (lanCollisionWorld.nodes[1]?.map (·.walkable 0)) = some [] ∧ mutualOk cfgSamePR lanCollisionWorld = false ∧
    (lanCollisionWorld.verifiedAt 1 3).map (·.lan) = some (some (hostP cfgSamePR).lan) := by
  decide +kernel

/-- KNOWN FINDING (b), negation of the full statement: P's addresses were first introduced to R through overlay 1 by X,
    which R knows (and keeps) as a peer of overlay 1 only.  When I introduces P in overlay 0, `discover_address` keeps
    X's entry and `get_walkable_addresses(overlay 0)` rejects it: nothing is walkable in overlay 0, the pair is not
    connected there (nor anywhere). -/
theorem foreign_entry_blocks_overlay :
    (foreignEntryWorld.nodes[1]?.map (·.walkable 0)) = some [] ∧ mutualOk cfgDiffPR foreignEntryWorld = false ∧
    (foreignEntryWorld.verifiedAt 1 3 1).isSome = true ∧ (foreignEntryWorld.verifiedAt 1 3 0) = none := by
  decide +kernel

/-! ## facts for all inputs -/

'''
s = s.replace(marker, new + marker)

# composed decision theorems: insert before lan_subnets theorem doc
marker2 = "/-- the code's LAN subnet table is exactly RFC 1918"
assert s.count(marker2) == 1
comp = '''/-- COMPOSITION introducer → requester, all addresses: what the introducer's decision hands out for a peer it knows
    under (address w, LAN l) is what the requester's decision walks to when w is on another WAN ip … -/
theorem handed_out_wan_address_is_walked (sI sR : SelfView) (q : PeerView) (l sock : Addr)
    (hl : q.lan_address = some l) (hm : sI.address_is_lan q.address.ip = false)
    (h0 : q.address ≠ Addr.zero) (hw : q.address.ip ≠ sR.my_estimated_wan.ip) :
    q.address ∈ Gen.introductionsOf sR
      (Gen.respFields sI sock (Gen.introAddrs sI q).1 (Gen.introAddrs sI q).2.1) := by
  rw [hands_out_known_addresses sI q l hl hm]
  exact requester_walks_wan sR _ (by simpa [Gen.respFields] using h0) (by simpa [Gen.respFields] using hw)

/-- … and, when w has the requester's own WAN ip (same NAT) and a LAN address is known, exactly the LAN address -/
theorem handed_out_lan_address_is_walked_same_nat (sI sR : SelfView) (q : PeerView) (l sock : Addr)
    (hl : q.lan_address = some l) (hm : sI.address_is_lan q.address.ip = false)
    (h0 : l ≠ Addr.zero) (hw : q.address.ip = sR.my_estimated_wan.ip) :
    Gen.introductionsOf sR (Gen.respFields sI sock (Gen.introAddrs sI q).1 (Gen.introAddrs sI q).2.1) = [l] := by
  rw [hands_out_known_addresses sI q l hl hm]
  have := requester_walks_lan_only sR (Gen.respFields sI sock l q.address)
    (by simpa [Gen.respFields] using h0) (by simpa [Gen.respFields] using hw)
  simpa [Gen.respFields] using this

/-- COMPOSITION introducer → introduced peer, all addresses: the puncture the introduced peer sends on the introducer's
    puncture request goes to the requester's socket address as the introducer saw it, unless that is on the introduced
    peer's own WAN ip (same NAT) -/
theorem puncture_reaches_requester_address (sP : SelfView) (lanSock sock : Addr) (q : PeerView)
    (h : sock.ip ≠ sP.my_estimated_wan.ip) :
    (Gen.punctureSends sP (Gen.punctReqSends lanSock sock q).2).1 = sock := by
  rw [puncture_goes_to_wan_walker]
  simp [Gen.punctReqSends, h]

/-- first branch of create_introduction_response: a peer on the introducer's own machine is handed out with its address
    as LAN address and (the introducer's WAN ip, the peer's port) as WAN address -/
theorem own_machine_handed_out_with_wan_ip (s : SelfView) (q : PeerView) (h : s.address_is_lan q.address.ip = true) :
    Gen.introAddrs s q = (q.address, ⟨s.my_estimated_wan.ip, q.address.port⟩, true) := by
  simp [Gen.introAddrs, Id.run, pure, h]

/-- on_introduction_request answers as long as the node does not hold MORE than max_peers peers -/
theorem capacity_guard (m n : Nat) : Gen.atCapacity m n = true ↔ m < n := by
  simp [Gen.atCapacity]

'''
s = s.replace(marker2, comp + marker2)
# example for introducer_packets_any_table: instantiate the theorem
old_ex = s[s.index("example : ∃ n : Node, ∃ o : PeerRec, (n.getPeers 4).length = 3"):]
old_ex = old_ex[:old_ex.index("\n\n")]
new_ex = '''example :
    let n : Node := { key := 0, myLan := ⟨1, 1⟩, machineIp := 1, svcs := [(7, 4), (8, 4), (9, 4), (9, 5)],
                      peers := [⟨7, ⟨7, 7⟩, none, false⟩, ⟨8, ⟨8, 8⟩, some ⟨80, 8⟩, true⟩, ⟨9, ⟨5, 5⟩, none, false⟩], pref := [8] }
    (n.createResponse ⟨1, 1⟩ ⟨5, 5⟩ ⟨5, 5⟩ false 77 4).2 =
      [⟨⟨8, 8⟩, .punctReq false 77 ⟨⟨1, 1⟩, ⟨5, 5⟩⟩⟩,
       ⟨⟨5, 5⟩, .introResp false 0 77 ⟨⟨5, 5⟩, ⟨1, 1⟩, ⟨1, 1⟩, ⟨80, 8⟩, ⟨8, 8⟩⟩ true⟩] := by
  intro n
  exact introducer_packets_any_table n 4 [⟨7, ⟨7, 7⟩, none, false⟩] [⟨9, ⟨5, 5⟩, none, false⟩] ⟨8, ⟨8, 8⟩, some ⟨80, 8⟩, true⟩
    ⟨9, ⟨5, 5⟩, none, false⟩ [] ⟨1, 1⟩ ⟨5, 5⟩ ⟨5, 5⟩ false 77 (by decide) rfl (by decide) (by decide) (by decide) (by decide)'''
s = s.replace(old_ex, new_ex)
s = s.replace("/-! ## any number of candidates: what the introducer sends depends on the chosen record only -/",
              "/-! ## one step of the introducer, any table size (CONDITIONAL on the requester being found by its address and on the\n     choice — it does not lift the tables to arbitrary candidate sets) -/")
open(p, 'w').write(s)
# append the moved blocks to Lemmas.lean
lp = '/verif/lean/Ipv8/C13/Lemmas.lean'
l = open(lp).read()
blk = "\n\n".join(moved) + "\n"
l = l.replace("\nend Ipv8.C13", '''
/-! ### pins and sanity lemmas (NOT property theorems)

  The first group restates single generated definitions: they pin the translated text (a change of the code that alters
  one of these decisions stops the build) but are not consequences of the property.  The second group is about the
  hand-written scaffolding (`Node.walkable` unfolded, `pick` = stand-in for random.choice, the simulator's `accepts`):
  no change of /repo can break them; they document what the network model assumes. -/

''' + blk + "\nend Ipv8.C13")
open(lp, 'w').write(l)
print("ok")
