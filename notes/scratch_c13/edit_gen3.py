p = '/verif/tools/gen_c13.py'
s = open(p).read()
def rep(old, new):
    global s
    assert s.count(old) == 1, (s.count(old), old[:70])
    s = s.replace(old, new)
rep('''    fn = _fn(com_cls, "on_introduction_request")
    body = _body(fn)
    learn = next(''', '''    fn = _fn(com_cls, "on_introduction_request")
    body = _body(fn)
    # the capacity guard: `if <chain over 0, self.max_peers, len(self.get_peers())>: <log>; return`
    g = body[0]
    if not (isinstance(g, ast.If) and not g.orelse and isinstance(g.body[-1], ast.Return) and g.body[-1].value is None
            and isinstance(g.test, ast.Compare)):
        raise TranslatorError(f"on_introduction_request: capacity guard not found first: `{_src(g)[:100]}`")
    names = {"0": "0", "self.max_peers": "max_peers", "len(self.get_peers())": "n_peers"}
    terms = [_src(g.test.left)] + [_src(c) for c in g.test.comparators]
    if any(t not in names for t in terms):
        raise TranslatorError(f"on_introduction_request: capacity guard outside the subset: `{_src(g.test)}`")
    cmp_ = {ast.Lt: "<", ast.LtE: "<=", ast.Gt: ">", ast.GtE: ">=", ast.Eq: "==", ast.NotEq: "!="}
    if any(type(o) not in cmp_ for o in g.test.ops):
        raise TranslatorError(f"on_introduction_request: capacity guard operator outside the subset: `{_src(g.test)}`")
    parts = [f"decide ({names[terms[i]]} {cmp_[type(o)].replace('==', '=').replace('!=', '≠').replace('<=', '≤').replace('>=', '≥')} {names[terms[i + 1]]})"
             for i, o in enumerate(g.test.ops)]
    guard = " && ".join(parts)
    if body.index(g) != 0:
        raise TranslatorError("on_introduction_request: capacity guard is not the first statement")
    learn = next(''')
rep('''    return ("/-- on_introduction_request: is the sender's LAN address recorded, and which value -/\\n"''',
    '''    return ("/-- on_introduction_request: the request is dropped (no answer) when this holds -/\\n"
            f"def atCapacity (max_peers n_peers : Nat) : Bool :=\\n  {guard}\\n\\n"
            "/-- on_introduction_request: is the sender's LAN address recorded, and which value -/\\n"''')
# shape of the statements of on_introduction_response that the model leaves out (dead without endpoint.interfaces)
rep('''    tr = Tr("on_introduction_response", set(), set())
    cond = tr.expr(st0.test)''', '''    if _src(body[1]) != "self.my_peer.address = payload.destination_address":
        raise TranslatorError(f"on_introduction_response: unexpected second statement `{_src(body[1])[:100]}`")
    sw = body[2]
    if not (isinstance(sw, ast.If) and _src(sw.test) == "peer.new_style_intro" and not sw.orelse and len(sw.body) == 3
            and isinstance(sw.body[2], ast.If) and "requested_interface != used_interface" in _src(sw.body[2].test)
            and "in cast('DispatcherEndpoint', self.endpoint).interfaces" in _src(sw.body[2].test)):
        raise TranslatorError("on_introduction_response: the interface-switch block (`if peer.new_style_intro:` guarded by "
                              "requested_interface != used_interface and the endpoint's interfaces) changed shape; the "
                              "model assumes it is dead for IPv4 peers on an endpoint without `interfaces`")
    tr = Tr("on_introduction_response", set(), set())
    cond = tr.expr(st0.test)''')
rep('''  * Community.on_introduction_request: LAN-address learning''', '''  * Community.on_introduction_request: the capacity guard (comparison chain over 0, max_peers, len(get_peers()))  -> Gen.atCapacity
  * Community.on_introduction_request: LAN-address learning''')
open(p, 'w').write(s)
p = '/verif/lean/Ipv8/C13/Model.lean'
s = open(p).read()
rep("  if n0.maxPeers < (n0.getPeers s).length then (n0, []) else", "  if Gen.atCapacity n0.maxPeers (n0.getPeers s).length then (n0, []) else")
open(p, 'w').write(s)
print("ok")
