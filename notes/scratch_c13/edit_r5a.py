def edit(p, pairs):
    s = open(p).read()
    for old, new in pairs:
        assert s.count(old) == 1, (p, s.count(old), old[:70])
        s = s.replace(old, new)
    open(p, 'w').write(s)
edit('/verif/lean/Ipv8/C13/Model.lean', [
 ('''  maxPeers : Int := 30       -- Community.max_peers (DEFAULT_MAX_PEERS; negative = unlimited)
deriving Repr, Inhabited''', '''  maxPeers : Int := 30       -- Community.max_peers (DEFAULT_MAX_PEERS; negative = unlimited)
  isTracker : Bool := false  -- scripts/tracker_service.py EndpointServer: answers old-style requests of ANY prefix
  timeouts : List (Nat × Addr × Nat) := []   -- RandomWalk.intro_timeouts per overlay: (overlay, address, time of the walk)
deriving Repr, Inhabited'''),
 ('''/-- handler bodies; `src` is the source address the endpoint reports''', '''/-- scripts/tracker_service.py `EndpointServer.on_generic_introduction_request` (the production bootstrap server): no
    lazy_wrapper and no capacity guard; a FRESH Peer (source address + the request's LAN address) is merged into a stored
    one by add_verified_peer; the service is the prefix of the packet; the introduced peer is chosen among the peers of
    THAT service other than the sender and handed to create_introduction_response together with the packet's prefix —
    response and puncture request travel under the requester's prefix (overlay `s`), always old-style. -/
def Node.trackerIntroReq (n : Node) (src : Addr) (key ident : Nat) (pl : IntroReqView) (s : Nat) : Node × List Send :=
  let p : PeerRec := match n.findPeer key with
    | some q => { q with v4 := src, lan := some pl.source_lan_address }   -- known.addresses.update(peer.addresses)
    | none => { key := key, v4 := src, lan := some pl.source_lan_address }
  let n1 := ((n.addVerified p).addSvc key s).tick
  match pick n1.pref ((n1.getPeers s).filter (fun q => q.key != key)) with
  | none =>
    (n1, [⟨src, .introResp false n1.key ident (Gen.respFields (n1.view s) src Addr.zero Addr.zero) false⟩])
  | some q =>
    let (il, iw, introduced) := Gen.introAddrs (n1.view s) q.view
    let (pd, pr) := Gen.punctReqSends pl.destination_address src q.view
    (if introduced then n1.tick else n1,
     (if introduced then [⟨pd, .punctReq false ident pr⟩] else [])
      ++ [⟨src, .introResp false n1.key ident (Gen.respFields (n1.view s) src il iw) q.ns⟩])

/-- handler bodies; `src` is the source address the endpoint reports'''),
 ('''def Node.handle (n : Node) (src : Addr) (m : Msg) (s : Nat := 0) : Node × List Send :=
  match handlerFor m, m with''', '''def Node.handle (n : Node) (src : Addr) (m : Msg) (s : Nat := 0) : Node × List Send :=
  if n.isTracker then
    match m with
    | .introReq false key id pl => n.trackerIntroReq src key id pl s     -- msg 246 only; everything else is ignored
    | _ => (n, [])
  else
  match handlerFor m, m with'''),
 ('''/-- Network.discover_services(peer, [s])''', '''/-- Network.remove_by_address: the address leaves the address table, every verified peer that holds it (in either
    slot) is dropped together with its service entry -/
def Node.removeByAddress (n : Node) (a : Addr) : Node :=
  let gone := n.peers.filter (fun p => p.addrs.contains a)
  { n with all := n.all.filter (fun w => w.addr != a),
           peers := n.peers.filter (fun p => !p.addrs.contains a),
           svcs := n.svcs.filter (fun x => !gone.any (fun p => p.key == x.1)) }

/-- Network.discover_services(peer, [s])'''),
 ('''/-- the requester's "next contact attempt": a walk to every address''', '''/-- One `RandomWalk.take_step()` of node i in overlay s at (virtual) time `now`, node_timeout 3, window 5, with
    `randint` forced to "walk" and `choice(available)` given as `pickA` (none = the harness saw nothing available):
    (1) every walk older than the timeout is forgotten and, unless its address belongs to a verified peer (either slot:
    get_verified_by_address), removed with remove_by_address; (2) nothing more while 5 walks are outstanding; (3) a
    walk to the picked walkable address not yet outstanding, else get_new_introduction() (ask the preferred peer).
    Returns none when the pick is inconsistent with the model's own `available`. -/
def World.rwStep (w : World) (i s now : Nat) (pickA : Option Addr) : Option World :=
  match w.nodes[i]? with
  | none => some w
  | some n =>
    let expired := n.timeouts.filter (fun t => t.1 == s && t.2.2 + 3 < now)
    let n1 := expired.foldl (fun (acc : Node) t => if (acc.byAddress t.2.1).isSome then acc else acc.removeByAddress t.2.1)
      { n with timeouts := n.timeouts.filter (fun t => !(t.1 == s && t.2.2 + 3 < now)) }
    let mine := n1.timeouts.filter (fun t => t.1 == s)
    let w1 := { w with nodes := w.nodes.set i n1 }
    if 5 ≤ mine.length then some w1 else
    let avail := (n1.walkable s).filter (fun a => !mine.any (fun t => t.2.1 == a))
    match pickA with
    | some a =>
      if avail.contains a then
        let n2 := { n1 with timeouts := n1.timeouts ++ [(s, a, now)] }
        some (({ w1 with nodes := w1.nodes.set i n2 }).walk i a s)
      else none
    | none =>
      if !avail.isEmpty then none else
      match pick n1.pref (n1.getPeers s) with
      | some p => some (w1.ask i p.key s)
      | none => some w1

/-- the requester's "next contact attempt": a walk to every address'''),
])
edit('/verif/lean/DrvC13.lean', [
 ('''  | ["restart", i] =>''', '''  | ["tracker", i] =>
    match i.toNat? with
    | some i =>
      match w.nodes[i]? with
      | some n => ({ w with nodes := w.nodes.set i { n with isTracker := true } }, "ok")
      | none => bad
    | none => bad
  | ["rwstep", i, sv, now, ip, port] =>
    match i.toNat?, sv.toNat?, now.toNat?, ip.toNat?, port.toNat? with
    | some i, some sv, some now, some ip, some port =>
      let pk : Option Addr := if ip == 0 && port == 0 then none else some ⟨ip, port⟩
      match (w.rwStep i sv now pk) with
      | some _ => traced w (fun w => (w.rwStep i sv now pk).getD w)
      | none => (w, "bad-pick")
    | _, _, _, _, _ => bad
  | ["restart", i] =>'''),
])
print("ok")
