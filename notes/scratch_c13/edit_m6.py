p = '/verif/lean/Ipv8/C13/Model.lean'
s = open(p).read()
def rep(old, new):
    global s
    assert s.count(old) == 1, (s.count(old), old[:70])
    s = s.replace(old, new)
rep('''  clock : Nat := 0           -- my_peer's Lamport clock (global time)
deriving Repr, Inhabited''', '''  clock : Nat := 0           -- my_peer's Lamport clock (global time)
  blacklist : List Addr := []      -- Network.blacklist (addresses of bootstrap servers: never verified, never walked to)
  maxPeers : Nat := 30       -- Community.max_peers (DEFAULT_MAX_PEERS; the model only has non-negative limits)
deriving Repr, Inhabited''')
rep('''  else if p.addrs.any n.inAll then { n with peers := n.peers ++ [p] }
  else { n with all := addMissing n.all p.addrs, peers := n.peers ++ [p] }''', '''  else if p.addrs.any n.inAll then { n with peers := n.peers ++ [p] }     -- (no blacklist test on this branch)
  else if p.addrs.all (fun a => !n.blacklist.contains a) then
    { n with all := addMissing n.all p.addrs, peers := n.peers ++ [p] }
  else n''')
rep('''/-- Network.add_verified_peer (blacklist_mids = [own mid], address blacklist empty).''', '''/-- Network.add_verified_peer (blacklist_mids = [own mid]).''')
rep('''  let n1 := if stale then { n with all := setWalk a ⟨a, some p.key, ns, some s⟩ n.all } else n
  n1.addVerified p''', '''  let n1 := if stale then { n with all := setWalk a ⟨a, some p.key, ns, some s⟩ n.all } else n
  if n.blacklist.contains a then n.addVerified p else n1.addVerified p''')
rep('''  let (p0, n0) := n.senderRec key src
  let p1 := { p0 with ns := p0.ns || msgNs }
  let p2 := if Gen.learnsLan pl then { p1 with lan := some (Gen.learnedLan pl) } else p1
  let n1 := (n0.addVerified p2).addSvc key s   -- (a stored object is mutated in place; addVerified writes a known key back)
  let (lanSock, sock, dst) := Gen.respArgs pl p2.view
  n1.createResponse lanSock sock dst p2.ns ident s''', '''  let (p0, n0) := n.senderRec key src
  let p1 := { p0 with ns := p0.ns || msgNs }
  let n0 := if n0.knows key then n0.setPeer p1 else n0     -- wrapper + on_old/new_introduction_request mutate a stored peer
  -- `if 0 <= self.max_peers < len(self.get_peers()): return` — at capacity the request is not answered
  if n0.maxPeers < (n0.getPeers s).length then (n0, []) else
  let p2 := if Gen.learnsLan pl then { p1 with lan := some (Gen.learnedLan pl) } else p1
  let n1 := (n0.addVerified p2).addSvc key s   -- (a stored object is mutated in place; addVerified writes a known key back)
  let (lanSock, sock, dst) := Gen.respArgs pl p2.view
  n1.createResponse lanSock sock dst p2.ns ident s''')
s = s.replace("endpoint without an\n    `interfaces` attribute, max_peers not reached, empty address blacklist, blacklist_mids = own mid):",
              "endpoint without an\n    `interfaces` attribute, blacklist_mids = own mid):")
open(p, 'w').write(s)
p = '/verif/lean/DrvC13.lean'
s = open(p).read()
rep('''  | ["clock", i, c] =>''', '''  | ["blacklist", i, ip, port] =>
    match i.toNat?, ip.toNat?, port.toNat? with
    | some i, some ip, some port =>
      match w.nodes[i]? with
      | some n => ({ w with nodes := w.nodes.set i { n with blacklist := n.blacklist ++ [⟨ip, port⟩] } }, "ok")
      | none => bad
    | _, _, _ => bad
  | ["maxpeers", i, m] =>
    match i.toNat?, m.toNat? with
    | some i, some m =>
      match w.nodes[i]? with
      | some n => ({ w with nodes := w.nodes.set i { n with maxPeers := m } }, "ok")
      | none => bad
    | _, _ => bad
  | ["clock", i, c] =>''')
open(p, 'w').write(s)
print("ok")
