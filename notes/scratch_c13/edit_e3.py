p = '/verif/harness/c13.py'
s = open(p).read()
def rep(old, new, cnt=1):
    global s
    assert s.count(old) == cnt, (s.count(old), old[:70])
    s = s.replace(old, new)

# ---- observers on the real code (no behaviour change): which branch of the hand-modelled functions is taken
rep('''        epmod.get_lan_addresses = lan_addresses
        com.choice = choice
        cls._env = env
        return env''', '''        epmod.get_lan_addresses = lan_addresses
        com.choice = choice
        env["branches"] = install_observers(Community)
        cls._env = env
        return env''')
rep('''class World:
    """Real Community nodes on a SimNet''', '''BRANCHES: dict = {}


def _hit(name: str):
    BRANCHES[name] = BRANCHES.get(name, 0) + 1


def install_observers(community_cls):
    """Wrap (once per process) the Network methods and the Community handler whose bodies are HAND-WRITTEN in the Lean model,
    to record from the pre-state which branch the real code is about to take.  The wrappers only read; the verdict never
    depends on them except through `REQUIRED_BRANCHES` (a branch class that is never reached = lost coverage = exit 2)."""
    from ipv8.peerdiscovery.network import Network
    orig_add, orig_disc, orig_walk = Network.add_verified_peer, Network.discover_address, Network.get_walkable_addresses
    orig_resp = community_cls.on_introduction_response

    def add_verified_peer(self, peer):
        try:
            key = peer.public_key.key_to_bin()
            addrs = list(peer.addresses.values())
            if peer.mid in self.blacklist_mids:
                _hit("add_verified_peer:own-mid")
            elif key in self.verified_by_public_key_bin:
                _hit("add_verified_peer:known-key")
            elif any(a in self._all_addresses for a in addrs):
                _hit("add_verified_peer:new-key-address-known")
            elif all(a not in self.blacklist for a in addrs):
                _hit("add_verified_peer:new-key-fresh-addresses")
            else:
                _hit("add_verified_peer:declined-blacklisted-address")
        except Exception:
            _hit("observer-error")
        return orig_add(self, peer)

    def discover_address(self, peer, address, service=None, new_style=False):
        try:
            if address in self.blacklist:
                _hit("discover_address:blacklisted-address")
            elif address not in self._all_addresses:
                _hit("discover_address:new-address")
            elif not self._all_addresses[address].introduced_by:
                _hit("discover_address:adopts-record-without-introducer")
            elif self._all_addresses[address].introduced_by not in self.verified_by_public_key_bin:
                _hit("discover_address:adopts-record-of-unverified-introducer")
            else:
                _hit("discover_address:keeps-record-of-verified-introducer")
        except Exception:
            _hit("observer-error")
        return orig_disc(self, peer, address, service, new_style)

    def get_walkable_addresses(self, service_id=None, old_style=False):
        try:
            if service_id:
                for address, (intro, svc, _ns) in self._all_addresses.items():
                    holders = [p for p in self.verified_peers if address in p.addresses.values()]
                    if any(service_id in self.services_per_peer.get(p.public_key.key_to_bin(), ()) for p in holders):
                        _hit("get_walkable_addresses:excluded-address-of-peer-of-this-service")
                        continue
                    if holders:
                        _hit("get_walkable_addresses:address-of-peer-of-another-service-only")
                    if service_id in self.services_per_peer.get(intro, ()):
                        _hit("get_walkable_addresses:included-introducer-runs-service")
                    elif svc == service_id:
                        _hit("get_walkable_addresses:included-discovered-through-service")
                    else:
                        _hit("get_walkable_addresses:excluded-by-service-filter")
        except Exception:
            _hit("observer-error")
        return orig_walk(self, service_id, old_style)

    def on_introduction_response(self, peer, dist, payload):
        r = orig_resp(self, peer, dist, payload)
        try:
            zero = ("0.0.0.0", 0)
            wan, lan, mine = payload.wan_introduction_address, payload.lan_introduction_address, self.my_estimated_wan
            if wan != zero and wan[0] != mine[0]:
                _hit("introductions:other-wan-ip" + ("+lan" if lan != zero else ""))
            elif lan != zero and wan[0] == mine[0]:
                _hit("introductions:same-wan-ip-lan-only")
            elif wan != zero:
                _hit("introductions:same-wan-ip-no-lan-guess")
            else:
                _hit("introductions:nothing-introduced")
        except Exception:
            _hit("observer-error")
        return r

    Network.add_verified_peer = add_verified_peer
    Network.discover_address = discover_address
    Network.get_walkable_addresses = get_walkable_addresses
    community_cls.on_introduction_response = on_introduction_response
    return BRANCHES


# Every branch class the design lists for the hand-written part of the model (design.d/C13.md, coverage table) and for the
# simulator.  A quick or thorough run in which one of them is never reached has silently lost coverage: exit 2.
REQUIRED_BRANCHES = [
    "add_verified_peer:own-mid", "add_verified_peer:known-key", "add_verified_peer:new-key-address-known",
    "add_verified_peer:new-key-fresh-addresses", "add_verified_peer:declined-blacklisted-address",
    "discover_address:blacklisted-address", "discover_address:new-address",
    "discover_address:adopts-record-without-introducer", "discover_address:adopts-record-of-unverified-introducer",
    "discover_address:keeps-record-of-verified-introducer",
    "get_walkable_addresses:excluded-address-of-peer-of-this-service",
    "get_walkable_addresses:address-of-peer-of-another-service-only",
    "get_walkable_addresses:included-introducer-runs-service", "get_walkable_addresses:included-discovered-through-service",
    "get_walkable_addresses:excluded-by-service-filter",
    "introductions:other-wan-ip", "introductions:other-wan-ip+lan", "introductions:same-wan-ip-lan-only",
    "introductions:same-wan-ip-no-lan-guess", "introductions:nothing-introduced",
    "lazy_wrapper:known-sender", "lazy_wrapper:unknown-sender",
    "puncture:to-wan-walker", "puncture:to-lan-walker",
    "introduced:recorded-addresses", "introduced:no-lan-recorded", "introduced:own-machine", "introduced:nobody",
    "on_introduction_request:dropped-at-capacity", "on_introduction_request:answered-at-limit",
    "net:lan", "net:wan", "net:drop:filtered", "net:drop:hairpin", "net:drop:lanNoHost", "net:drop:noHost", "net:drop:null",
    "net:drop:unroutable",
    "msg:req0", "msg:req1", "msg:resp0", "msg:resp1", "msg:preq0", "msg:preq1", "msg:punc0", "msg:punc1",
    "op:remap", "op:roam", "op:remove-peer", "op:restart", "op:ask", "op:walk-walkable", "op:walk-junk", "op:set-age",
]


class World:
    """Real Community nodes on a SimNet''')
# lazy_wrapper known/unknown sender, observed at delivery time
rep('''            if g is not None:
                prev = self.current
                self.current = g''', '''            if g is not None:
                if len(data) > 27 and data[22] not in (250, 232):      # signed introduction messages
                    klen = int.from_bytes(data[23:25], "big")
                    known = data[25:25 + klen] in g.node.network.verified_by_public_key_bin
                    _hit("lazy_wrapper:known-sender" if known else "lazy_wrapper:unknown-sender")
                prev = self.current
                self.current = g''')
# decision branches visible in the decoded packets
rep('''        return f"punc{ns} k={k} id={p.identifier} l={sa(p.source_lan_address)} w={sa(p.source_wan_address)}"''',
    '''        return f"punc{ns} k={k} id={p.identifier} l={sa(p.source_lan_address)} w={sa(p.source_wan_address)}"

    def note_branches(self, src: int, dst, data: bytes):
        """branches of the translated decisions as far as the packets show them (coverage statistics only)"""
        d = self.describe(data)
        f = dict(t.split("=") for t in d.split()[1:] if "=" in t)
        if d.startswith("punc"):
            _hit("puncture:to-wan-walker" if sa(dst) == f["w"] else "puncture:to-lan-walker")
        elif d.startswith("resp"):
            if f["wi"] == "0:0":
                _hit("introduced:nobody")
            elif f["li"].split(":")[0] == str(ip2int(self.net.hosts[src].lan[0])) and f["li"] != f["wi"]:
                _hit("introduced:own-machine")
            elif f["li"] == "0:0":
                _hit("introduced:no-lan-recorded")
            else:
                _hit("introduced:recorded-addresses")''')
rep('''        return " ; ".join(f"{s}/{self.svc_of(data)}>{sa(d)} {self.describe(data, True)} ={out}"
                          for s, d, data, out in self.net.trace)''', '''        for s, d, data, _out in self.net.trace:
            self.note_branches(s, d, data)
        return " ; ".join(f"{s}/{self.svc_of(data)}>{sa(d)} {self.describe(data, True)} ={out}"
                          for s, d, data, out in self.net.trace)''')
# capacity class: half of the cases one below the limit -> dropped, property vacuous
rep('''            w.set_max_peers(I, len(cands))''', '''            w.set_max_peers(I, len(cands) - (1 if cfg["seed"] % 2 else 0))''')
rep('''            introduce_and_check(s, new)
            if klass == "restart" and s == 0:''', '''            if klass == "capacity" and cfg["seed"] % 2:
                # one peer more than max_peers: the request is not answered and the property says nothing
                ev = w.walk(R, iaddr, s)
                w.query_all()
                if any(src == I for src, _d, _x, _o in ev):
                    ctx.oracle_fail("on_introduction_request:answered-above-capacity",
                                    "the introducer answered although it holds more than max_peers peers", {"kind": "scripted", "cfg": cfg})
                _hit("on_introduction_request:dropped-at-capacity")
                return
            if klass == "capacity":
                _hit("on_introduction_request:answered-at-limit")
            introduce_and_check(s, new)
            if klass == "restart" and s == 0:''')
# an introducer that knows a peer without LAN address: none of the classes produces that after the fix -> a blacklisted
# own-mid case etc. come from random histories; explicit self-walk op
rep('''            else:
                ctx.count("op:walk-junk")''', '''            elif r < 0.93:
                ctx.count("op:walk-self")
                w.walk(i, hosts[i].wan if not hosts[i].box else hosts[i].lan, sv)
            else:
                ctx.count("op:walk-junk")''')
# end of run: coverage must not be lost silently
rep('''    flush(ctx, batch)
    sample_trace(ctx)''', '''    flush(ctx, batch)
    sample_trace(ctx)
    for k, v in BRANCHES.items():
        ctx.count("branch:" + k, v)
    have = dict(ctx.counts)
    missing = [b for b in REQUIRED_BRANCHES
               if not (have.get("branch:" + b) or have.get(b))]
    ctx.extra["required_branch_classes"] = len(REQUIRED_BRANCHES)
    ctx.extra["missing_branch_classes"] = missing
    if missing and not ctx.failures and not ctx.disagreements and not ctx.broken:
        from vlib import InfraError
        raise InfraError("coverage lost: branch classes never reached in this run: " + ", ".join(missing))''')
open(p, 'w').write(s)
print("ok")
