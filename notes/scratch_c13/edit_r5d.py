p = '/verif/harness/c13.py'
s = open(p).read()
def rep(old, new, cnt=1):
    global s
    assert s.count(old) == cnt, (s.count(old), old[:70])
    s = s.replace(old, new)

# ---------- env: tracker module, RandomWalk patches
rep('''        env["branches"] = install_observers(Community)''', '''        env["branches"] = install_observers(Community)
        # the stock discovery strategy on a virtual clock, its randomness scripted
        import ipv8.peerdiscovery.discovery as disc
        env["now"] = 0.0
        env["rw_pick"] = []
        disc.time = lambda: env["now"]
        disc.randint = lambda a, b: 255            # never "go back to the tracker" instead of walking

        def rw_choice(seq):
            pick = min(seq, key=lambda a: (ip2int(a[0]), a[1]))
            env["rw_pick"].append(pick)
            return pick
        disc.choice = rw_choice
        env["RandomWalk"] = disc.RandomWalk
        # scripts/tracker_service.py (the production bootstrap server), its key and its choice scripted
        import importlib.util
        import types

        import vlib
        spec = importlib.util.spec_from_file_location("c13_tracker_service", str(vlib.REPO / "scripts" / "tracker_service.py"))
        ts = importlib.util.module_from_spec(spec)
        spec.loader.exec_module(ts)
        ts.random = types.SimpleNamespace(choice=choice)
        real_crypto = ts.default_eccrypto

        class CryptoShim:
            def generate_key(self, _level):
                return env["tracker_key"]

            def __getattr__(self, name):
                return getattr(real_crypto, name)
        ts.default_eccrypto = CryptoShim()
        env["tracker_cls"] = ts.EndpointServer
        logging.getLogger("EndpointServer").addHandler(env["catch"])
        logging.getLogger("EndpointServer").propagate = False''')

# ---------- TrackerView + add_tracker_host
rep('''BRANCHES: dict = {}''', '''class TrackerView:
    """one overlay's view of a tracker host (scripts/tracker_service.py EndpointServer serves every prefix with one
    Network): what the harness queries of a Community, answered from the tracker's Network for that service"""

    def __init__(self, trk, cls):
        self.trk, self.community_id, self._prefix = trk, cls.community_id, b"\\x00" + cls.version + cls.community_id
        self.network, self.endpoint = trk.network, trk.endpoint

    def get_prefix(self):
        return self._prefix

    def get_peers(self):
        return self.network.get_peers_for_service(self.community_id)

    def get_walkable_addresses(self):
        return self.network.get_walkable_addresses(self.community_id)

    def __getattr__(self, name):      # my_estimated_wan/lan, global_time, update_global_time, ensure_blacklisted, …
        return getattr(self.trk, name)


BRANCHES: dict = {}''')
rep('''    def set_pref(self, i: int, pref: list[int]):''', '''    def add_tracker_host(self, lan, wan, box, typ) -> int:
        """a host that runs the tracker service instead of ordinary overlays"""
        h = self.net.add_host(lan, wan, box, typ)
        h.ep = self.e["ep"](self.net, h)
        key = self.e["keys"][h.idx]
        self.e["tracker_key"] = key
        self.net.current = h
        try:
            h.tracker = self.e["tracker_cls"](h.ep)
        finally:
            self.net.current = None
        h.nodes = [TrackerView(h.tracker, c) for c in self.e["cls"]]
        h.node = h.nodes[0]
        self.keyidx[key.pub().key_to_bin()] = h.idx
        self.lines.append(f"host {ip2int(lan[0])} {lan[1]} {ip2int(wan[0])} {wan[1]} {box} {TYPES.index(typ)}")
        self.expect.append(str(h.idx))
        self.lines.append(f"tracker {h.idx}")
        self.expect.append("ok")
        return h.idx

    def rwstep(self, i: int, s: int, now: int) -> list:
        """one take_step() of the stock RandomWalk strategy of node i / overlay s at virtual time `now`"""
        h = self.net.hosts[i]
        walkers = h.__dict__.setdefault("walkers", {})
        if s not in walkers or walkers[s].overlay is not h.nodes[s]:
            walkers[s] = self.e["RandomWalk"](h.nodes[s])
        self.e["now"] = float(now)
        self.e["rw_pick"].clear()

        def line():
            pk = self.e["rw_pick"][-1] if self.e["rw_pick"] else ("0.0.0.0", 0)
            return f"rwstep {i} {s} {now} {ip2int(pk[0])} {pk[1]}"
        return self._op(line, h, walkers[s].take_step)

    def set_pref(self, i: int, pref: list[int]):''')
rep('''        done = self.net.drain()
        self.lines.append(line)''', '''        done = self.net.drain()
        self.lines.append(line() if callable(line) else line)''')
# close(): tracker hosts
rep('''                for nd in h.nodes:
                    nd.cancel_all_pending_tasks()
        self.e["world"] = None''', '''                for nd in ([h.tracker] if hasattr(h, "tracker") else h.nodes):
                    nd.cancel_all_pending_tasks()
        self.e["world"] = None''')
# describe / svc_of independent of host 0 being an ordinary node
rep('''        svc = next((j for j, nd in enumerate(self.net.hosts[0].nodes) if nd.get_prefix() == data[:22]), 0)
        node = self.net.hosts[0].nodes[svc]''', '''        svc = self.svc_of(data)
        dec = next(h for h in self.net.hosts if not hasattr(h, "tracker"))
        node = dec.nodes[svc if svc < len(dec.nodes) else 0]''')
rep('''        return next((j for j, nd in enumerate(self.net.hosts[0].nodes) if nd.get_prefix() == data[:22]), 0)''',
    '''        # 9 = a prefix that belongs to no overlay of the simulation (e.g. a tracker's private community id)
        return next((j for j, c in enumerate(self.e["cls"]) if b"\\x00" + c.version + c.community_id == data[:22]), 9)''')
# set_max_peers on a tracker view is meaningless; guard
rep('''        for nd in self.net.hosts[i].nodes:
            nd.max_peers = m''', '''        for nd in self.net.hosts[i].nodes:
            if not isinstance(nd, TrackerView):
                nd.max_peers = m''')

# ---------- scripted: classes tracker / peer-limit / strategy
rep('''        else:
            I = w.add_host(*lay.public_host(), "none")
        if klass == "own-machine":
            pass''', '''        elif klass == "tracker":
            I = w.add_tracker_host(*lay.public_host(), "none")
        else:
            I = w.add_host(*lay.public_host(), "none")
        if klass == "own-machine":
            pass''')
rep('''                                                        or klass in ("own-machine", "foreign-entry")) else None''',
    '''                                                        or klass in ("own-machine", "foreign-entry", "peer-limit")) else None''')
rep('''            if klass == "lan-collision" and s == 0:''', '''            if klass == "peer-limit" and s == 0:
                # the introduced peer has a further peer in overlay 1 (same Network); its limit is what overlay 0 holds now
                w.walk(P, hosts[X].wan, 1)
                w.set_max_peers(P, len(w.peers(P, 0)))
                ctx.count("peer-limit:network-peers-above-limit:%s"
                          % (len(hosts[P].node.network.verified_peers) > len(w.peers(P, 0))))
            if klass == "lan-collision" and s == 0:''')
rep('''            ev2 = []
            for a in handed:
                ev2 += w.walk(R, a, s)''', '''            ev2 = []
            if klass == "strategy":
                # the contact attempt is made by the stock RandomWalk strategy: two steps one second apart, then two more
                # after the 3 s node time-out (the unanswered probe is cleaned up)
                for t in (100, 101, 105, 106):
                    ev2 += w.rwstep(R, s, t)
                ctx.count("strategy:steps", 4)
            else:
                for a in handed:
                    ev2 += w.walk(R, a, s)''')
rep('''    "restart": (["diff", "same", "public"], ("old", "new")),''', '''    "restart": (["diff", "same", "public"], ("old", "new")),
    "tracker": (PLACEMENTS, ("old",)),                 # the introducer is scripts/tracker_service.py (answers under the requester's prefix)
    "peer-limit": (["diff", "same"], ("old", "new")),  # introduced peer at max_peers in this overlay, more peers in the other
    "strategy": (["diff", "same", "rPub"], ("old", "new")),   # contact attempt by the stock RandomWalk incl. its time-outs''')
rep('''    "op:blacklist", "op:walk-self",''', '''    "op:blacklist", "op:walk-self", "class:tracker", "class:peer-limit", "class:strategy", "strategy:steps",''')
rep('''restart (the requester starts again from its Network snapshot: addresses known without introducer).''',
    '''restart (the requester starts again from its Network snapshot: addresses known without introducer), tracker (the introducer is scripts/tracker_service.py), peer-limit (introduced peer at its overlay's max_peers with more peers in another overlay), strategy (contact attempt by the stock RandomWalk on a virtual clock, incl. its time-out clean-up).''')
open(p, 'w').write(s)
print("ok")
