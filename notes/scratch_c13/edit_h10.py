p = '/verif/harness/c13.py'
s = open(p).read()
def rep(old, new, cnt=1):
    global s
    assert s.count(old) == cnt, (s.count(old), old[:70])
    s = s.replace(old, new)

# host 0 always unfiltered public (it is the introducer of the closing oracle)
rep('''        w.add_host(*lay.public_host(), rng.choice(["none", "none", "fullCone"]))
        for _ in range(nh - 1):''', '''        w.add_host(*lay.public_host(), "none")
        for _ in range(nh - 1):''')
# walk-walkable more often: when nothing is walkable, ask a peer for an introduction first
rep('''                else:
                    ctx.count("op:walk-bootstrap")
                    w.walk(i, hosts[0].wan, sv)
            elif r < 0.9:''', '''                elif w.peers(i, sv):
                    ctx.count("op:ask")
                    w.ask(i, rng.choice(sorted(w.peers(i, sv))), sv)
                else:
                    ctx.count("op:walk-bootstrap")
                    w.walk(i, hosts[rng.randrange(nh)].wan, sv)
            elif r < 0.9:''')
rep('''        w.query_all()
        nontrivial = any(o.startswith(("drop:filtered", "lan:")) for _, _, _, o in w.net.log)
        ctx.case(("random", seed), nontrivial)''', '''        w.query_all()
        # ---- closing oracle: after the random history, host 0 introduces two nodes that do not know each other ---------
        pairs = [(a, b) for a in range(1, nh) for b in range(1, nh) if a != b
                 and not knows(w, a, b) and not knows(w, b, a)]
        if pairs:
            R, P = rng.choice(pairs)
            ctx.count("random-oracle:run")
            w.set_pref(0, [P] + [k for k in range(nh) if k not in (0, P)])
            w.walk(P, hosts[0].wan, 0)
            ev1 = w.walk(R, hosts[0].wan, 0)
            named = set()
            for src, _d, data, out in ev1:
                if src == 0 and out.endswith(f":{R}"):
                    d = w.describe(data)
                    if d.startswith("resp"):
                        f = dict(t.split("=") for t in d.split()[1:])
                        named |= {f["li"], f["wi"], f"{ip2int(hosts[R].lan[0])}:{f['wi'].split(':')[1]}"}
            cause = diagnose(w, R, P, 0, named)
            handed = [a for a, _ in w.walkable(R, 0) if sa(a) in named]
            ev2 = []
            for a in handed:
                ev2 += w.walk(R, a, 0)
            w.query_all()
            cfg = {"klass": "random", "tR": hosts[R].typ, "tP": hosts[P].typ, "placement": "random", "style": "any",
                   "history": "random", "ncand": nh - 2, "ports": lay.port_policy, "same_port": lay.same_port}
            check_scripted(ctx, w, cfg, R, P, 0, ev1, ev2, handed, 0, cause, {"kind": "random", "seed": seed})
        else:
            ctx.count("random-oracle:no-unconnected-pair")
        nontrivial = any(o.startswith(("drop:filtered", "lan:")) for _, _, _, o in w.net.log)
        ctx.case(("random", seed), nontrivial)''')
rep('''def diagnose(w: World, R: int, P: int, s: int, named: set):''', '''def knows(w: World, a: int, b: int) -> bool:
    """is b a verified peer of a (in any overlay)?"""
    kb = w.e["keys"][b].pub().key_to_bin()
    return kb in w.net.hosts[a].node.network.verified_by_public_key_bin


def diagnose(w: World, R: int, P: int, s: int, named: set):''')
rep('''def check_scripted(ctx: Ctx, w: World, cfg: dict, R: int, P: int, I: int, ev1, ev2, handed, s: int = 0, cause=None):''',
    '''def check_scripted(ctx: Ctx, w: World, cfg: dict, R: int, P: int, I: int, ev1, ev2, handed, s: int = 0, cause=None,
                   replay_rec=None):''')
rep('''    rep = {"kind": "scripted", "cfg": {k: v for k, v in cfg.items() if k != "overlay"}, "overlay": s}''',
    '''    rep = replay_rec or {"kind": "scripted", "cfg": {k: v for k, v in cfg.items() if k != "overlay"}, "overlay": s}''')
# known failures: at most a few per signature so that the 200-entry failure list stays open for new signatures
rep('''        if known_sig is not None and sig in CONSEQUENCES:''', '''        if known_sig is not None and sig in CONSEQUENCES:
            seen = ctx.extra.setdefault("known_finding_occurrences", {})
            seen[known_sig] = seen.get(known_sig, 0) + 1
            if seen[known_sig] > 3:
                return''')
# the ages lookup must tolerate the random class
rep('''    ctx.count("cfg:requester-age:" + ("young" if not ages or ages[R] < 65536 - 64 else "wraps" if ages[R] < 65536 else "old"))''',
    '''    if cfg.get("klass") != "random":
        ctx.count("cfg:requester-age:" + ("young" if not ages or ages[R] < 65536 - 64 else "wraps" if ages[R] < 65536 else "old"))''')
# replay of a random history
rep('''    cfg = r["cfg"]
    w = scripted(ctx, cfg, False, [])''', '''    if r.get("kind") == "random":
        random_history(ctx, r["seed"], False, [])
        print(f"replay of random history seed={r['seed']}: property",
              "FAILS: " + "; ".join(f["what"] for f in ctx.failures[:4]) if ctx.failures else "holds")
        return
    cfg = r["cfg"]
    w = scripted(ctx, cfg, False, [])''')
# lan-table lookups are one case, not 520
rep('''        ctx.case(("lan-table",), True, n=len(ips))''', '''        ctx.case(("lan-table",), True)
        ctx.extra["lan_table_lookups"] = len(ips)''')
# the dangling comment
rep('''            if lan not in self.used_lan:    # full LAN addresses are unique over the whole world (see design notes)''',
    '''            # full LAN addresses (ip AND port) are kept unique over the whole world, although /24s may collide: two verified
            # peers with one address make Network.get_verified_by_address order-dependent (verified_peers is a set), which
            # the list-based model cannot follow.  The class "lan-collision" creates exactly one such duplicate on purpose.
            if lan not in self.used_lan:''')
open(p, 'w').write(s)
print("ok")
