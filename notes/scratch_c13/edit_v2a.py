def edit(p, pairs):
    s = open(p).read()
    for old, new in pairs:
        assert s.count(old) == 1, (p, s.count(old), old[:70])
        s = s.replace(old, new)
    open(p, 'w').write(s)

edit('/verif/lean/Ipv8/C13/Model.lean', [
 ('''  match n.findPeer key with
  | none => { n with svcs := n.svcs.filter (fun x => x.1 != key) }
  | some p =>''', '''  match n.findPeer key with
  | none => n          -- (the harness only calls Network.remove_peer for a verified peer)
  | some p =>'''),
 ('''def World.removePeerAt (w : World) (i key : Nat) : World :=''', '''/-- the host moves to a network with another LAN numbering: new LAN address, box and WAN mapping, empty filter.  The
    machine's interface address follows (get_lan_addresses()), but `my_estimated_lan` does NOT: the code computes it once
    and caches it (endpoint.py, `_my_estimated_lan`), so the node keeps advertising the old LAN address. -/
def World.relan (w : World) (i : Nat) (box : Nat) (lan wan : Addr) : World :=
  match w.hosts[i]?, w.nodes[i]? with
  | some h, some n =>
    { w with hosts := w.hosts.set i { h with lan := lan, box := box, wan := wan, sent := [] },
             nodes := w.nodes.set i { n with machineIp := lan.ip } }
  | _, _ => w

def World.removePeerAt (w : World) (i key : Nat) : World :='''),
])
edit('/verif/lean/DrvC13.lean', [
 ('''  | ["remove", i, k] =>''', '''  | ["relan", i, b, lip, lport, ip, port] =>
    match i.toNat?, b.toNat?, lip.toNat?, lport.toNat?, ip.toNat?, port.toNat? with
    | some i, some b, some lip, some lport, some ip, some port => (w.relan i b ⟨lip, lport⟩ ⟨ip, port⟩, "ok")
    | _, _, _, _, _, _ => bad
  | ["remove", i, k] =>'''),
])
# ---- Script: dynamic clauses, restructured address-change scripts, two more witnesses
p = '/verif/lean/Ipv8/C13/Script.lean'
s = open(p).read()
i = s.index("/-- P's mapping is renewed after the introducer learned P;")
j = s.index("/-! ## more candidates at the introducer -/")
new = '''/-- like `introductionOkW`, with the addresses read from the hosts of `w0` as they are NOW: during the introduction I's
    puncture request, naming R's current WAN address, reaches P; P punctures (towards R's current WAN address unless
    they share a box now); I's response, handing out P's current WAN address, reaches R -/
def introductionOkDyn (c : Cfg) (w0 : World) : Bool :=
  match w0.hosts[1]?, w0.hosts[2]? with
  | some hR, some hP =>
    let same := hR.box != 0 && hR.box == hP.box
    let evs := newEvents w0 (introduce c)
    evs.any (fun e => e.src == 0 && e.delivered 2 &&
      (match e.msg with | .punctReq _ _ p => p.wan_walker_address == hR.wan | _ => false)) &&
    evs.any (fun e => e.src == 2 && e.isPuncture && (same || e.dst == hR.wan)) &&
    evs.any (fun e => e.src == 0 && e.delivered 1 &&
      (match e.msg with | .introResp _ _ _ p _ => p.wan_introduction_address == hP.wan | _ => false))
  | _, _ => false

/-- introduction (addresses as of now), contact attempt and final peer tables of the script started in `w0` -/
def allOkDyn (c : Cfg) (w0 : World) : Bool :=
  introductionOkDyn c w0 && contactOkW c w0 && mutualDyn (scriptFrom c w0)

def boxedP (c : Cfg) : Bool := (hostP c).box != 0
def boxedR (c : Cfg) : Bool := (hostR c).box != 0

/-- P's mapping is renewed after the introducer learned P; P contacts the introducer again from the new mapping -/
def preIntroducedRemapped (c : Cfg) : World :=
  let w := reboot (prehistory c) 2 41002
  if c.newStyle then w.ask 2 0 else w.walk 2 addrI

/-- R is known to the introducer (and was already handed P's addresses once, without walking); then R's mapping is renewed -/
def preRequesterRemapped (c : Cfg) : World := reboot (introduce c (prehistory c)) 1 41001

/-- R is known to the introducer and has a WAN estimate; then R ROAMS to another box with another public ip (LAN address
    kept).  For placement `same` R leaves the box it shared with P: P's handed-out WAN ip equals R's OLD estimate, so R
    must adopt the new estimate before classifying the introduction. -/
def preRequesterRoams (c : Cfg) : World := (introduce c (prehistory c)).remap 1 5 ⟨ipv4 8 8 8 8, 45001⟩

/-- churn at an introducer without peer limit (max_peers = -1): P's mapping is renewed, the introducer drops P
    (Network.remove_peer), P walks to it again from the new mapping -/
def preChurn (c : Cfg) : World :=
  let base := setPref (world0 c) 0 [2]
  let w0 := match base.nodes[0]? with
    | some n => { base with nodes := base.nodes.set 0 { n with maxPeers := -1 } }
    | none => base
  let w := (reboot (prehistoryOn c 0 w0) 2 41002).removePeerAt 0 2
  if c.newStyle then (w.walk 2 addrI).ask 2 0 else w.walk 2 addrI

/-! ## two more reachable states in which the unchanged code fails (known findings 3 and 4) -/

/-- P shares R's box, is a peer of I in overlays 0 and 1, then roams to another public ip and is refreshed at I through
    overlay 1 ONLY: I's record of P (per Network) is current, P's overlay-0 WAN estimate (per Community) still has the old
    ip = R's ip.  Then the script in overlay 0. -/
def staleEstimateWorld : World :=
  let w := ((prehistory cfgSamePR).walk 2 addrI 1).remap 2 5 ⟨ipv4 8 8 8 8, 45002⟩
  ((w.walk 2 addrI 1).walk 1 addrI).walkAll 1

/-- P (other box) moves INTO R's box and gets another LAN address there; it refreshes at I, still advertising the cached
    old `my_estimated_lan`.  Then the script. -/
def staleLanWorld : World :=
  let w := (prehistory cfgDiffPR).relan 2 1 ⟨ipv4 192 168 1 77, 8090⟩ ⟨ipv4 2 2 2 2, 40077⟩
  ((w.walk 2 addrI).walk 1 addrI).walkAll 1

'''
s = s[:i] + new + s[j:]
open(p, 'w').write(s)
for name, body in [("TableJ", "theorem tableJ : (allCfgs.filter boxedP).all (fun c => allOkDyn c (preIntroducedRemapped c)) = true := by decide +kernel"),
                   ("TableK", "theorem tableK : (allCfgs.filter boxedR).all (fun c => allOkDyn c (preRequesterRemapped c) && allOkDyn c (preRequesterRoams c)) = true := by decide +kernel"),
                   ("TableL", "theorem tableL : (allCfgs.filter boxedP).all (fun c => allOkDyn c (preChurn c)) = true := by decide +kernel")]:
    open(f'/verif/lean/Ipv8/C13/{name}.lean', 'w').write(
        f"/- C13 — kernel-evaluated table, address changes / churn, rows in which the host concerned is behind a box\n   (parallel build unit) -/\nimport Ipv8.C13.Script\nnamespace Ipv8.C13\n{body}\nend Ipv8.C13\n")
print("ok")
