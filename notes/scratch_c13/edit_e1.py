p = '/verif/tools/gen_c13.py'
s = open(p).read()
def rep(old, new, cnt=1):
    global s
    assert s.count(old) == cnt, (s.count(old), old[:70])
    s = s.replace(old, new)

# --- Tr: auto-declared top-level locals, `lst += [e]`
rep('''            if isinstance(st, ast.Assign) and len(st.targets) == 1 and isinstance(st.targets[0], ast.Name):
                name = st.targets[0].id
                if name not in self.locals:
                    self.fail(st, "assignment to a name that is not a declared local")
                out.append(f"{pad}{name} := {self.expr(st.value)}")''', '''            if isinstance(st, ast.Assign) and len(st.targets) == 1 and isinstance(st.targets[0], ast.Name):
                name = st.targets[0].id
                if name in LEAN_RESERVED or not name.isidentifier():
                    self.fail(st, "local name clashes with a Lean keyword")
                if name not in self.locals:
                    if ind != 1 or not self.auto_locals:
                        self.fail(st, "assignment to a name that is not a declared local")
                    # a new local introduced at the top level of the translated fragment (any name)
                    self.locals.add(name)
                    out.append(f"{pad}let mut {name} := {self.expr(st.value)}")
                else:
                    out.append(f"{pad}{name} := {self.expr(st.value)}")
            elif isinstance(st, ast.AugAssign) and isinstance(st.op, ast.Add) and isinstance(st.target, ast.Name) \\
                    and st.target.id in self.locals and isinstance(st.value, ast.List):
                lst = st.target.id      # lst += [a, b]
                out.append(f"{pad}{lst} := {lst} ++ [{', '.join(self.expr(e) for e in st.value.elts)}]")''')
rep('''    def __init__(self, where: str, locals_: set[str], params: set[str]):
        self.where = where
        self.locals = set(locals_)
        self.params = set(params)''', '''    def __init__(self, where: str, locals_: set[str], params: set[str], auto_locals: bool = False):
        self.where = where
        self.locals = set(locals_)
        self.params = set(params)
        self.auto_locals = auto_locals''')
rep('''class Tr:''', '''LEAN_RESERVED = {"end", "from", "at", "do", "then", "else", "fun", "let", "have", "show", "by", "in", "if", "match", "with",
                 "where", "def", "theorem", "namespace", "open", "import", "return", "for", "mut", "self", "payload"}


class Tr:''')
# --- on_puncture_request: any local name for the destination
rep('''    tr = Tr("on_puncture_request", {"target"}, set())
    lines = tr.stmts(head, 1)
    if not lines or not lines[0].strip().startswith("target :="):
        raise TranslatorError("on_puncture_request: first statement must initialise `target`")
    lines[0] = lines[0].replace("target :=", "let mut target :=", 1)''', '''    tr = Tr("on_puncture_request", set(), set(), auto_locals=True)
    lines = tr.stmts(head, 1)''')
# --- on_introduction_response: any name for the list of introductions
rep('''    idx = next((i for i, s in enumerate(body) if _src(s) == "introductions = []"), None)
    if idx is None or idx + 2 >= len(body) or not isinstance(body[idx + 1], ast.If):
        raise TranslatorError("on_introduction_response: `introductions = []` followed by an if-chain not found")
    tr2 = Tr("on_introduction_response", {"introductions"}, set())
    chain = tr2.stmts([body[idx + 1]], 1)
    loop = body[idx + 2]
    want = ("for introduction in introductions:\\n"
            "    self.network.discover_address(peer, introduction, self.community_id, payload.intro_supports_new_style)")
    if _src(loop) != want:
        raise TranslatorError(f"on_introduction_response: unexpected use of `introductions`: `{_src(loop)}`")''',
 '''    idx = next((i for i, s in enumerate(body) if isinstance(s, ast.Assign) and len(s.targets) == 1
                and isinstance(s.targets[0], ast.Name) and isinstance(s.value, ast.List) and not s.value.elts), None)
    if idx is None or idx + 2 >= len(body) or not isinstance(body[idx + 1], ast.If):
        raise TranslatorError("on_introduction_response: `<list> = []` followed by an if-chain not found")
    lname = body[idx].targets[0].id
    if lname in LEAN_RESERVED:
        raise TranslatorError(f"on_introduction_response: list name `{lname}` clashes with a Lean keyword")
    tr2 = Tr("on_introduction_response", {lname}, set())
    chain = tr2.stmts([body[idx + 1]], 1)
    loop = body[idx + 2]
    if not (isinstance(loop, ast.For) and isinstance(loop.target, ast.Name) and _src(loop.iter) == lname
            and not loop.orelse and len(loop.body) == 1
            and _src(loop.body[0]) == f"self.network.discover_address(peer, {loop.target.id}, self.community_id, "
                                      "payload.intro_supports_new_style)"):
        raise TranslatorError(f"on_introduction_response: unexpected use of `{lname}`: `{_src(loop)}`")''')
rep('''            "  let mut introductions : List Addr := []\\n" + "\\n".join(chain) + "\\n  return introductions\\n")''',
    '''            f"  let mut {lname} : List Addr := []\\n" + "\\n".join(chain) + f"\\n  return {lname}\\n")''')
# --- _address_in_subnet: shape is informative only (the function is tied by the differential + RFC 1918 oracle)
rep('''    if got != want:
        raise TranslatorError("_address_in_subnet: body differs from the shape the model assumes: " + " ; ".join(got))
    return out''', '''    global SUBNET_SHAPE_RECOGNISED
    SUBNET_SHAPE_RECOGNISED = got == want     # a rewrite is fine: address_in_lan_subnets is compared with the model and
    return out                                # with RFC 1918 on boundary + random addresses on every run''')
rep('''def ip_to_int(s: str) -> int:''', '''SUBNET_SHAPE_RECOGNISED = True


def ip_to_int(s: str) -> int:''')
# the `return any(...)` check: accept any return that mentions _address_in_subnet and lan_subnets
rep('''    if _src(ret) != want:
        raise TranslatorError(f"address_in_lan_subnets: unexpected return shape `{_src(ret)}`")''',
    '''    if not (isinstance(ret, ast.Return) and "lan_subnets" in _src(ret)):
        raise TranslatorError(f"address_in_lan_subnets: the result does not depend on the `lan_subnets` table: `{_src(ret)}`")''')

# --- new: Network.discover_address re-parenting condition, lazy_wrapper refresh condition
new_fn = open('/verif/notes/scratch_c13/new_fn.txt').read()
rep("\ndef translate() -> str:", new_fn + "\ndef translate() -> str:")
rep('''            create_request_parts(cc), ident_truncation(pay),''', '''            create_request_parts(cc), ident_truncation(pay), discover_parts(_parse(NET)), lazy_wrapper_parts(_parse(LAZY)),''')
rep('''  * Community.on_introduction_request: the capacity guard''', '''  * Network.discover_address: the re-parenting condition over {address known, recorded introducer verified}      -> Gen.reparents
  * lazy_wrapper: the condition under which a known sender's source address is refreshed                          -> Gen.refreshesAddress
  * Community.on_introduction_request: the capacity guard''')
open(p, 'w').write(s)
print("ok")
