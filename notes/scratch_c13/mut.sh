#!/bin/bash
# usage: mut.sh <name> <file> <python-expr old> <new>   (applies a textual replacement in the worktree, runs the check, reverts)
name="$1"; file="$2"; old="$3"; new="$4"
cd /tmp/wt_c13 && git checkout -q -- . 
/venv/bin/python - "$file" "$old" "$new" <<'PY'
import sys
f,old,new=sys.argv[1:4]
s=open(f).read()
assert s.count(old)==1, (s.count(old), old)
open(f,'w').write(s.replace(old,new))
PY
[ $? -eq 0 ] || { echo "MUT $name: pattern failed"; exit 1; }
cd /verif && VERIF_REPO=/tmp/wt_c13 ./check C13 quick > /tmp/mut_$name.log 2>&1; rc=$?
echo "MUT $name: exit=$rc"; grep -E "^(VIOLATION|C13|  broken|  disagreement)" /tmp/mut_$name.log | cut -c1-260 | head -8
cd /tmp/wt_c13 && git checkout -q -- .
