def edit(p, pairs):
    s = open(p).read()
    for old, new, cnt in pairs:
        assert s.count(old) == cnt, (p, s.count(old), old[:70])
        s = s.replace(old, new)
    open(p, 'w').write(s)
edit('/verif/lean/Ipv8/C13/Model.lean', [
 ('''  | none =>
    (n1, [⟨respDst, .introResp ns n1.key ident (Gen.respFields (n1.view s) sock Addr.zero Addr.zero) false⟩])''',
  '''  | none =>
    let (il, iw, _) := Gen.introNobody (n1.view s)
    (n1, [⟨respDst, .introResp ns n1.key ident (Gen.respFields (n1.view s) sock il iw) false⟩])''', 1),
 ('''  | none =>
    (n1, [⟨src, .introResp false n1.key ident (Gen.respFields (n1.view s) src Addr.zero Addr.zero) false⟩])''',
  '''  | none =>
    let (il, iw, _) := Gen.introNobody (n1.view s)
    (n1, [⟨src, .introResp false n1.key ident (Gen.respFields (n1.view s) src il iw) false⟩])''', 1),
])
p = '/verif/lean/Ipv8/C13/Props.lean'
s = open(p).read()
n = s.count("Gen.introAddrs, ")
s = s.replace("Gen.introAddrs, ", "Gen.introAddrs, Gen.introAddrsGen, ")
print("replaced", n)
old = "/-- first branch of create_introduction_response: a peer on the introducer's own machine"
assert s.count(old) == 1
s = s.replace(old, '''/-- when there is nobody to introduce the response carries 0.0.0.0:0 twice and no puncture request is sent -/
theorem nobody_to_introduce_hands_out_nothing (s : SelfView) : Gen.introNobody s = (Addr.zero, Addr.zero, false) := by
  simp [Gen.introNobody, Gen.introAddrsGen, Id.run, pure]

''' + old)
open(p, 'w').write(s)
