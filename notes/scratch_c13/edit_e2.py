def edit(p, pairs):
    s = open(p).read()
    for old, new in pairs:
        assert s.count(old) == 1, (p, s.count(old), old[:70])
        s = s.replace(old, new)
    open(p, 'w').write(s)
edit('/verif/lean/Ipv8/C13/Model.lean', [
 ('''  match n.findPeer key with
  | some p => let p' := { p with v4 := src }; (p', n.setPeer p')
  | none => ({ key := key, v4 := src }, n)''', '''  match n.findPeer key with
  | some p =>
    if Gen.refreshesAddress true then let p' := { p with v4 := src }; (p', n.setPeer p') else (p, n)
  | none => ({ key := key, v4 := src }, n)'''),
 ('''  let stale := match n.all.find? (fun w => w.addr == a) with
    | none => true
    | some w => match w.by_ with
      | none => true
      | some k => !n.knows k''', '''  let stale := match n.all.find? (fun w => w.addr == a) with
    | none => Gen.reparents false false
    | some w => Gen.reparents true (match w.by_ with
      | none => false          -- the empty introducer of snapshot / contact-only records is never a verified key
      | some k => n.knows k)'''),
])
edit('/verif/lean/Ipv8/C13/Props.lean', [
 ('''/-- on_introduction_request answers as long as''', '''/-- Network.discover_address (translated condition): an address that is new, or whose recorded introducer is not a
    verified peer — in particular the empty introducer of an address loaded from a snapshot or left by a contact — is
    adopted by the peer that introduces it; an address whose introducer is still verified keeps its record -/
theorem orphan_address_is_adopted (b : Bool) :
    Gen.reparents false b = true ∧ Gen.reparents true false = true ∧ Gen.reparents true true = false := by
  cases b <;> decide

/-- lazy_wrapper (translated condition): every signed packet of a known peer refreshes that peer's stored address, so
    the introducer answers to, names in the puncture request, and hands out the address the peer has NOW -/
theorem known_sender_address_is_refreshed (n : Node) (p : PeerRec) (key : Nat) (src : Addr)
    (h : n.findPeer key = some p) : (n.senderRec key src).1.v4 = src := by
  simp [Node.senderRec, h, Gen.refreshesAddress]

/-- on_introduction_request answers as long as'''),
])
print("ok")
