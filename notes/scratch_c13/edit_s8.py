p = '/verif/lean/Ipv8/C13/Script.lean'
s = open(p).read()
add = '''/-! ## requester states outside the tables: the two known findings (known_findings.d/C13.json) -/

def cfgSamePR : Cfg := ⟨.portRestricted, .portRestricted, .same, false⟩

/-- host 3 = Q: on ANOTHER LAN, unfiltered, with the same full LAN address as P (192.168.1.3:8090) -/
def hostQ : Host := { lan := ⟨ipv4 192 168 1 3, 8090⟩, wan := ⟨ipv4 7 7 7 7, 40003⟩, box := 7, typ := .none }

/-- R first gets to know Q (Q's response tells its LAN address), then the normal script for a same-NAT pair -/
def lanCollisionWorld : World :=
  let w := setPref ((world0 cfgSamePR).addHost hostQ) 0 [2]
  (((w.walk 1 hostQ.wan).walk 2 addrI).walk 1 addrI).walkAll 1

def cfgDiffPR : Cfg := ⟨.portRestricted, .portRestricted, .diff, false⟩

/-- host 3 = X, known to R only as a peer of overlay 1: it introduces P's addresses to R there (R does not walk yet);
    then the normal script in overlay 0 -/
def foreignEntryWorld : World :=
  let w := setPref (setPref ((world0 cfgDiffPR).addHost hostX) 0 [2]) 3 [2]
  let w := (w.walk 2 addrX 1).walk 1 addrX 1
  ((w.walk 2 addrI).walk 1 addrI).walkAll 1

/-! ## the introducer is a blacklisted bootstrap server (old style: it is never a peer one could `ask`) -/

def blacklistAt (w : World) (i : Nat) (a : Addr) : World :=
  match w.nodes[i]? with
  | some n => { w with nodes := w.nodes.set i { n with blacklist := n.blacklist ++ [a] } }
  | none => w

def prehistoryBootstrap (c : Cfg) : World :=
  prehistoryOn c 0 (blacklistAt (blacklistAt (setPref (world0 c) 0 [2]) 1 addrI) 2 addrI)

/-! ## the introducer behind an unfiltered port-preserving box, the introduced peer on the introducer's own machine -/

def ownI : Host := { lan := ⟨ipv4 10 0 0 5, 8090⟩, wan := ⟨ipv4 9 9 9 9, 8090⟩, box := 9, typ := .none }
def ownP (c : Cfg) : Host := { lan := ⟨ipv4 10 0 0 5, 8091⟩, wan := ⟨ipv4 9 9 9 9, 8091⟩, box := 9, typ := c.tP }

/-- hosts: 0 = I, 1 = R (public for `pub`, else behind its own box), 2 = P, 3 = X.  I learns its WAN address from X;
    P reaches I over the LAN segment. -/
def prehistoryOwn (c : Cfg) : World :=
  let w := ((((({} : World).addHost ownI clockI).addHost (hostR c) clockR).addHost (ownP c) clockP).addHost hostX)
  let w := (setPref w 0 [2]).walk 0 addrX
  if c.newStyle then (((w.walk 1 ownI.wan).walk 2 ownI.lan).ask 2 0) else w.walk 2 ownI.lan

def scriptOwn (c : Cfg) : World :=
  (if c.newStyle then (prehistoryOwn c).ask 1 0 else (prehistoryOwn c).walk 1 ownI.wan).walkAll 1

def mutualOwn (c : Cfg) (w : World) : Bool :=
  (match w.verifiedAt 1 2 with | some p => p.v4 == (ownP c).wan | none => false) &&
  (match w.verifiedAt 2 1 with | some p => p.v4 == (hostR c).wan | none => false)

def ownCfgs : List Cfg := allCfgs.filter (fun c => c.pl == .pub || c.pl == .diff)
def oldCfgs : List Cfg := allCfgs.filter (fun c => !c.newStyle)

'''
s = s.replace("/-! ## more candidates at the introducer -/", add + "/-! ## more candidates at the introducer -/")
open(p, 'w').write(s)
open('/verif/lean/Ipv8/C13/TableI.lean', 'w').write('''/- C13 — kernel-evaluated tables: blacklisted bootstrap introducer (old style); introducer behind a box with the
   introduced peer on its own machine (parallel build unit) -/
import Ipv8.C13.Script
namespace Ipv8.C13
theorem tableI1 : oldCfgs.all (fun c => allOkW c (prehistoryBootstrap c)) = true := by decide +kernel
theorem tableI2 : ownCfgs.all (fun c => mutualOwn c (scriptOwn c)) = true := by decide +kernel
end Ipv8.C13
''')
p = '/verif/lean/Ipv8/C13/Lemmas.lean'
s = open(p).read()
s = s.replace("import Ipv8.C13.TableH\n", "import Ipv8.C13.TableH\nimport Ipv8.C13.TableI\n")
open(p, 'w').write(s)
