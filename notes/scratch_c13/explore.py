import sys, random, collections
sys.path[:0] = ["/repo", "/verif/tools", "/verif/harness"]
import c13
from vlib import Ctx
ctx = Ctx("C13", "quick", 0)
rng = random.Random(5)
res = collections.Counter()
for cfg in c13.table_cfgs(rng, 1, history="response"):
    sub = Ctx("C13", "quick", 0)
    c13.scripted(sub, cfg, False, [])
    sigs = tuple(sorted({f["signature"] for f in sub.failures}))
    res[(cfg["placement"], sigs)] += 1
    if sub.disagreements: print("DIS", sub.disagreements[0]["what"][:200])
for k, v in sorted(res.items()): print(v, k)
