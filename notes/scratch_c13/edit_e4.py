p = '/verif/harness/c13.py'
s = open(p).read()
def rep(old, new, cnt=1):
    global s
    assert s.count(old) == cnt, (s.count(old), old[:70])
    s = s.replace(old, new)
rep('''    "introductions:other-wan-ip", "introductions:other-wan-ip+lan", "introductions:same-wan-ip-lan-only",
    "introductions:same-wan-ip-no-lan-guess", "introductions:nothing-introduced",''', '''    # (not required: "introductions:other-wan-ip" without LAN, "introductions:same-wan-ip-no-lan-guess" and
    #  "introduced:no-lan-recorded" need an introducer that holds a verified IPv4 peer WITHOUT a LAN slot; since both
    #  requests and responses teach the LAN address (fix 4c4fb6a) no history of the simulated space produces one.  Those
    #  branches of the translated decisions are covered by theorems only: requester_walks_wan / requester_walks_only_handed.)
    "introductions:other-wan-ip+lan", "introductions:same-wan-ip-lan-only", "introductions:nothing-introduced",''')
rep('''    "introduced:recorded-addresses", "introduced:no-lan-recorded", "introduced:own-machine", "introduced:nobody",''',
    '''    "introduced:recorded-addresses", "introduced:own-machine", "introduced:nobody",''')
rep('''    "op:remap", "op:roam", "op:remove-peer", "op:restart", "op:ask", "op:walk-walkable", "op:walk-junk", "op:set-age",''',
    '''    "op:remap", "op:roam", "op:remove-peer", "op:restart", "op:ask", "op:walk-walkable", "op:walk-junk", "op:set-age",
    "op:blacklist", "op:walk-self",''')
# random histories: blacklist op; the closing oracle avoids blacklisted hosts
rep('''            if rng.random() < 0.04:
                ctx.count("op:restart")
                w.restart(rng.randrange(1, nh))''', '''            if rng.random() < 0.04:
                ctx.count("op:restart")
                w.restart(rng.randrange(1, nh))
            if rng.random() < 0.05 and nh > 3:
                j = rng.randrange(1, nh)
                if j != i:
                    ctx.count("op:blacklist")      # node i treats host j like a bootstrap server: never a peer, never walked to
                    w.blacklist(i, hosts[j].wan)
                    blacklisted.add(i)
                    blacklisted.add(j)''')
rep('''        nops = rng.randrange(6, 26)
        for _ in range(nops):
            i = rng.randrange(nh)
            sv = 0 if rng.random() < 0.7 else 1''', '''        nops = rng.randrange(6, 26)
        blacklisted: set = set()
        for _ in range(nops):
            i = rng.randrange(nh)
            sv = 0 if rng.random() < 0.7 else 1''')
rep('''        pairs = [(a, b) for a in range(1, nh) for b in range(1, nh) if a != b
                 and not knows(w, a, b) and not knows(w, b, a)]''', '''        pairs = [(a, b) for a in range(1, nh) for b in range(1, nh) if a != b
                 and a not in blacklisted and b not in blacklisted
                 and not knows(w, a, b) and not knows(w, b, a)]''')
# a restart drops the blacklist of the real node and of the model alike (fresh Network) — nothing to do.
# exit 2 on lost coverage unless something NEW failed
rep('''    if missing and not ctx.failures and not ctx.disagreements and not ctx.broken:
        from vlib import InfraError''', '''    import vlib
    known_sigs = {k.get("signature") for k in vlib.load_known_findings()
                  if k.get("property") == PROPERTY and k.get("status") == "known"}
    new_failures = [f for f in ctx.failures if f["signature"] not in known_sigs]
    if missing and not new_failures and not ctx.disagreements and not ctx.broken:
        from vlib import InfraError''')
open(p, 'w').write(s)
print("ok")
