p = '/verif/harness/c13.py'
s = open(p).read()
def rep(old, new, cnt=1):
    global s
    assert s.count(old) == cnt, (s.count(old), old[:70])
    s = s.replace(old, new)

# SimNet: scripted loss
rep('''            h, d, data = self.queue.pop(0)
            out, g, seen = self.route(h, d)''', '''            h, d, data = self.queue.pop(0)
            if self.lose is not None and self.lose(h, d, data):
                ev = (h.idx, d, data, "drop:lost")      # scripted loss / delay beyond the horizon of the scenario
                self.trace.append(ev)
                self.log.append(ev)
                continue
            out, g, seen = self.route(h, d)''')
rep('''        self.current: Host | None = None''', '''        self.current: Host | None = None
        self.lose = None           # optional predicate (host, dst, data) -> bool: the packet is lost''')
# World: hosts remember which overlay classes they run (restart re-creates the same ones)
rep('''            me, nw = Peer(key), Network()
            h.nodes = [c(CommunitySettings(my_peer=me, endpoint=h.ep, network=nw)) for c in self.e["cls"]]
            h.node = h.nodes[0]
        finally:
            self.net.current = None
        self.keyidx[key.pub().key_to_bin()] = h.idx''', '''            me, nw = Peer(key), Network()
            h.cls_list = list(self.overlay_classes or self.e["cls"])
            h.nodes = [c(CommunitySettings(my_peer=me, endpoint=h.ep, network=nw)) for c in h.cls_list]
            h.node = h.nodes[0]
        finally:
            self.net.current = None
        self.keyidx[key.pub().key_to_bin()] = h.idx''')
rep('''            nw.load_snapshot(snap)
            h.nodes = [c(CommunitySettings(my_peer=me, endpoint=h.ep, network=nw)) for c in self.e["cls"]]''',
    '''            nw.load_snapshot(snap)
            h.nodes = [c(CommunitySettings(my_peer=me, endpoint=h.ep, network=nw)) for c in getattr(h, "cls_list", self.e["cls"])]''')
rep('''        self.kinds: dict[str, int] = {}
        self.raised: dict[str, int] = {}''', '''        self.kinds: dict[str, int] = {}
        self.raised: dict[str, int] = {}
        self.overlay_classes = None     # None = the two IntroCommunity overlays; else the classes every new host runs''')

# the implementation-only class
rep('''def lan_table_check(ctx: Ctx, use_model: bool, batch: list):''', '''def discovery_restart_case(ctx: Ctx, cfg: dict):
    """IMPLEMENTATION-ONLY class (no model): all three nodes run the stock DiscoveryCommunity, whose subclass override of
    the old-style request handler replaces lazy_wrapper.  The introduced peer restarts behind a renewed NAT mapping
    (same key, fresh Network) and re-bootstraps with an old-style request; its follow-up similarity request — the first
    lazy_wrapper-handled packet from the new mapping — is lost.  Then the scripted introduction and the usual oracle."""
    import random as _random
    from ipv8.peerdiscovery.community import DiscoveryCommunity
    from ipv8.peerdiscovery.payload import SimilarityRequestPayload
    rng = _random.Random(cfg["seed"])
    w = World()
    try:
        w.overlay_classes = [DiscoveryCommunity]
        logging.getLogger("DiscoveryCommunity").addHandler(w.e["catch"])
        logging.getLogger("DiscoveryCommunity").propagate = False
        lay = Layout(rng, cfg["ports"], cfg["same_port"])
        pl = cfg["placement"]
        I = w.add_host(*lay.public_host(), "none")
        R = w.add_host(*(lay.public_host() if pl in ("public", "rPub") else lay.boxed_host(lay.new_box())), cfg["tR"])
        P = w.add_host(*lay.boxed_host(lay.new_box()), cfg["tP"])
        hosts = w.net.hosts
        for h in hosts:
            w.set_pref(h.idx, [k for k in range(3) if k != h.idx])
        w.set_pref(I, [P, R])
        iaddr = hosts[I].wan
        w.walk(P, iaddr, 0)                                   # first session of the introduced peer
        w.remap(P, *new_mapping(lay, w, P, False))            # it restarts: new socket -> new mapping, fresh Network
        w.restart(P)
        w.net.lose = lambda h, d, data: h.idx == P and len(data) > 22 and data[22] == SimilarityRequestPayload.msg_id
        w.walk(P, iaddr, 0)                                   # re-bootstrap; the similarity request that follows is lost
        ev1 = w.walk(R, iaddr, 0)
        named = set()
        for src, _d, data, out in ev1:
            if src == I and out.endswith(f":{R}"):
                d = w.describe(data)
                if d.startswith("resp"):
                    f = dict(t.split("=") for t in d.split()[1:])
                    named |= {f["li"], f["wi"], f"{ip2int(hosts[R].lan[0])}:{f['wi'].split(':')[1]}"}
        handed = [a for a, _ in w.walkable(R, 0) if sa(a) in named]
        ev2 = []
        for a in handed:
            ev2 += w.walk(R, a, 0)
        ev1 = [e for e in ev1 if e[2][22] in (246, 245, 250, 249, 234, 233, 232, 231)]
        ev2 = [e for e in ev2 if e[2][22] in (246, 245, 250, 249, 234, 233, 232, 231)]
        ctx.count("class:discovery-restart")
        check_scripted(ctx, w, dict(cfg, klass="discovery-restart", history="normal", ncand=1), R, P, I, ev1, ev2, handed, 0,
                       None, {"kind": "discovery-restart", "cfg": cfg})
        ctx.case(("discovery-restart", tuple(sorted(cfg.items()))), True)
    finally:
        w.net.lose = None
        w.close()


def lan_table_check(ctx: Ctx, use_model: bool, batch: list):''')
rep('''    if ctx.thorough():
        # exhaustive small scope''', '''    # implementation-only: the stock DiscoveryCommunity (subclass override of the request handler), restart + loss
    for tR in TYPES:
        for tP in TYPES:
            for pl in ("diff", "rPub"):
                discovery_restart_case(ctx, {"tR": tR, "tP": tP, "placement": pl, "style": "old", "ports": "remap",
                                             "same_port": ctx.rng.random() < 0.5, "seed": ctx.rng.randrange(1 << 30)})
    if ctx.thorough():
        # exhaustive small scope''')
rep('''    if r.get("kind") == "random":''', '''    if r.get("kind") == "discovery-restart":
        discovery_restart_case(ctx, r["cfg"])
        print("replay of discovery-restart", r["cfg"], ": property",
              "FAILS: " + "; ".join(f["what"] for f in ctx.failures[:4]) if ctx.failures else "holds")
        return
    if r.get("kind") == "random":''')
rep('''"strategy:steps", "class:odd-lan",''', '''"strategy:steps", "class:odd-lan", "class:discovery-restart",''')
open(p, 'w').write(s)
print("ok")
