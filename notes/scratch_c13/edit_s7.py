p = '/verif/lean/Ipv8/C13/Props.lean'
s = open(p).read()
def cut(name):
    """cut '/-- doc -/ theorem name …' incl. directly following example lines, up to the next blank line"""
    global s
    i = s.index(f"theorem {name} ")
    d = s.rfind("/--", 0, i)
    j = s.index("\n\n", i)
    blk = s[d:j]
    s = s[:d] + s[j:].lstrip("\n")
    return blk
moved = [cut(n) for n in ["intro_reaches_more_candidates_partial", "intro_reaches_response_history_partial",
                          "intro_reaches_other_histories_partial", "intro_reaches_bootstrap_partial",
                          "intro_reaches_own_machine_partial", "intro_reaches_after_address_change_partial",
                          "intro_reaches_after_churn_partial", "verified_peer_survives_probe_timeout_partial"]]
s = s.replace("import Ipv8.C13.Lemmas\n", "import Ipv8.C13.Lemmas\n", 1)
s = s.replace("/-! ## the script tables — PARTIAL", '''/-! The theorems over the kernel tables B–G, I, J–L, O (more candidates, the other four histories of the introducer,
    bootstrap / own-machine introducer, address changes, churn, RandomWalk time-outs) are in `PropsThorough.lean`: they are
    built and re-proved in the THOROUGH tier only, so that a quick run whose `Gen.lean` changed re-proves five tables
    (A, H, M, N, P) instead of seventeen. -/

/-! ## the script tables — PARTIAL''', 1)
open(p, 'w').write(s)
open('/verif/lean/Ipv8/C13/PropsThorough.lean', 'w').write('''/-
  C13 — property theorems over the kernel tables that are built in the THOROUGH tier only (harness/c13.py adds this module
  to the lake targets when the tier is `thorough`).  Same conventions as Props.lean; all `…_partial` (one fixed address
  assignment, requester knows only the introducer — see the header of Props.lean).
-/
import Ipv8.C13.Props
import Ipv8.C13.TableB
import Ipv8.C13.TableC
import Ipv8.C13.TableD
import Ipv8.C13.TableE
import Ipv8.C13.TableF
import Ipv8.C13.TableG
import Ipv8.C13.TableI
import Ipv8.C13.TableJ
import Ipv8.C13.TableK
import Ipv8.C13.TableL
import Ipv8.C13.TableO

namespace Ipv8.C13

''' + "\n\n".join(moved) + "\n\nend Ipv8.C13\n")
p = '/verif/lean/Ipv8/C13/Lemmas.lean'
l = open(p).read()
for t in "BCDEFGIJKLO":
    l = l.replace(f"import Ipv8.C13.Table{t}\n", "")
open(p, 'w').write(l)
print([ln for ln in l.split("\n") if ln.startswith("import")])
