def edit(p, pairs):
    s = open(p).read()
    for old, new in pairs:
        assert s.count(old) == 1, (p, s.count(old), old[:70])
        s = s.replace(old, new)
    open(p, 'w').write(s)
add = '''/-! ## the introducer is the tracker service; a peer limit at the introduced peer; the stock RandomWalk strategy -/

def setNode (w : World) (i : Nat) (f : Node → Node) : World :=
  match w.nodes[i]? with
  | some n => { w with nodes := w.nodes.set i (f n) }
  | none => w

/-- host 0 runs scripts/tracker_service.py's EndpointServer (old-style requests of any prefix) -/
def prehistoryTracker (c : Cfg) : World :=
  prehistoryOn c 0 (setNode (setPref (world0 c) 0 [2]) 0 (fun n => { n with isTracker := true }))

/-- P also runs overlay 1 and has a peer there (X); its max_peers equals the number of its overlay-0 peers (one: the
    introducer): overlay 0 is AT its limit, the Network as a whole holds more -/
def prePeerLimit (c : Cfg) : World :=
  let w := prehistoryOn c 0 (setPref ((world0 c).addHost hostX) 0 [2])
  setNode (w.walk 2 addrX 1) 2 (fun n => { n with maxPeers := 1 })

/-- one RandomWalk step of node i with `choice` = the first available address -/
def rwAuto (w : World) (i s now : Nat) : World :=
  match w.rwStep i s now none with
  | some w' => w'
  | none =>
    match w.nodes[i]? with
    | none => w
    | some n => ((n.walkable s).findSome? (fun a => w.rwStep i s now (some a))).getD w

/-- the contact attempt made by the stock strategy: two steps one second apart (both handed-out addresses are probed
    before any answer is evaluated by the strategy), then steps after the 3 s node timeout has passed -/
def scriptStrategy (c : Cfg) : World :=
  let w := introduce c (prehistory c)
  rwAuto (rwAuto (rwAuto (rwAuto w 1 0 100) 1 0 101) 1 0 105) 1 0 106

def strategyOk (c : Cfg) : Bool :=
  let w := introduce c (prehistory c)
  let w2 := rwAuto (rwAuto w 1 0 100) 1 0 101
  (w2.nodes[1]?.map (fun n => !n.timeouts.isEmpty)) == some true &&
  ((scriptStrategy c).nodes[1]?.map (fun n => n.timeouts.all (fun t => 104 < t.2.2))) == some true &&
  mutualDyn (scriptStrategy c)

'''
p = '/verif/lean/Ipv8/C13/Script.lean'
s = open(p).read()
s = s.replace("/-! ## more candidates at the introducer -/", add + "/-! ## more candidates at the introducer -/")
open(p, 'w').write(s)
for name, body in [("TableN", "theorem tableN : oldCfgs.all (fun c => allOkW c (prehistoryTracker c)) = true := by decide +kernel\ntheorem tableN2 : allCfgs.all (fun c => allOkW c (prePeerLimit c)) = true := by decide +kernel"),
                   ("TableO", "theorem tableO : allCfgs.all strategyOk = true := by decide +kernel")]:
    open(f'/verif/lean/Ipv8/C13/{name}.lean', 'w').write(
        f"/- C13 — kernel-evaluated tables: tracker introducer, peer limit at the introduced peer, RandomWalk strategy\n   (parallel build unit) -/\nimport Ipv8.C13.Script\nnamespace Ipv8.C13\n{body}\nend Ipv8.C13\n")
print("ok")
