def edit(p, pairs):
    s = open(p).read()
    for old, new in pairs:
        assert s.count(old) == 1, (p, s.count(old), old[:70])
        s = s.replace(old, new)
    open(p, 'w').write(s)
edit('/verif/lean/Ipv8/C13/Lemmas.lean', [("import Ipv8.C13.TableI\n", "import Ipv8.C13.TableI\nimport Ipv8.C13.TableJ\nimport Ipv8.C13.TableK\nimport Ipv8.C13.TableL\n")])
edit('/verif/lean/Ipv8/C13/Props.lean', [('''/-! ## requester states outside the tables in which the unchanged code FAILS''', '''/-- address changes: (1) the introduced peer's NAT mapping is renewed after the introducer learned it and it contacts
    the introducer again from the new mapping — the introducer hands out, and sends the puncture request to, the NEW
    address; (2) the requester's mapping is renewed while it is a known peer of the introducer — the response reaches,
    and the puncture aims at, the new mapping; (3) the requester roams to another public ip (leaving, for placement
    `same`, the box it shared with the introduced peer) — it adopts the new WAN estimate before classifying the
    introduction.  In each case both end up in each other's get_peers() under the addresses that are valid NOW. -/
theorem intro_reaches_after_address_change_partial (c : Cfg) :
    mutualDyn (scriptIntroducedRemapped c) = true ∧ mutualDyn (scriptRequesterRemapped c) = true ∧
    mutualDyn (scriptRequesterRoams c) = true := by
  have h := of_all tableK c
  simp only [Bool.and_eq_true] at h
  exact ⟨of_all tableJ c, h.1, h.2⟩
example : ((scriptRequesterRoams ⟨.portRestricted, .portRestricted, .same, false⟩).hosts[1]?.map (·.wan)) =
    some ⟨ipv4 8 8 8 8, 45001⟩ := by decide +kernel

/-- churn at an introducer without peer limit (max_peers = -1): the introduced peer's mapping is renewed, the introducer
    drops it (Network.remove_peer) and verifies it again from its next request; the introduction then hands out the new
    address and both end up verified -/
theorem intro_reaches_after_churn_partial (c : Cfg) : mutualDyn (scriptChurn c) = true := of_all tableL c

/-! ## requester states outside the tables in which the unchanged code FAILS''')])
print("ok")
