p = '/verif/harness/c13.py'
s = open(p).read()
i = s.index("        if new:\n            w.walk(R, iaddr)                       # the requester is known")
j = s.index("        nontrivial = any(o.startswith((\"drop:filtered\", \"lan:\")) for _, _, _, o in w.net.log)\n        ctx.case((\"scripted\"")
new = '''        # node ages: Lamport clocks as if the nodes had already created that many messages
        for hidx, age in enumerate(cfg.get("ages", [])):
            if age and hidx < n:
                w.set_clock(hidx, age)

        def phase(s: int):
            """history + introduction + contact attempt + oracle, all inside overlay s"""
            if new:
                w.walk(R, iaddr, s)                   # the requester is known to the introducer before any candidate is

            def by_request(repeat: bool):
                # the candidate walks to the introducer; with `repeat` it contacts it once more AFTER it learned its own
                # WAN address from the first response (its request then carries source_wan_address != source_lan_address)
                for c in cands:
                    w.walk(c, iaddr, s)
                    if new:
                        w.ask(c, I, s)
                    if repeat:
                        if new:
                            w.ask(c, I, s)
                        else:
                            w.walk(c, iaddr, s)

            def by_response():
                # the introducer learns the candidates from their RESPONSES.  A second public node X introduces each
                # candidate to I (X's puncture request makes the candidate open its NAT towards I), then I walks to it.
                for c in cands:
                    w.walk(c, hosts[X].wan, s)
                    if new:
                        w.ask(c, X, s)
                for c in cands:
                    w.set_pref(X, [c] + [k for k in range(n) if k not in (c, X)])
                    if X not in w.peers(I, s):
                        w.walk(I, hosts[X].wan, s)
                    else:
                        w.ask(I, X, s)
                    for a, _ns in w.walkable(I, s):
                        w.walk(I, a, s)

            if history == "normal":
                by_request(False)
            elif history == "repeat":
                by_request(True)
            elif history == "response":
                by_response()
            elif history == "resp+req":   # learned from the response first, then the candidate also walks to the introducer
                by_response()             # (it knows its WAN address by then: X's response told it)
                by_request(False)
            elif history == "req+resp":   # learned from the request first, then the introducer asks the candidate itself
                by_request(False)
                for c in cands:
                    w.ask(I, c, s)
            else:
                raise ValueError(history)
            if cfg.get("noise"):
                for c in cands:
                    for a, _ns in w.walkable(c, s)[:3]:
                        if a not in (hosts[R].lan, hosts[R].wan):      # the pair under test stays unconnected
                            w.walk(c, a, s)
            w.query_all()
            # ---- the scripted introduction ---------------------------------------------------------------------
            already = P in w.peers(R, s) and R in w.peers(P, s)
            ev1 = w.ask(R, I, s) if new else w.walk(R, iaddr, s)
            # the requester's next contact attempt: a walk to every address of the introduction that this overlay
            # reports as walkable (what a DiscoveryStrategy would pick from)
            named = set()
            for src, _d, data, out in ev1:
                if src == I and out.endswith(f":{R}"):
                    d = w.describe(data)
                    if d.startswith("resp"):
                        f = dict(t.split("=") for t in d.split()[1:])
                        named |= {f["li"], f["wi"], f"{ip2int(hosts[R].lan[0])}:{f['wi'].split(':')[1]}"}
            handed = [a for a, _ in w.walkable(R, s) if sa(a) in named]
            w.query_all()
            ev2 = []
            for a in handed:
                ev2 += w.walk(R, a, s)
            w.query_all()
            ctx.count("pre:already-peers-in-overlay:%s" % already)
            check_scripted(ctx, w, dict(cfg, overlay=s), R, P, I, ev1, ev2, handed, s)

        if cfg.get("overlays") == "other-first":
            phase(1)          # requester and introduced peer become peers in overlay 1 first (shared Network) …
        phase(0)              # … and are then introduced to each other in overlay 0
        for k, v in w.raised.items():
            ctx.count("api-raised:" + k, v)
'''
s = s[:i] + new + s[j:]
# check_scripted signature and overlay-aware lookups
s = s.replace("def check_scripted(ctx: Ctx, w: World, cfg: dict, R: int, P: int, I: int, ev1, ev2, handed):",
              "def check_scripted(ctx: Ctx, w: World, cfg: dict, R: int, P: int, I: int, ev1, ev2, handed, s: int = 0):")
assert s.count("    pr, pp = w.peers(R), w.peers(P)") == 1
s = s.replace("    pr, pp = w.peers(R), w.peers(P)", "    pr, pp = w.peers(R, s), w.peers(P, s)")
s = s.replace('''    rep = {"kind": "scripted", "cfg": cfg}''', '''    rep = {"kind": "scripted", "cfg": {k: v for k, v in cfg.items() if k != "overlay"}, "overlay": s}''')
s = s.replace('''    ctx.count(f"cfg:history:{cfg['history']}")''', '''    ctx.count(f"cfg:history:{cfg['history']}")
    ctx.count(f"cfg:overlays:{cfg.get('overlays', 'single')}:phase{s}")
    ages = cfg.get("ages", [])
    ctx.count("cfg:requester-age:" + ("young" if not ages or ages[R] < 65536 - 64 else "wraps" if ages[R] < 65536 else "old"))''')
# cfg generation: ages + overlays
s = s.replace('''"noise": rng.random() < 0.3, "r_first": rng.random() < 0.34, "seed": rng.randrange(1 << 30)}''',
              '''"noise": rng.random() < 0.3, "r_first": rng.random() < 0.34, "seed": rng.randrange(1 << 30),
                               "overlays": "other-first" if rng.random() < 0.3 else "single",
                               "ages": [rng.choice(AGES) for _ in range(8)] if rng.random() < 0.6 else []}''')
s = s.replace('''HISTORIES = ["normal", "repeat", "response", "resp+req", "req+resp"]''', '''HISTORIES = ["normal", "repeat", "response", "resp+req", "req+resp"]
# node ages = Lamport clock (global time) a node starts with: young, around the 16 bit wrap of the identifier, old
AGES = [0, 0, 1, 1000, 65532, 65534, 65535, 65536, 70000, 131071, 2 ** 32 + 5]''')
s = s.replace('''"collide": True, "noise": False, "r_first": False, "seed": 7}''', '''"collide": True, "noise": False, "r_first": False, "seed": 7,
           "overlays": "other-first", "ages": [2 ** 32 + 5, 70000, 65534]}''')
open(p, 'w').write(s)
print('ok')
