def edit(p, pairs):
    s = open(p).read()
    for old, new in pairs:
        assert s.count(old) == 1, (p, s.count(old), old[:70])
        s = s.replace(old, new)
    open(p, 'w').write(s)

edit('/verif/tools/gen_c13.py', [
 ('''f"def atCapacity (max_peers n_peers : Nat) : Bool :=\\n  {guard}\\n\\n"''',
  '''f"def atCapacity (max_peers n_peers : Int) : Bool :=\\n  {guard}\\n\\n"'''),
])
edit('/verif/lean/Ipv8/C13/Model.lean', [
 ('''  maxPeers : Nat := 30       -- Community.max_peers (DEFAULT_MAX_PEERS; the model only has non-negative limits)''',
  '''  maxPeers : Int := 30       -- Community.max_peers (DEFAULT_MAX_PEERS; negative = unlimited)'''),
 ('''  if Gen.atCapacity n0.maxPeers (n0.getPeers s).length then (n0, []) else''',
  '''  if Gen.atCapacity n0.maxPeers ((n0.getPeers s).length : Nat) then (n0, []) else'''),
 ('''/-- Network.discover_services(peer, [s])''', '''/-- Network.remove_peer (churn: a discovery strategy drops a peer that stopped answering): its addresses leave the
    address table, it leaves the verified peers and the service map.  The per-service caches of network.py are not
    modelled: they must be transparent. -/
def Node.removePeer (n : Node) (key : Nat) : Node :=
  match n.findPeer key with
  | none => { n with svcs := n.svcs.filter (fun x => x.1 != key) }
  | some p =>
    { n with all := n.all.filter (fun w => !p.addrs.contains w.addr),
             peers := n.peers.filter (fun q => q.key != key),
             svcs := n.svcs.filter (fun x => x.1 != key) }

/-- Network.discover_services(peer, [s])'''),
 ('''def World.addHost (w : World) (h : Host) (clock : Nat := 0) : World :=''',
  '''/-- the host's NAT mapping changes (box reboot / mapping timeout: same box, new WAN port; roaming: another box and
    public ip): new WAN address, empty filter state.  The LAN address is kept. -/
def World.remap (w : World) (i : Nat) (box : Nat) (wan : Addr) : World :=
  match w.hosts[i]? with
  | none => w
  | some h => { w with hosts := w.hosts.set i { h with box := box, wan := wan, sent := [] } }

def World.removePeerAt (w : World) (i key : Nat) : World :=
  match w.nodes[i]? with
  | none => w
  | some n => { w with nodes := w.nodes.set i (n.removePeer key) }

def World.addHost (w : World) (h : Host) (clock : Nat := 0) : World :='''),
])
edit('/verif/lean/DrvC13.lean', [
 ('''  | ["maxpeers", i, m] =>
    match i.toNat?, m.toNat? with''', '''  | ["remap", i, b, ip, port] =>
    match i.toNat?, b.toNat?, ip.toNat?, port.toNat? with
    | some i, some b, some ip, some port => (w.remap i b ⟨ip, port⟩, "ok")
    | _, _, _, _ => bad
  | ["remove", i, k] =>
    match i.toNat?, k.toNat? with
    | some i, some k => (w.removePeerAt i k, "ok")
    | _, _ => bad
  | ["maxpeers", i, m] =>
    match i.toNat?, m.toInt? with'''),
])
edit('/verif/lean/Ipv8/C13/Props.lean', [
 ('''theorem capacity_guard (m n : Nat) : Gen.atCapacity m n = true ↔ m < n := by
  simp [Gen.atCapacity]''', '''theorem capacity_guard (m n : Int) : Gen.atCapacity m n = true ↔ 0 ≤ m ∧ m < n := by
  simp [Gen.atCapacity]'''),
 ('''/-- on_introduction_request answers as long as the node does not hold MORE than max_peers peers -/''',
  '''/-- on_introduction_request answers as long as the node does not hold MORE than max_peers peers (negative = unlimited) -/'''),
])
print("ok")
