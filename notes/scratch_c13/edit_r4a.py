def edit(p, pairs):
    s = open(p).read()
    for old, new in pairs:
        assert s.count(old) == 1, (p, s.count(old), old[:70])
        s = s.replace(old, new)
    open(p, 'w').write(s)
edit('/verif/lean/Ipv8/C13/Model.lean', [
 ('''/-- Network.discover_services(peer, [s])''', '''/-- The node shuts down and starts again with the same key and socket: a fresh Network filled from
    `Network.snapshot()` / `load_snapshot()` — the preferred address of every verified peer, recorded WITHOUT introducer,
    service or style — fresh overlays (WAN estimate = LAN estimate again, default max_peers, empty blacklist) and a fresh
    my_peer (Lamport clock 0).  Nobody is verified any more. -/
def Node.restart (n : Node) : Node :=
  { key := n.key, myLan := n.myLan, machineIp := n.machineIp, pref := n.pref,
    all := addMissing [] ((n.peers.map (·.v4)).filter (fun a => a != Addr.zero)) }

/-- Network.discover_services(peer, [s])'''),
 ('''def World.removePeerAt (w : World) (i key : Nat) : World :=''', '''def World.restart (w : World) (i : Nat) : World :=
  match w.nodes[i]? with
  | none => w
  | some n => { w with nodes := w.nodes.set i n.restart }

def World.removePeerAt (w : World) (i key : Nat) : World :='''),
])
edit('/verif/lean/DrvC13.lean', [
 ('''  | ["remove", i, k] =>''', '''  | ["restart", i] =>
    match i.toNat? with
    | some i => (w.restart i, "ok")
    | none => bad
  | ["remove", i, k] =>'''),
])
p = '/verif/lean/Ipv8/C13/Script.lean'
s = open(p).read()
add = '''/-! ## restart of the requester: addresses known without an introducer -/

/-- after the whole script R restarts (fresh Network from its snapshot: P's and I's addresses are known, without
    introducer; nobody is verified) -/
def preRestart (c : Cfg) : World := (script c).restart 1

/-- R's first steps after the restart: an (old-style, it has no peers to ask) walk to the introducer, then a walk to what
    its overlay reports as walkable -/
def scriptRestart (c : Cfg) : World := ((preRestart c).walk 1 addrI).walkAll 1

/-- after the restart nobody is verified at R and P's address is known but not walkable; the introduction re-parents it,
    R's walk reaches P, the answer returns, both are verified at each other again -/
def restartOk (c : Cfg) : Bool :=
  let w0 := preRestart c
  let w1 := w0.walk 1 addrI
  let evs := newEvents w1 (fun w => w.walkAll 1)
  (w0.verifiedAt 1 2).isNone && (w0.nodes[1]?.map (fun n => (n.walkable 0).isEmpty && !n.all.isEmpty)) == some true &&
  evs.any (fun e => e.src == 1 && e.isReq && e.delivered 2) &&
  evs.any (fun e => e.src == 2 && e.isResp && e.delivered 1) &&
  mutualDyn (scriptRestart c)

'''
s = s.replace("/-! ## more candidates at the introducer -/", add + "/-! ## more candidates at the introducer -/")
open(p, 'w').write(s)
open('/verif/lean/Ipv8/C13/TableM.lean', 'w').write('''/- C13 — kernel-evaluated table, restart of the requester (parallel build unit) -/
import Ipv8.C13.Script
namespace Ipv8.C13
theorem tableM : allCfgs.all restartOk = true := by decide +kernel
end Ipv8.C13
''')
edit('/verif/lean/Ipv8/C13/Lemmas.lean', [("import Ipv8.C13.TableL\n", "import Ipv8.C13.TableL\nimport Ipv8.C13.TableM\n")])
edit('/verif/lean/Ipv8/C13/Props.lean', [('''/-! ## reachable states outside the tables in which the unchanged code FAILS''', '''/-- restart of the requester: after the whole script R shuts down and starts again with a Network filled from its snapshot
    — P's address is known but has NO introducer (and is therefore not walkable for the overlay), nobody is verified.
    R's next introduction by I re-parents that address (`discover_address` adopts an address whose recorded introducer is
    empty), R's walk reaches P, the answer returns, both are verified at each other again. -/
theorem intro_reaches_after_restart_partial (c : Cfg) : restartOk c = true := of_all tableM c

/-! ## reachable states outside the tables in which the unchanged code FAILS''')])
print("ok")
