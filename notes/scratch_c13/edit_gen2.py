p = '/verif/tools/gen_c13.py'
s = open(p).read()
new_fn = '''
def create_request_parts(com_cls) -> str:
    """create_introduction_request: how the identifier is derived from the claimed global time, and the address fields"""
    fn = _fn(com_cls, "create_introduction_request")
    body = _body(fn)
    st0 = body[0]
    if not (isinstance(st0, ast.Assign) and _src(st0.targets[0]) == "global_time"):
        raise TranslatorError(f"create_introduction_request: expected `global_time = ...` first: `{_src(st0)}`")
    v = st0.value
    if _src(v) == "self.claim_global_time()":
        ident = "t"
    elif (isinstance(v, ast.BinOp) and isinstance(v.op, ast.Mod) and _src(v.left) == "self.claim_global_time()"
          and isinstance(v.right, ast.Constant) and isinstance(v.right.value, int) and v.right.value > 0):
        ident = f"t % {v.right.value}"
    else:
        raise TranslatorError(f"create_introduction_request: identifier derivation outside the subset: `{_src(v)}`")
    pl = next((s for s in body if isinstance(s, ast.If) and "IntroductionRequestPayload" in _src(s)), None)
    if pl is None or len(pl.body) != 1 or len(pl.orelse) != 1:
        raise TranslatorError("create_introduction_request: payload construction `if ...: New... else: ...` not found")
    if _src(pl.test) != "new_style or isinstance(socket_address, UDPv6Address)":
        raise TranslatorError(f"create_introduction_request: unexpected style test `{_src(pl.test)}`")
    tr = Tr("create_introduction_request", set(), {"socket_address"})

    def fields(st, cname, ident_pos):
        if not (isinstance(st, ast.Assign) and isinstance(st.value, ast.Call) and _src(st.value.func) == cname
                and len(st.value.args) > ident_pos):
            raise TranslatorError(f"create_introduction_request: expected `payload = {cname}(...)`")
        if _src(st.value.args[ident_pos]) != "global_time":
            raise TranslatorError(f"create_introduction_request: {cname} identifier is `{_src(st.value.args[ident_pos])}`, "
                                  "expected `global_time`")
        res = []
        for a in st.value.args[:3]:
            res.append("self.my_estimated_wan" if _src(a) == "self.my_preferred_address()" else tr.expr(a))
        return res
    f_new = fields(pl.body[0], "NewIntroductionRequestPayload", 3)
    f_old = fields(pl.orelse[0], "IntroductionRequestPayload", 5)
    if f_new != f_old:
        raise TranslatorError(f"create_introduction_request: old- and new-style payloads carry different addresses: {f_old} / {f_new}")
    return ("/-- create_introduction_request: the identifier put into the request, from the claimed global time `t` -/\\n"
            f"def requestIdentifier (t : Nat) : Nat :=\\n  {ident}\\n\\n"
            "/-- the three address fields of the request (identical for both styles): destination, source lan, source wan -/\\n"
            "def reqFields (self : SelfView) (socket_address : Addr) : IntroReqView :=\\n"
            f"  ⟨{f_old[0]}, {f_old[1]}, {f_old[2]}⟩\\n")


def ident_truncation(pay_tree) -> str:
    """which payload classes reduce the identifier modulo 65536 themselves (old-style __init__), which pack it raw as 'H'"""
    lines = ["/-- does the payload class reduce its identifier modulo 65536 itself?  (otherwise it is packed raw as an",
             "    unsigned 16 bit field and a larger value is a PackError) -/", "def identTruncated : PayloadKind → Bool"]
    for py, lean in PAYLOADS.items():
        cls = _cls(pay_tree, py, PAY)
        init = next((n for n in cls.body if isinstance(n, ast.FunctionDef) and n.name == "__init__"), None)
        trunc = False
        if init is not None:
            for st in ast.walk(init):
                if isinstance(st, ast.Assign) and _src(st.targets[0]) == "self.identifier":
                    if _src(st.value) == "identifier % 65536":
                        trunc = True
                    elif _src(st.value) != "identifier":
                        raise TranslatorError(f"{py}.__init__: identifier handling outside the subset: `{_src(st)}`")
        fl = next((n for n in cls.body if isinstance(n, ast.Assign) and _src(n.targets[0]) == "format_list"), None)
        if fl is None:
            raise TranslatorError(f"{py}: no format_list")
        fmt = ast.literal_eval(fl.value)
        if init is None:   # VariablePayload: the identifier's position in `names` must be an 'H' field
            if "H" not in fmt:
                raise TranslatorError(f"{py}: identifier is not a 16 bit field: {fmt}")
        lines.append(f"  | .{lean} => {'true' if trunc else 'false'}")
    return "\\n".join(lines) + "\\n"

'''
s = s.replace("\ndef translate() -> str:", new_fn + "\ndef translate() -> str:")
s = s.replace('''out += ["", puncture_sends(cc), intro_response_parts(cc), create_response_parts(cc), intro_request_parts(cc),''',
              '''out += ["", puncture_sends(cc), intro_response_parts(cc), create_response_parts(cc), intro_request_parts(cc),
            create_request_parts(cc), ident_truncation(pay),''')
s = s.replace('''    if len(mk.value.args) < 4 or _src(mk.value.args[3]) != "new_style":''', '''    if _src(mk.value.args[2]) != "payload.identifier":
        raise TranslatorError("on_puncture_request: create_puncture must be handed payload.identifier as 3rd argument")
    if len(mk.value.args) < 4 or _src(mk.value.args[3]) != "new_style":''')
s = s.replace('''    kw = {k.arg: _src(k.value) for k in mk.value.keywords}
    if kw.get("new_style") != "new_style":
        raise TranslatorError("create_introduction_response: puncture request must inherit new_style")''', '''    kw = {k.arg: _src(k.value) for k in mk.value.keywords}
    if kw.get("new_style") != "new_style":
        raise TranslatorError("create_introduction_response: puncture request must inherit new_style")
    if _src(mk.value.args[2]) != "identifier":
        raise TranslatorError("create_introduction_response: puncture request must carry the request's identifier")''')
s = s.replace('''  * Community.on_introduction_request: LAN-address learning''', '''  * Community.create_introduction_request: identifier = claimed global time [% N], address fields       -> Gen.requestIdentifier / Gen.reqFields
  * payload classes: which reduce the identifier modulo 65536 in __init__, which pack it raw as 'H'    -> Gen.identTruncated
  * Community.on_introduction_request: LAN-address learning''')
open(p, 'w').write(s)
