p = '/verif/harness/c13.py'
s = open(p).read()
def rep(old, new, cnt=1):
    global s
    assert s.count(old) == cnt, (s.count(old), old[:70])
    s = s.replace(old, new)
rep('''LEAN_TARGETS = ["Ipv8.C13.Props"]''', '''import sys as _sys

# the theorems over the heavy kernel tables (PropsThorough.lean) are built and re-proved in the thorough tier only
LEAN_TARGETS = ["Ipv8.C13.Props"] + (["Ipv8.C13.PropsThorough"] if "thorough" in _sys.argv[1:] else [])
LEANCHECKER_MODULES = ["Ipv8.C13.PropsThorough"] if "thorough" in _sys.argv[1:] else []''')
rep('''def table_cfgs(rng, variants: int, placements=PLACEMENTS, history="normal", styles=("old", "new"), klass="std"):
    for tR in TYPES:
        for tP in TYPES:
            for pl in placements:
                for style in styles:''', '''def table_cfgs(rng, variants: int, placements=PLACEMENTS, history="normal", styles=("old", "new"), klass="std",
               thin: bool = False):
    """every (requester type, introduced type, placement, style); `thin` (quick tier): one of the two styles per
    (types, placement), alternating — every NAT type pair x placement still occurs, each style in half of them"""
    for a, tR in enumerate(TYPES):
        for b, tP in enumerate(TYPES):
            for c, pl in enumerate(placements):
                for style in (styles if not thin or len(styles) == 1 else (styles[(a + b + c) % 2],)):''')
rep('''    for hist in HISTORIES:
        for cfg in table_cfgs(ctx.rng, ctx.scale(1, 4), history=hist):
            scripted(ctx, cfg, use_model, batch)
            if len(batch) >= 200:
                flush(ctx, batch)
    for klass, (pls, styles) in CLASSES.items():
        for cfg in table_cfgs(ctx.rng, ctx.scale(1, 3), placements=pls, styles=styles, klass=klass):''',
 '''    quick = not ctx.thorough()
    for hist in HISTORIES:
        # quick: the normal history over the whole table, the other four thinned (one style per types x placement)
        for cfg in table_cfgs(ctx.rng, ctx.scale(1, 4), history=hist, thin=quick and hist != "normal"):
            scripted(ctx, cfg, use_model, batch)
            if len(batch) >= 200:
                flush(ctx, batch)
    for klass, (pls, styles) in CLASSES.items():
        for cfg in table_cfgs(ctx.rng, ctx.scale(1, 3), placements=pls, styles=styles, klass=klass, thin=quick):''')
rep('''    for _ in range(ctx.scale(60, 2000)):
        random_history(ctx, ctx.rng.randrange(1 << 30), use_model, batch)''', '''    for _ in range(ctx.scale(40, 2000)):
        random_history(ctx, ctx.rng.randrange(1 << 30), use_model, batch)''')
rep('''    lan_table_check(ctx, False, [])
    for klass, (pls, styles) in CLASSES.items():
        for cfg in table_cfgs(ctx.rng, 1, placements=pls, styles=styles, klass=klass):
            scripted(ctx, cfg, False, [])
            if len(ctx.failures) >= 20:
                return
    for hist in ("normal", "repeat"):
        for cfg in table_cfgs(ctx.rng, 1, history=hist):
            scripted(ctx, cfg, False, [])
            if len(ctx.failures) >= 20:
                return''', '''    lan_table_check(ctx, False, [])
    for klass, (pls, styles) in CLASSES.items():
        for cfg in table_cfgs(ctx.rng, 1, placements=pls, styles=styles, klass=klass, thin=True):
            scripted(ctx, cfg, False, [])
            if len(ctx.failures) >= 20:
                return''')
rep('''A fixed number of cases (every class once, two histories of the table once: about a minute)."""''',
    '''A fixed number of cases (every scripted class once, thinned: well under a minute)."""''')
open(p, 'w').write(s)
print("ok")
