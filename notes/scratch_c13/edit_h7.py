p = '/verif/harness/c13.py'
s = open(p).read()
def rep(old, new, cnt=1):
    global s
    assert s.count(old) == cnt, (s.count(old), old[:70])
    s = s.replace(old, new)
rep('''            bq = lay.new_box(hosts_net := None)
            Q = w.add_host(w.net.hosts[P].lan, (lay.boxes[bq]["ip"], 40000 + rng.randrange(20000)), bq, "none")''',
    '''            rbox = w.net.hosts[R].box
            bq = lay.new_box(lay.boxes[rbox]["net"] if rbox else None)
            Q = w.add_host(w.net.hosts[P].lan, (lay.boxes[bq]["ip"], 40000 + rng.randrange(20000)), bq, "none")''')
rep('''def table_cfgs(rng, variants: int, placements=PLACEMENTS, history="normal"):
    for tR in TYPES:
        for tP in TYPES:
            for pl in placements:
                for style in ("old", "new"):
                    for _v in range(variants):
                        yield {"tR": tR, "tP": tP, "placement": pl, "style": style, "history": history,''',
    '''# further scenario classes: (placements, styles) each is run over, with history "normal"
CLASSES = {
    "lan-collision": (["same", "diff"], ("old", "new")),    # requester already knows a peer with the introduced peer's LAN address
    "foreign-entry": (["diff", "same", "public"], ("old", "new")),  # address first introduced through another overlay
    "bootstrap": (PLACEMENTS, ("old",)),                     # the introducer is a blacklisted bootstrap server
    "own-machine": (["public", "diff"], ("old", "new")),     # introducer behind a NAT, introduced peer on its machine
    "capacity": (["diff", "same"], ("old",)),                # introducer holds exactly max_peers peers
}


def table_cfgs(rng, variants: int, placements=PLACEMENTS, history="normal", styles=("old", "new"), klass="std"):
    for tR in TYPES:
        for tP in TYPES:
            for pl in placements:
                for style in styles:
                    for _v in range(variants):
                        yield {"klass": klass,
                               "tR": tR, "tP": tP, "placement": pl, "style": style, "history": history,''')
rep('''                               "overlays": "other-first" if rng.random() < 0.3 else "single",''',
    '''                               "overlays": "other-first" if klass == "std" and rng.random() < 0.3 else "single",''')
rep('''    if ctx.thorough():
        # exhaustive small scope''', '''    for klass, (pls, styles) in CLASSES.items():
        for cfg in table_cfgs(ctx.rng, ctx.scale(1, 3), placements=pls, styles=styles, klass=klass):
            scripted(ctx, cfg, use_model, batch)
            if len(batch) >= 200:
                flush(ctx, batch)
    if ctx.thorough():
        # exhaustive small scope''')
rep('''    for hist in HISTORIES:
        for cfg in table_cfgs(ctx.rng, 3, history=hist):
            scripted(ctx, cfg, False, [])
            if len(ctx.failures) >= 20:
                return''', '''    for hist in HISTORIES:
        for cfg in table_cfgs(ctx.rng, 3, history=hist):
            scripted(ctx, cfg, False, [])
            if len(ctx.failures) >= 20:
                return
    for klass, (pls, styles) in CLASSES.items():
        for cfg in table_cfgs(ctx.rng, 2, placements=pls, styles=styles, klass=klass):
            scripted(ctx, cfg, False, [])
            if len(ctx.failures) >= 20:
                return''')
rep('''           "overlays": "other-first", "ages": [2 ** 32 + 5, 70000, 65534]}''', '''           "overlays": "other-first", "ages": [2 ** 32 + 5, 70000, 65534], "klass": "std"}''')
open(p, 'w').write(s)
print("ok")
