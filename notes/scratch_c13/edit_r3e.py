p = '/verif/harness/c13.py'
s = open(p).read()
old = '''            r = rng.random()
            if r < 0.35:
                j = rng.randrange(nh)
                a = rng.choice([hosts[j].wan, hosts[j].wan, hosts[j].lan])'''
assert s.count(old) == 1
s = s.replace(old, '''            r = rng.random()
            if rng.random() < 0.08:
                boxed = [h.idx for h in hosts if h.box]
                if boxed:
                    j = rng.choice(boxed)
                    roam = rng.random() < 0.4
                    ctx.count("op:roam" if roam else "op:remap")
                    w.remap(j, *new_mapping(lay, w, j, roam))
            if rng.random() < 0.06:
                ps = sorted(set(w.peers(i, 0)) | set(w.peers(i, 1)))
                if ps:
                    ctx.count("op:remove-peer")
                    w.remove_peer(i, rng.choice(ps))
            if r < 0.35:
                j = rng.randrange(nh)
                a = rng.choice([hosts[j].wan, hosts[j].wan, hosts[j].lan])''')
open(p, 'w').write(s)
