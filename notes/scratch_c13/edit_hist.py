p = '/verif/harness/c13.py'
s = open(p).read()
old = s[s.index('        if history == "normal":\n            for c in cands:'):s.index('        if cfg.get("noise"):')]
new = '''        def by_request(repeat: bool):
            # the candidate walks to the introducer; with `repeat` it contacts it once more AFTER it learned its own WAN
            # address from the first response (its request then carries source_wan_address != source_lan_address)
            for c in cands:
                w.walk(c, iaddr)
                if new:
                    w.ask(c, I)
                if repeat:
                    if new:
                        w.ask(c, I)
                    else:
                        w.walk(c, iaddr)

        def by_response():
            # the introducer learns the candidates from their RESPONSES.  A second public node X introduces each
            # candidate to I (X's puncture request makes the candidate open its NAT towards I), then I walks to it.
            for c in cands:
                w.walk(c, hosts[X].wan)
                if new:
                    w.ask(c, X)
            for c in cands:
                w.set_pref(X, [c] + [k for k in range(n) if k not in (c, X)])
                if c == cands[0]:
                    w.walk(I, hosts[X].wan)
                else:
                    w.ask(I, X)
                for a, _ns in w.walkable(I):
                    w.walk(I, a)

        if history == "normal":
            by_request(False)
        elif history == "repeat":
            by_request(True)
        elif history == "response":
            by_response()
        elif history == "resp+req":       # learned from the response first, then the candidate also walks to the introducer
            by_response()                 # (it knows its WAN address by then: X's response told it)
            by_request(False)
        elif history == "req+resp":       # learned from the request first, then the introducer asks the candidate itself
            by_request(False)
            for c in cands:
                w.ask(I, c)
        else:
            raise ValueError(history)
'''
s = s.replace(old, new)
s = s.replace('''X = w.add_host(*lay.public_host(), "none") if cfg["history"] != "normal" else None''',
              '''X = w.add_host(*lay.public_host(), "none") if cfg["history"] in ("response", "resp+req") else None''')
s = s.replace('''    for cfg in table_cfgs(ctx.rng, ctx.scale(2, 12)):
        scripted(ctx, cfg, use_model, batch)
        if len(batch) >= 200:
            flush(ctx, batch)
    # the other history: the introducer learned the candidates from their responses (it was introduced to them by X)
    for cfg in table_cfgs(ctx.rng, ctx.scale(1, 6), history="response"):
        scripted(ctx, cfg, use_model, batch)
        if len(batch) >= 200:
            flush(ctx, batch)
''', '''    # every way the introducer can have learned the candidates (HISTORIES) x the whole configuration table
    for hist in HISTORIES:
        for cfg in table_cfgs(ctx.rng, ctx.scale(1, 4), history=hist):
            scripted(ctx, cfg, use_model, batch)
            if len(batch) >= 200:
                flush(ctx, batch)
''')
s = s.replace('''        for hist in ("normal", "response"):
            for base in table_cfgs(ctx.rng, 1, history=hist):
                for ncand in range(1, 6):
                    for ports in ("preserve", "remap"):
                        for same_port in (True, False):
                            cfg = dict(base, ncand=ncand, ports=ports, same_port=same_port, seed=ctx.rng.randrange(1 << 30))
                            scripted(ctx, cfg, use_model, batch)
                            ctx.count("exhaustive-scope")
                            if len(batch) >= 200:
                                flush(ctx, batch)''', '''        for hist in HISTORIES:
            for base in table_cfgs(ctx.rng, 1, history=hist):
                for ncand in range(1, 6):
                    for ports in ("preserve", "remap"):
                        cfg = dict(base, ncand=ncand, ports=ports, seed=ctx.rng.randrange(1 << 30))
                        scripted(ctx, cfg, use_model, batch)
                        ctx.count("exhaustive-scope")
                        if len(batch) >= 200:
                            flush(ctx, batch)''')
s = s.replace('# exhaustive small scope: every configuration x every candidate count x port policy x port numbering x history',
              '# exhaustive small scope: every configuration x every candidate count x port policy x history')
s = s.replace('''    for hist, v in (("normal", 6), ("response", 3)):
        for cfg in table_cfgs(ctx.rng, v, history=hist):''', '''    for hist in HISTORIES:
        for cfg in table_cfgs(ctx.rng, 3, history=hist):''')
s = s.replace('''PLACEMENTS = ["public", "diff", "same", "rPub", "pPub"]''', '''PLACEMENTS = ["public", "diff", "same", "rPub", "pPub"]
# how the introducer learned the candidates: their first request | repeated requests, the later ones sent after the
# candidate learned its WAN address | their response only | response, then a request | request, then a response
HISTORIES = ["normal", "repeat", "response", "resp+req", "req+resp"]''')
s = s.replace('''"history {introduced peer walked to the introducer, introducer learned it from its response via a fourth node} x "''',
              '''"history of how the introducer learned the candidates {first request, repeated requests after the candidate knows "
        "its WAN address, response only (via a fourth node), response then request, request then response} x "''')
s = s.replace('''it knows the introduced peer either from that peer's request (the peer walked to it) or from its response (the introducer was introduced to it by a fourth node and walked to it) — both histories are checked",''',
              '''it knows the introduced peer from that peer's first request, from repeated requests, from its response (the introducer was introduced to it by a fourth node and walked to it), or both ways in either order — all five histories are checked",''')
open(p, 'w').write(s)
print("ok", s.count("HISTORIES"))
