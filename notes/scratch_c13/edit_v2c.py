p = '/verif/harness/c13.py'
s = open(p).read()
def rep(old, new, cnt=1):
    global s
    assert s.count(old) == cnt, (s.count(old), old[:70])
    s = s.replace(old, new)

# World.relan
rep('''    def remove_peer(self, i: int, k: int):''', '''    def relan(self, i: int, box: int, lan, wan):
        """the host moves to a network with another LAN numbering (new LAN address, box, WAN mapping)"""
        h = self.net.hosts[i]
        h.lan, h.box, h.wan, h.sent = lan, box, wan, []
        self.lines.append(f"relan {i} {box} {ip2int(lan[0])} {lan[1]} {ip2int(wan[0])} {wan[1]}")
        self.expect.append("ok")

    def remove_peer(self, i: int, k: int):''')
# port-reuse: an extra candidate Q in the requester's box
rep('''        X = w.add_host(*lay.public_host(), "none") if (cfg["history"] in ("response", "resp+req")''',
    '''        QR = None
        if klass == "port-reuse" and w.net.hosts[R].box:
            QR = w.add_host(*lay.boxed_host(w.net.hosts[R].box), rng.choice(TYPES))
            extras.append(QR)
        X = w.add_host(*lay.public_host(), "none") if (cfg["history"] in ("response", "resp+req")''')
rep('''        w.set_pref(I, ([R] if cfg.get("r_first") else []) + [P]''', '''        w.set_pref(I, ([R] if cfg.get("r_first") or klass == "port-reuse" else []) + [P]''')
# hooks
rep('''            if klass == "lan-collision" and s == 0:''', '''            if klass == "stale-estimate" and s == 0 and hosts[P].box:
                # P is a peer of I in overlay 1 too, roams to another public ip and is refreshed at I through overlay 1 only
                w.walk(P, iaddr, 1)
                w.remap(P, *new_mapping(lay, w, P, True))
                w.walk(P, iaddr, 1)
            if klass == "lan-change" and hosts[R].box:
                # P moves INTO the requester's box (other LAN address there) and refreshes at I
                nl, nw_, nb = lay.boxed_host(hosts[R].box)
                w.relan(P, nb, nl, nw_)
                if new and I in w.peers(P, s):
                    w.ask(P, I, s)
                else:
                    w.walk(P, iaddr, s)
            if klass == "port-reuse" and QR is not None:
                # Q's mapping is renewed and refreshed at I; Q's OLD public port is then given to the requester
                old = hosts[QR].wan
                w.remap(QR, *new_mapping(lay, w, QR, False))
                w.walk(QR, iaddr, s)
                w.remap(R, hosts[R].box, old)
                ctx.count("port-reuse:requester-on-released-port")
            if klass == "lan-collision" and s == 0:''')
rep('''    "churn": (["diff", "same", "rPub"], ("old", "new")),              # unlimited introducer drops + re-verifies the peer
}''', '''    "churn": (["diff", "same", "rPub"], ("old", "new")),              # unlimited introducer drops + re-verifies the peer
    "stale-estimate": (["same"], ("old", "new")),     # known finding 3: P roams, refreshed at I through the other overlay only
    "lan-change": (["diff", "pPub"], ("old", "new")),  # known finding 4: P moves into R's LAN, my_estimated_lan is cached
    "port-reuse": (["diff", "same", "pPub"], ("old", "new")),   # a released WAN port of another peer is given to the requester
}''')
# diagnose: P-side causes + robustness
rep('''    node = w.net.hosts[R].nodes[s]
    net = node.network
    pkey = w.e["keys"][P].pub().key_to_bin()
    for peer in net.verified_peers:''', '''    hr, hp = w.net.hosts[R], w.net.hosts[P]
    pnode = hp.nodes[s]
    if tuple(pnode.my_estimated_lan) != hp.lan:
        return "stale-lan"       # (d) the introduced peer advertises a LAN address it no longer has
    same = hr.box != 0 and hr.box == hp.box
    if not same and pnode.my_estimated_wan[0] != hp.wan[0] and pnode.my_estimated_wan[0] == hr.wan[0]:
        return "stale-wan"       # (c) its WAN estimate IN THIS OVERLAY is stale and equals the requester's public ip
    node = hr.nodes[s]
    net = node.network
    pkey = w.e["keys"][P].pub().key_to_bin()
    for peer in net.verified_peers:''')
rep('''def diagnose(w: World, R: int, P: int, s: int, named: set):''', '''def diagnose(w: World, R: int, P: int, s: int, named: set):
    try:
        return _diagnose(w, R, P, s, named)
    except (AttributeError, KeyError, TypeError):     # private Network fields renamed: no diagnosis, nothing is excused
        return None


def _diagnose(w: World, R: int, P: int, s: int, named: set):''')
rep('''    known_sig = {"collision": "get_walkable_addresses:address-of-another-verified-peer",
                 "foreign": "get_walkable_addresses:entry-of-another-overlay"}.get(cause)
    ctx.count("diagnosed:" + str(cause))

    def fail(sig, what):
        if known_sig is not None and sig in CONSEQUENCES:
            seen = ctx.extra.setdefault("known_finding_occurrences", {})
            seen[known_sig] = seen.get(known_sig, 0) + 1
            if seen[known_sig] > 3:
                return''', '''    known_sig = {"collision": "get_walkable_addresses:address-of-another-verified-peer",
                 "foreign": "get_walkable_addresses:entry-of-another-overlay",
                 "stale-wan": "on_puncture_request:stale-wan-estimate-of-overlay",
                 "stale-lan": "my_estimated_lan:stale-after-lan-change"}.get(cause)
    consequences = CONSEQUENCES | {"stale-wan": {"on_puncture_request:target"},
                                   "stale-lan": {"create_introduction_response:lan-address", "same-nat:wan-path",
                                                 "same-nat:requester-address", "same-nat:introduced-address"}}.get(cause, set())
    ctx.count("diagnosed:" + str(cause))
    reported = []

    def fail(sig, what):
        if known_sig is not None and sig in consequences:
            if reported:
                return                      # one report per case
            reported.append(sig)
            seen = ctx.extra.setdefault("known_finding_cases", {})
            seen[known_sig] = seen.get(known_sig, 0) + 1
            if seen[known_sig] > 3:
                return''')
# lan-address oracle: required only where it is needed
rep('''    if fields["li"] != sa(hp.lan):''', '''    # the LAN address is needed by a requester behind the same box; elsewhere an introducer may also withhold it
    if fields["li"] != sa(hp.lan) and (same or fields["li"] != "0:0"):''')
# count-based search
rep('''    t0 = ctx.elapsed()
    lan_table_check(ctx, False, [])
    for klass, (pls, styles) in CLASSES.items():
        for cfg in table_cfgs(ctx.rng, 1, placements=pls, styles=styles, klass=klass):
            scripted(ctx, cfg, False, [])
            if len(ctx.failures) >= 20 or ctx.elapsed() - t0 > 60:
                return
    for hist in HISTORIES:
        for cfg in table_cfgs(ctx.rng, 1, history=hist):
            scripted(ctx, cfg, False, [])
            if len(ctx.failures) >= 20 or ctx.elapsed() - t0 > 60:
                return''', '''    lan_table_check(ctx, False, [])
    for klass, (pls, styles) in CLASSES.items():
        for cfg in table_cfgs(ctx.rng, 1, placements=pls, styles=styles, klass=klass):
            scripted(ctx, cfg, False, [])
            if len(ctx.failures) >= 20:
                return
    for hist in ("normal", "repeat"):
        for cfg in table_cfgs(ctx.rng, 1, history=hist):
            scripted(ctx, cfg, False, [])
            if len(ctx.failures) >= 20:
                return''')
rep('''Bounded (about a minute) so that a failing quick run stays within a few minutes."""''',
    '''A fixed number of cases (every class once, two histories of the table once: about a minute)."""''')
open(p, 'w').write(s)
print("ok")
