p = '/verif/lean/Ipv8/C13/Script.lean'
s = open(p).read()
add = '''/-! ## address changes and churn -/

/-- expected outcome read from the CURRENT hosts of the world (addresses may have changed during the history): each of
    R (1) and P (2) is in the other's get_peers() of overlay s under the LAN address when they share a box now, else under
    the WAN address -/
def mutualDyn (w : World) (s : Nat := 0) : Bool :=
  match w.hosts[1]?, w.hosts[2]? with
  | some hR, some hP =>
    let same := hR.box != 0 && hR.box == hP.box
    (match w.verifiedAt 1 2 s with | some p => p.v4 == (if same then hP.lan else hP.wan) | none => false) &&
    (match w.verifiedAt 2 1 s with | some p => p.v4 == (if same then hR.lan else hR.wan) | none => false)
  | _, _ => false

/-- a boxed host's mapping is renewed (box reboot / mapping timeout): same box and ip, another port, empty filter -/
def reboot (w : World) (i : Nat) (newPort : Nat) : World :=
  match w.hosts[i]? with
  | some h => if h.box != 0 then w.remap i h.box ⟨h.wan.ip, newPort⟩ else w
  | none => w

/-- P's mapping is renewed after the introducer learned P; P contacts the introducer again from the new mapping; then
    the script -/
def scriptIntroducedRemapped (c : Cfg) : World :=
  let w := reboot (prehistory c) 2 41002
  let w := if c.newStyle then w.ask 2 0 else w.walk 2 addrI
  (introduce c w).walkAll 1

/-- R is known to the introducer (and was already handed P's addresses once, without walking); then R's mapping is
    renewed; then the script: the response must reach, and the puncture must aim at, the new mapping -/
def scriptRequesterRemapped (c : Cfg) : World :=
  let w := reboot (introduce c (prehistory c)) 1 41001
  (introduce c w).walkAll 1

/-- R is known to the introducer and has a WAN estimate; then R ROAMS to another box with another public ip (LAN address
    kept); then the script.  For placement `same` R leaves the box it shared with P: P's handed-out WAN ip equals R's OLD
    estimate, so R must adopt the new estimate before classifying the introduction. -/
def scriptRequesterRoams (c : Cfg) : World :=
  let w := (introduce c (prehistory c)).remap 1 5 ⟨ipv4 8 8 8 8, 45001⟩
  (introduce c w).walkAll 1

/-- churn at an introducer without peer limit (max_peers = -1): P's mapping is renewed, the introducer drops P
    (Network.remove_peer), P walks to it again from the new mapping; then the script -/
def scriptChurn (c : Cfg) : World :=
  let w0 := match (setPref (world0 c) 0 [2]).nodes[0]? with
    | some n => { setPref (world0 c) 0 [2] with nodes := (setPref (world0 c) 0 [2]).nodes.set 0 { n with maxPeers := -1 } }
    | none => setPref (world0 c) 0 [2]
  let w := (reboot (prehistoryOn c 0 w0) 2 41002).removePeerAt 0 2
  let w := if c.newStyle then (w.walk 2 addrI).ask 2 0 else w.walk 2 addrI
  (introduce c w).walkAll 1

'''
s = s.replace("/-! ## more candidates at the introducer -/", add + "/-! ## more candidates at the introducer -/")
open(p, 'w').write(s)
for name, body in [("TableJ", "theorem tableJ : allCfgs.all (fun c => mutualDyn (scriptIntroducedRemapped c)) = true := by decide +kernel"),
                   ("TableK", "theorem tableK : allCfgs.all (fun c => mutualDyn (scriptRequesterRemapped c) && mutualDyn (scriptRequesterRoams c)) = true := by decide +kernel"),
                   ("TableL", "theorem tableL : allCfgs.all (fun c => mutualDyn (scriptChurn c)) = true := by decide +kernel")]:
    open(f'/verif/lean/Ipv8/C13/{name}.lean', 'w').write(
        f"/- C13 — kernel-evaluated table, address changes / churn (parallel build unit) -/\nimport Ipv8.C13.Script\nnamespace Ipv8.C13\n{body}\nend Ipv8.C13\n")
