p = '/verif/harness/c13.py'
s = open(p).read()
def rep(old, new, cnt=1):
    global s
    assert s.count(old) == cnt, (s.count(old), old[:70])
    s = s.replace(old, new)
# speed: fewer random histories in quick
rep('''    for _ in range(ctx.scale(150, 2500)):
        random_history(ctx, ctx.rng.randrange(1 << 30), use_model, batch)''', '''    for _ in range(ctx.scale(60, 2000)):
        random_history(ctx, ctx.rng.randrange(1 << 30), use_model, batch)''')
# class odd-lan: LANs numbered outside RFC 1918
rep('''LAN_NETS = [''', '''ODD_LAN_NETS = ["100.64.0", "100.127.255", "100.100.7", "198.18.5", "25.11.12", "172.32.0", "192.169.1", "11.0.0"]
LAN_NETS = [''')
rep('''        elif pl == "diff":
            b1 = lay.new_box()
            b2 = lay.new_box(lay.boxes[b1]["net"] if cfg.get("collide") else None)''', '''        elif pl == "diff":
            b1 = lay.new_box(rng.choice(ODD_LAN_NETS) if klass == "odd-lan" else None)
            b2 = lay.new_box(lay.boxes[b1]["net"] if cfg.get("collide") else
                             (rng.choice(ODD_LAN_NETS) if klass == "odd-lan" else None))''')
rep('''        elif pl == "same":
            b1 = lay.new_box()''', '''        elif pl == "same":
            b1 = lay.new_box(rng.choice(ODD_LAN_NETS) if klass == "odd-lan" else None)''')
rep('''    "tracker": (PLACEMENTS, ("old",)),''', '''    "odd-lan": (["same", "diff"], ("old", "new")),     # LAN numbered outside RFC 1918 (carrier-grade NAT, other address space)
    "tracker": (PLACEMENTS, ("old",)),''')
rep('''"class:tracker", "class:peer-limit", "class:strategy", "strategy:steps",''', '''"class:tracker", "class:peer-limit", "class:strategy", "strategy:steps", "class:odd-lan",''')
rep('''tracker (the introducer is scripts/tracker_service.py),''', '''odd-lan (same-NAT / different-NAT pairs on LANs numbered outside RFC 1918), tracker (the introducer is scripts/tracker_service.py),''')
open(p, 'w').write(s)
print("ok")
