p = '/verif/harness/c13.py'
s = open(p).read()
def rep(old, new, cnt=1):
    global s
    assert s.count(old) == cnt, (s.count(old), old[:70])
    s = s.replace(old, new)
rep('''        phase(0)              # … and are then introduced to each other in overlay 0''', '''        phase(0)              # … and are then introduced to each other in overlay 0
        if klass == "bootstrap" and extras:
            # a second introduction hands the requester an address it has on its blacklist (another bootstrap server):
            # it must be neither recorded as walkable nor walked to
            e0 = extras[0]
            w.blacklist(R, hosts[e0].wan)
            w.set_pref(I, [e0] + [k for k in range(n) if k not in (e0, I)])
            w.walk(R, iaddr, 0)
            w.query_all()
            if hosts[e0].wan in [a for a, _ in w.walkable(R, 0)]:
                ctx.oracle_fail("discover_address:blacklisted-address-walkable",
                                "an introduced address that is on the requester's blacklist is reported as walkable",
                                {"kind": "scripted", "cfg": cfg})''')
rep('''        for _ in range(cfg["ncand"] - 1):
            where = rng.choice(["public", "own", "own", "share"])''', '''        for _ in range(max(cfg["ncand"], 2 if klass == "bootstrap" else 1) - 1):
            where = rng.choice(["public", "own", "own", "share"])''')
open(p, 'w').write(s)
print("ok")
