p = '/verif/lean/Ipv8/C13/Props.lean'
s = open(p).read()
i = s.index("/-- address changes: (1) the introduced peer's NAT mapping is renewed")
j = s.index("/-! ## requester states outside the tables in which the unchanged code FAILS")
new = '''/-- address changes, rows in which the host concerned is behind a box (for a public host there is no mapping to renew):
    (1) the introduced peer's mapping is renewed after the introducer learned it and it contacts the introducer again from
    the new mapping; (2) the requester's mapping is renewed while it is a known peer of the introducer; (3) the requester
    roams to another public ip (for placement `same`: away from the box it shared with the introduced peer).  In each case
    (`allOkDyn`, addresses as they are NOW): the puncture request names the requester's current WAN address and reaches
    the introduced peer, which punctures towards it; the response hands out the introduced peer's current WAN address;
    a walk of the requester reaches the introduced peer and the answer returns; both are in each other's get_peers()
    under the current addresses.  (No LAN-path clause here.) -/
theorem intro_reaches_after_address_change_partial (c : Cfg) :
    (boxedP c = true → allOkDyn c (preIntroducedRemapped c) = true) ∧
    (boxedR c = true → allOkDyn c (preRequesterRemapped c) = true ∧ allOkDyn c (preRequesterRoams c) = true) := by
  refine ⟨fun hp => ?_, fun hr => ?_⟩
  · exact List.all_eq_true.mp tableJ c (by simp [List.mem_filter, mem_allCfgs, hp])
  · have h := List.all_eq_true.mp tableK c (by simp [List.mem_filter, mem_allCfgs, hr])
    simpa [Bool.and_eq_true] using h
example : boxedR ⟨.portRestricted, .portRestricted, .same, false⟩ = true ∧
    ((preRequesterRoams ⟨.portRestricted, .portRestricted, .same, false⟩).hosts[1]?.map (·.wan)) = some ⟨ipv4 8 8 8 8, 45001⟩ := by
  decide +kernel

/-- churn at an introducer without peer limit (max_peers = -1), rows with a boxed introduced peer: its mapping is renewed,
    the introducer drops it (Network.remove_peer) and verifies it again from its next request; same conclusion
    (`allOkDyn`) as above -/
theorem intro_reaches_after_churn_partial (c : Cfg) (hp : boxedP c = true) : allOkDyn c (preChurn c) = true :=
  List.all_eq_true.mp tableL c (by simp [List.mem_filter, mem_allCfgs, hp])

'''
s = s[:i] + new + s[j:]
s = s.replace("/-! ## requester states outside the tables in which the unchanged code FAILS (known findings, witnesses) -/",
              "/-! ## reachable states outside the tables in which the unchanged code FAILS (known findings, witnesses) — not exhaustive -/")
marker = "/-! ## facts for all inputs -/"
assert s.count(marker) == 1
s = s.replace(marker, '''/-- KNOWN FINDING (c), on the INTRODUCED peer's side: `my_estimated_wan` is kept per overlay, the peer record at the
    introducer per Network.  P (same box as R, both port-restricted) is a peer of I in overlays 0 and 1, roams to another
    public ip and is refreshed at I through overlay 1 only.  Introduced in overlay 0, P's `on_puncture_request` still
    believes it shares R's public ip, takes the same-NAT branch and punctures to the LAN walker field — the introducer's
    own address; R's request is filtered; nobody is verified. -/
theorem stale_wan_estimate_blocks_puncture :
    staleEstimateWorld.trace.any (fun e => e.src == 2 && e.isPuncture && e.dst == addrI) = true ∧
    staleEstimateWorld.trace.any (fun e => e.src == 1 && e.isReq && e.out == .drop .filtered) = true ∧
    mutualDyn staleEstimateWorld = false := by
  decide +kernel

/-- KNOWN FINDING (d): `my_estimated_lan` is computed once and cached.  P moves into R's box and gets another LAN address
    there, refreshes at I still advertising the old one; I hands out that stale LAN address, the same-NAT requester walks
    only to it (no host there) and the pair never connects. -/
theorem stale_lan_estimate_blocks_same_nat :
    (staleLanWorld.hosts[2]?.map (·.lan)) = some ⟨ipv4 192 168 1 77, 8090⟩ ∧
    (staleLanWorld.nodes[2]?.map (·.myLan)) = some ⟨ipv4 192 168 1 3, 8090⟩ ∧
    mutualDyn staleLanWorld = false := by
  decide +kernel

''' + marker)
s = s.replace('''  Both restrictions are load-bearing: `lan_collision_blocks_same_nat` and `foreign_entry_blocks_overlay` are requester
  states outside the tables in which the unchanged code does not connect the pair (known findings).''',
 '''  The restrictions are load-bearing.  Four reachable states outside the tables in which the unchanged code does NOT connect
  the pair are proved below (known findings; the list is what has been found, not a characterisation):
  `lan_collision_blocks_same_nat`, `foreign_entry_blocks_overlay` (requester's address table),
  `stale_wan_estimate_blocks_puncture` (introduced peer's per-overlay WAN estimate), `stale_lan_estimate_blocks_same_nat`
  (cached `my_estimated_lan` after a LAN change).''')
open(p, 'w').write(s)
print("ok")
