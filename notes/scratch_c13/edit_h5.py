p = '/verif/harness/c13.py'
s = open(p).read()
i = s.index("        nops = rng.randrange(6, 26)")
j = s.index("        w.query_all()\n        nontrivial = any(o.startswith((\"drop:filtered\", \"lan:\")) for _, _, _, o in w.net.log)\n        ctx.case((\"random\", seed), nontrivial)")
new = '''        if rng.random() < 0.5:
            for h in hosts:
                age = rng.choice(AGES)
                if age:
                    w.set_clock(h.idx, age)
                    ctx.count("op:set-age")
        nops = rng.randrange(6, 26)
        for _ in range(nops):
            i = rng.randrange(nh)
            sv = 0 if rng.random() < 0.7 else 1
            ctx.count(f"op:overlay{sv}")
            r = rng.random()
            if r < 0.35:
                j = rng.randrange(nh)
                a = rng.choice([hosts[j].wan, hosts[j].wan, hosts[j].lan])
                ctx.count("op:walk-known")
                w.walk(i, a, sv)
            elif r < 0.7:
                wk = w.walkable(i, sv)
                if wk:
                    ctx.count("op:walk-walkable")
                    w.walk(i, rng.choice(wk)[0], sv)
                else:
                    ctx.count("op:walk-bootstrap")
                    w.walk(i, hosts[0].wan, sv)
            elif r < 0.9:
                ps = sorted(w.peers(i, sv))
                if ps:
                    ctx.count("op:ask")
                    w.ask(i, rng.choice(ps), sv)
                else:
                    ctx.count("op:walk-bootstrap")
                    w.walk(i, hosts[0].wan, sv)
            else:
                ctx.count("op:walk-junk")
                w.walk(i, rng.choice([("0.0.0.0", 0), ("10.9.9.9", 1), (rand_public_ip(rng, set()), 7), (hosts[i].lan[0], 1)]), sv)
            if rng.random() < 0.5:
                w.query_all()
'''
s = s[:i] + new + s[j:]
s = s.replace('''"LAN numbering drawn from all three RFC 1918 ranges''', '''"overlays on one Network {single, the pair is first connected in a second overlay} x node ages (Lamport clock) "
        "{young, around the 16 bit identifier wrap, old} x LAN numbering drawn from all three RFC 1918 ranges''')
s = s.replace('''histories: 3-6 hosts, 6-25 random walk/ask ops.''', '''histories: 3-6 hosts with random ages, 6-25 random walk/ask ops in either of two overlays.''')
open(p, 'w').write(s)
print("ok")
