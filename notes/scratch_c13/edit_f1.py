p = '/verif/tools/gen_c13.py'
s = open(p).read()
def rep(old, new, cnt=1):
    global s
    assert s.count(old) == cnt, (s.count(old), old[:70])
    s = s.replace(old, new)
# conditional expressions
rep('''        if isinstance(e, ast.Call):
            return self.call(e)
        self.fail(e, "expression outside the subset")''', '''        if isinstance(e, ast.IfExp):
            return f"(if {self.expr(e.test)} then {self.expr(e.body)} else {self.expr(e.orelse)})"
        if isinstance(e, ast.Call):
            return self.call(e)
        self.fail(e, "expression outside the subset")''')
# on_introduction_response: plain assignments to new locals may stand between `<list> = []` and the if-chain
rep('''    if idx is None or idx + 2 >= len(body) or not isinstance(body[idx + 1], ast.If):
        raise TranslatorError("on_introduction_response: `<list> = []` followed by an if-chain not found")
    lname = body[idx].targets[0].id
    if lname in LEAN_RESERVED:
        raise TranslatorError(f"on_introduction_response: list name `{lname}` clashes with a Lean keyword")
    tr2 = Tr("on_introduction_response", {lname}, set())
    chain = tr2.stmts([body[idx + 1]], 1)
    loop = body[idx + 2]''', '''    if idx is None:
        raise TranslatorError("on_introduction_response: `<list> = []` followed by an if-chain not found")
    k = idx + 1
    while k < len(body) and isinstance(body[k], ast.Assign) and len(body[k].targets) == 1 \\
            and isinstance(body[k].targets[0], ast.Name):
        k += 1          # hoisted reads / named conditions in front of the chain
    if k + 1 >= len(body) or not isinstance(body[k], ast.If):
        raise TranslatorError("on_introduction_response: `<list> = []` followed by an if-chain not found")
    lname = body[idx].targets[0].id
    if lname in LEAN_RESERVED:
        raise TranslatorError(f"on_introduction_response: list name `{lname}` clashes with a Lean keyword")
    tr2 = Tr("on_introduction_response", {lname}, set(), auto_locals=True)
    chain = tr2.stmts(body[idx + 1:k + 1], 1)
    loop = body[k + 1]''')
open(p, 'w').write(s)
print("ok")
