import sys, asyncio, warnings, logging
sys.path.insert(0, "/repo"); sys.path.insert(0, "/verif/tools")
warnings.simplefilter("ignore")
import vclock
loop = vclock.VLoop(); asyncio.set_event_loop(loop)

from ipv8.community import Community, CommunitySettings
from ipv8.peer import Peer
from ipv8.peerdiscovery.network import Network
from ipv8.keyvault.crypto import default_eccrypto
from ipv8.messaging.interfaces.endpoint import Endpoint
from ipv8.messaging.interfaces.udp.endpoint import UDPv4Address
import ipv8.messaging.interfaces.endpoint as epmod

CUR = [None]
epmod.get_lan_addresses = lambda: [CUR[0]] if CUR[0] else []

class EP(Endpoint):
    def __init__(self, port):
        super().__init__(); self.port = port; self.sent = []
    def assert_open(self): pass
    def is_open(self): return True
    def get_address(self): return ("0.0.0.0", self.port)
    def send(self, a, p): self.sent.append((a, p))
    async def open(self): return True
    def close(self): pass
    def reset_byte_counters(self): pass

class C(Community):
    community_id = b"\x13" * 20

CUR[0] = "192.168.1.2"
ep = EP(8090)
c = C(CommunitySettings(my_peer=Peer(default_eccrypto.generate_key("curve25519")), endpoint=ep, network=Network()))
print(c.my_estimated_lan, c.my_estimated_wan, c.my_preferred_address())
c.walk_to(UDPv4Address("1.2.3.4", 5))
print(ep.sent[0][0], ep.sent[0][1][22], len(ep.sent[0][1]))
print(c.address_is_lan("192.168.1.2"), c.address_is_lan("1.1.1.1"))
