def edit(p, pairs):
    s = open(p).read()
    for old, new in pairs:
        assert s.count(old) == 1, (p, s.count(old), old[:70])
        s = s.replace(old, new)
    open(p, 'w').write(s)
add = '''/-! ## LANs numbered outside RFC 1918 (carrier-grade NAT 100.64/10, other address space behind a NAT) -/

/-- R at 100.64.1.2 behind box 1; P at 100.64.1.3 behind the same box (`same`) or behind box 2 (otherwise) -/
def cgnR (c : Cfg) : Host := { lan := ⟨ipv4 100 64 1 2, 8090⟩, wan := ⟨ipv4 2 2 2 2, 40001⟩, box := 1, typ := c.tR }
def cgnP (c : Cfg) : Host :=
  if c.pl == .same then { lan := ⟨ipv4 100 64 1 3, 8090⟩, wan := ⟨ipv4 2 2 2 2, 40002⟩, box := 1, typ := c.tP }
  else { lan := ⟨ipv4 100 64 1 3, 8090⟩, wan := ⟨ipv4 3 3 3 3, 40002⟩, box := 2, typ := c.tP }

def prehistoryCgn (c : Cfg) : World :=
  prehistoryOn c 0 (setPref (((({} : World).addHost hostI clockI).addHost (cgnR c) clockR).addHost (cgnP c) clockP) 0 [2])

def cgnCfgs : List Cfg := allCfgs.filter (fun c => c.pl == .same || c.pl == .diff)

/-- script on the CGN-numbered world: introduction + contact + final tables (addresses read from the world), the handed-out
    LAN address is P's, and behind one box the path is LAN only -/
def cgnOk (c : Cfg) : Bool :=
  let w0 := prehistoryCgn c
  allOkDyn c w0 &&
  (newEvents w0 (introduce c)).any (fun e => e.src == 0 && e.delivered 1 &&
    (match e.msg with | .introResp _ _ _ p _ => p.lan_introduction_address == (cgnP c).lan | _ => false)) &&
  (c.pl != .same || lanOnlyW c w0)

'''
p = '/verif/lean/Ipv8/C13/Script.lean'
s = open(p).read()
s = s.replace("/-! ## more candidates at the introducer -/", add + "/-! ## more candidates at the introducer -/")
open(p, 'w').write(s)
open('/verif/lean/Ipv8/C13/TableP.lean', 'w').write('''/- C13 — kernel-evaluated table, LANs numbered outside RFC 1918 (parallel build unit) -/
import Ipv8.C13.Script
namespace Ipv8.C13
theorem tableP : cgnCfgs.all cgnOk = true := by decide +kernel
end Ipv8.C13
''')
edit('/verif/lean/Ipv8/C13/Lemmas.lean', [("import Ipv8.C13.TableO\n", "import Ipv8.C13.TableO\nimport Ipv8.C13.TableP\n")])
edit('/verif/lean/Ipv8/C13/Props.lean', [('''/-! ## reachable states outside the tables in which the unchanged code FAILS''', '''/-- LANs numbered outside RFC 1918 (carrier-grade NAT 100.64/10 or other address space behind a NAT; same box or two
    boxes): the introducer hands out the introduced peer's LAN address as it learned it — whatever range it is in — and the
    script succeeds; behind one box the pair connects over that LAN address only -/
theorem intro_reaches_on_non_rfc1918_lan_partial (c : Cfg) (h : c.pl = .same ∨ c.pl = .diff) : cgnOk c = true :=
  List.all_eq_true.mp tableP c (by
    simp only [cgnCfgs, List.mem_filter, mem_allCfgs, true_and, Bool.or_eq_true, beq_iff_eq]; exact h)
example : inLanSubnets (cgnP ⟨.none, .none, .same, false⟩).lan.ip = false := by decide

/-! ## reachable states outside the tables in which the unchanged code FAILS''')])
print("ok")
