def edit(p, pairs):
    s = open(p).read()
    for old, new in pairs:
        assert s.count(old) == 1, (p, s.count(old), old[:70])
        s = s.replace(old, new)
    open(p, 'w').write(s)
edit('/verif/lean/Ipv8/C13/Lemmas.lean', [("import Ipv8.C13.TableM\n", "import Ipv8.C13.TableM\nimport Ipv8.C13.TableN\nimport Ipv8.C13.TableO\n")])
edit('/verif/lean/Ipv8/C13/Props.lean', [('''/-! ## reachable states outside the tables in which the unchanged code FAILS''', '''/-- the introducer is the tracker service (scripts/tracker_service.py: the production bootstrap server), which answers
    old-style requests of any prefix and hands the requester's prefix to create_introduction_response: response AND
    puncture request travel under the requester's prefix, the introduced peer's overlay receives the puncture request
    and punctures; same conclusion as `intro_reaches_partial` -/
theorem intro_reaches_via_tracker_partial (c : Cfg) (h : c.newStyle = false) : allOkW c (prehistoryTracker c) = true :=
  List.all_eq_true.mp tableN c (by simp [oldCfgs, mem_allCfgs, h])
example : ((prehistoryTracker ⟨.none, .none, .diff, false⟩).nodes[0]?.map (·.isTracker)) = some true := by decide +kernel

/-- the peer limit counts the peers of the OVERLAY: an introduced peer that runs a second overlay with further peers on
    the same Network, and whose overlay 0 holds exactly max_peers peers, still answers the requester's request -/
theorem intro_reaches_at_peer_limit_of_introduced_partial (c : Cfg) : allOkW c (prePeerLimit c) = true :=
  of_all tableN2 c
example : ((prePeerLimit ⟨.none, .none, .diff, false⟩).nodes[2]?.map (fun n => (n.peers.length, (n.getPeers 0).length, n.maxPeers))) =
    some (2, 1, 1) := by decide +kernel

/-- the contact attempt made by the stock RandomWalk strategy (node timeout 3 s, window 5): both handed-out addresses
    are probed one second apart; when the unanswered probe times out its address is recognised as an address of the
    (meanwhile verified) introduced peer — `get_verified_by_address` matches the LAN slot too — so `remove_by_address` is
    not called and both are STILL verified at each other after the time-outs have been processed -/
theorem verified_peer_survives_probe_timeout_partial (c : Cfg) : strategyOk c = true := of_all tableO c

/-! ## reachable states outside the tables in which the unchanged code FAILS''')])
print("ok")
