p = '/verif/tools/gen_c13.py'
s = open(p).read()
def rep(old, new, cnt=1):
    global s
    assert s.count(old) == cnt, (s.count(old), old[:70])
    s = s.replace(old, new)

# ---------------- b4: a named module-level (or class-level) constant resolved to its literal value
rep('''    if table is None:
        raise TranslatorError("address_in_lan_subnets: no literal `lan_subnets` table")
    ret = _body(fn)[-1]
    want = "return any((self._address_in_subnet(address, subnet) for subnet in lan_subnets))"
    if not (isinstance(ret, ast.Return) and "lan_subnets" in _src(ret)):
        raise TranslatorError(f"address_in_lan_subnets: the result does not depend on the `lan_subnets` table: `{_src(ret)}`")''',
 '''    ret = _body(fn)[-1]
    tname = "lan_subnets"
    if table is None:
        # the table may be a named constant of the module or of the class: resolve the name the result iterates over
        consts = {}
        for scope in (ep_tree.body, cls.body):
            for st in scope:
                tgt = st.targets[0] if isinstance(st, ast.Assign) and len(st.targets) == 1 else \\
                    (st.target if isinstance(st, ast.AnnAssign) and st.value is not None else None)
                if isinstance(tgt, ast.Name):
                    try:
                        consts[tgt.id] = ast.literal_eval(st.value)
                    except (ValueError, SyntaxError):
                        pass
        used = [n.id for n in ast.walk(ret) if isinstance(n, ast.Name) and n.id in consts] + \\
               [n.attr for n in ast.walk(ret) if isinstance(n, ast.Attribute) and n.attr in consts]
        if len(set(used)) != 1:
            raise TranslatorError("address_in_lan_subnets: no literal `lan_subnets` table (local, module or class constant)")
        tname = used[0]
        table = consts[tname]
        # the constant must not be rebound anywhere else in the module
        rebinds = [n for n in ast.walk(ep_tree) if isinstance(n, (ast.Assign, ast.AugAssign, ast.AnnAssign))
                   and any(isinstance(t, ast.Name) and t.id == tname
                           for t in (n.targets if isinstance(n, ast.Assign) else [n.target]))]
        if len(rebinds) != 1:
            raise TranslatorError(f"address_in_lan_subnets: constant `{tname}` is bound {len(rebinds)} times")
    if not (isinstance(ret, ast.Return) and tname in _src(ret)):
        raise TranslatorError(f"address_in_lan_subnets: the result does not depend on the `{tname}` table: `{_src(ret)}`")''')

# ---------------- b1: private straight-line helper methods are inlined at their call sites
rep('''def _body(fn):''', '''class _Subst(ast.NodeTransformer):
    def __init__(self, mapping):
        self.mapping = mapping

    def visit_Name(self, node):
        if node.id in self.mapping:
            return copy.deepcopy(self.mapping[node.id])
        return node


def _inline_helpers(cls, body):
    """Replace every top-level statement `self._helper(a, b, ...)` — a private method of the same class whose body is a
    straight line of statements without `return <value>`, called with positional arguments — by the helper's body with the
    parameters substituted by the argument expressions.  (The arguments of the handlers' helpers are attribute reads and
    names: evaluating them once or several times is the same.)"""
    out = []
    for st in body:
        c = st.value if isinstance(st, ast.Expr) else None
        if (isinstance(c, ast.Call) and isinstance(c.func, ast.Attribute) and isinstance(c.func.value, ast.Name)
                and c.func.value.id == "self" and c.func.attr.startswith("_") and not c.func.attr.startswith("__")
                and not c.keywords and not any(isinstance(a, ast.Starred) for a in c.args)):
            h = next((n for n in cls.body if isinstance(n, ast.FunctionDef) and n.name == c.func.attr), None)
            if h is not None and not h.decorator_list:
                params = [a.arg for a in h.args.args][1:]
                hb = _body_raw(h)
                pure_args = all(isinstance(a, (ast.Name, ast.Attribute, ast.Constant)) for a in c.args)
                straight = not any(isinstance(n, (ast.Return, ast.Yield, ast.YieldFrom, ast.Await, ast.Nonlocal, ast.Global))
                                   for x in hb for n in ast.walk(x))
                assigned = {t.id for x in hb for n in ast.walk(x) if isinstance(n, ast.Assign)
                            for t in n.targets if isinstance(t, ast.Name)}
                if len(params) == len(c.args) and pure_args and straight and not (assigned & set(params)) \\
                        and not h.args.vararg and not h.args.kwarg and not h.args.kwonlyargs:
                    sub = _Subst(dict(zip(params, c.args)))
                    out += _inline_helpers(cls, [ast.fix_missing_locations(sub.visit(copy.deepcopy(x))) for x in hb])
                    continue
        out.append(st)
    return out


def _body_raw(fn):
    b = list(fn.body)
    if b and isinstance(b[0], ast.Expr) and isinstance(b[0].value, ast.Constant) and isinstance(b[0].value.value, str):
        b = b[1:]
    return b


def _body(fn):''')
rep("import ast\n", "import ast\nimport copy\n")
# use inlining in the two handlers
rep('''    fn = _fn(com_cls, "on_introduction_response")
    body = _body(fn)
    # (1) first statement: the my_estimated_wan update''', '''    fn = _fn(com_cls, "on_introduction_response")
    body = _inline_helpers(com_cls, _body(fn))
    # (1) first statement: the my_estimated_wan update''')
rep('''    fn = _fn(com_cls, "on_introduction_request")
    body = _body(fn)
    # the capacity guard''', '''    fn = _fn(com_cls, "on_introduction_request")
    body = _inline_helpers(com_cls, _body(fn))
    # the capacity guard''')
open(p, 'w').write(s)
print("ok")
