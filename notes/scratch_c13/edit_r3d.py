p = '/verif/harness/c13.py'
s = open(p).read()
def rep(old, new, cnt=1):
    global s
    assert s.count(old) == cnt, (s.count(old), old[:70])
    s = s.replace(old, new)

# --- World ops
rep('''    def set_max_peers(self, i: int, m: int):''', '''    def remap(self, i: int, box: int, wan):
        """the host's NAT mapping changes (reboot / timeout: same box, new port; roaming: another box and public ip)"""
        h = self.net.hosts[i]
        h.box, h.wan, h.sent = box, wan, []
        self.lines.append(f"remap {i} {box} {ip2int(wan[0])} {wan[1]}")
        self.expect.append("ok")

    def remove_peer(self, i: int, k: int):
        """churn: node i drops peer k (what a discovery strategy does with a peer that stopped answering)"""
        nw = self.net.hosts[i].node.network
        peer = nw.verified_by_public_key_bin.get(self.e["keys"][k].pub().key_to_bin())
        if peer is not None:
            nw.remove_peer(peer)
        self.lines.append(f"remove {i} {k}")
        self.expect.append("ok")

    def set_max_peers(self, i: int, m: int):''')

# --- Layout helpers
rep('''class World:
    """Real Community nodes on a SimNet''', '''def new_mapping(lay, w, i: int, roam: bool):
    """a fresh WAN mapping for boxed host i: same box with another port (reboot) or a new box (roaming)"""
    h = w.net.hosts[i]
    if roam:
        b = lay.new_box(lay.boxes[h.box]["net"] if h.box else None)
    else:
        b = h.box
    box = lay.boxes[b]
    port = lay.rng.randrange(1024, 65000)
    while port in box["ports"]:
        port = lay.rng.randrange(1024, 65000)
    box["ports"].add(port)
    return b, (box["ip"], port)


class World:
    """Real Community nodes on a SimNet''')

# --- class-specific steps inside phase(), just before the introduction
rep('''            if klass == "lan-collision" and s == 0:''', '''            if klass == "remap-introduced" and hosts[P].box:
                # the introduced peer's mapping is renewed after the introducer learned it; it contacts the introducer
                # again from the new mapping (what its discovery strategy does all the time)
                w.remap(P, *new_mapping(lay, w, P, False))
                if new and I in w.peers(P, s):
                    w.ask(P, I, s)
                else:
                    w.walk(P, iaddr, s)
            if klass in ("remap-requester", "roam-requester") and hosts[R].box:
                # the requester is a known peer of the introducer with a WAN estimate (it was introduced once, did not
                # walk), then its mapping is renewed / it roams to another public ip
                if not new:
                    w.walk(R, iaddr, s)
                w.remap(R, *new_mapping(lay, w, R, klass == "roam-requester"))
            if klass == "churn" and hosts[P].box:
                # the introducer (no peer limit) drops the introduced peer after its mapping was renewed; the peer walks to
                # the introducer again from the new mapping
                w.remap(P, *new_mapping(lay, w, P, False))
                w.remove_peer(I, P)
                w.walk(P, iaddr, s)
                if new:
                    w.ask(P, I, s)
            if klass == "lan-collision" and s == 0:''')
rep('''        if klass == "capacity":''', '''        if klass == "churn":
            w.set_max_peers(I, -1)
        if klass == "capacity":''')
rep('''    "capacity": (["diff", "same"], ("old",)),                # introducer holds exactly max_peers peers
}''', '''    "capacity": (["diff", "same"], ("old",)),                # introducer holds exactly max_peers peers
    "remap-introduced": (["diff", "same", "rPub"], ("old", "new")),   # introduced peer's NAT mapping renewed, it re-contacts I
    "remap-requester": (["diff", "same", "pPub"], ("old", "new")),    # requester's NAT mapping renewed while known to I
    "roam-requester": (["diff", "same", "pPub"], ("old", "new")),     # requester moves to another public ip
    "churn": (["diff", "same", "rPub"], ("old", "new")),              # unlimited introducer drops + re-verifies the peer
}''')
# --- bounded post-failure search
rep('''def search(ctx: Ctx, reason: str):
    """implementation-only: the whole table with more variants, every candidate count"""
    lan_table_check(ctx, False, [])
    for hist in HISTORIES:
        for cfg in table_cfgs(ctx.rng, 3, history=hist):
            scripted(ctx, cfg, False, [])
            if len(ctx.failures) >= 20:
                return
    for klass, (pls, styles) in CLASSES.items():
        for cfg in table_cfgs(ctx.rng, 2, placements=pls, styles=styles, klass=klass):
            scripted(ctx, cfg, False, [])
            if len(ctx.failures) >= 20:
                return''', '''def search(ctx: Ctx, reason: str):
    """implementation-only, after an obligation broke and the normal run found nothing: the tables once more with fresh
    variants.  Bounded (about a minute) so that a failing quick run stays within a few minutes."""
    t0 = ctx.elapsed()
    lan_table_check(ctx, False, [])
    for klass, (pls, styles) in CLASSES.items():
        for cfg in table_cfgs(ctx.rng, 1, placements=pls, styles=styles, klass=klass):
            scripted(ctx, cfg, False, [])
            if len(ctx.failures) >= 20 or ctx.elapsed() - t0 > 60:
                return
    for hist in HISTORIES:
        for cfg in table_cfgs(ctx.rng, 1, history=hist):
            scripted(ctx, cfg, False, [])
            if len(ctx.failures) >= 20 or ctx.elapsed() - t0 > 60:
                return''')
open(p, 'w').write(s)
print("ok")
