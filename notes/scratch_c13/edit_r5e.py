p = '/verif/harness/c13.py'
s = open(p).read()
def rep(old, new, cnt=1):
    global s
    assert s.count(old) == cnt, (s.count(old), old[:70])
    s = s.replace(old, new)
rep('''    Network.add_verified_peer = add_verified_peer
    Network.discover_address = discover_address''', '''    orig_rba = Network.remove_by_address

    def remove_by_address(self, address):
        try:
            holders = [p.public_key.key_to_bin() for p in self.verified_peers if address in p.addresses.values()]
            _hit("remove_by_address:" + ("drops-verified-peer" if holders else "unverified-address"))
            if holders:
                DROPPED_VERIFIED.append((id(self), tuple(address), holders))
        except Exception:
            _hit("observer-error")
        return orig_rba(self, address)

    Network.remove_by_address = remove_by_address
    Network.add_verified_peer = add_verified_peer
    Network.discover_address = discover_address''')
rep('''BRANCHES: dict = {}''', '''BRANCHES: dict = {}
DROPPED_VERIFIED: list = []      # (Network id, address, keys of the verified peers that held it) per remove_by_address call''')
rep('''                for t in (100, 101, 105, 106):
                    ev2 += w.rwstep(R, s, t)
                ctx.count("strategy:steps", 4)''', '''                DROPPED_VERIFIED.clear()
                for t in (100, 101, 105, 106):
                    ev2 += w.rwstep(R, s, t)
                ctx.count("strategy:steps", 4)
                pk = w.e["keys"][P].pub().key_to_bin()
                hit = [d for d in DROPPED_VERIFIED if d[0] == id(hosts[R].node.network) and pk in d[2]]
                if hit:
                    ctx.oracle_fail("RandomWalk.take_step:verified-peer-dropped-on-probe-timeout",
                                    f"the requester's walker removed the verified introduced peer when its unanswered probe to "
                                    f"{hit[0][1]} (an address of that peer) timed out",
                                    {"kind": "scripted", "cfg": {k: v for k, v in cfg.items() if k != "overlay"}})''')
rep('''    "op:blacklist", "op:walk-self", "class:tracker",''', '''    "op:blacklist", "op:walk-self", "remove_by_address:unverified-address", "class:tracker",''')
open(p, 'w').write(s)
print("ok")
