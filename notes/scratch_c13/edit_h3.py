p = '/verif/harness/c13.py'
s = open(p).read()

def rep(old, new, cnt=1):
    global s
    assert s.count(old) == cnt, (s.count(old), old[:80])
    s = s.replace(old, new)

# --- env: two overlay classes
rep('''        class IntroCommunity(Community):
            community_id = b"\\x13" * 20

        env = {"loop": loop, "com": com, "epmod": epmod, "cls": IntroCommunity, "ep": make_endpoint_class(),
               "keys": [default_eccrypto.generate_key("curve25519") for _ in range(10)], "world": None,
               "catch": ErrCatcher()}
        logging.getLogger("IntroCommunity").addHandler(env["catch"])
        logging.getLogger("IntroCommunity").propagate = False
''', '''        class IntroCommunity0(Community):
            community_id = b"\\x13" * 20

        class IntroCommunity1(Community):
            community_id = b"\\x14" * 20

        env = {"loop": loop, "com": com, "epmod": epmod, "cls": [IntroCommunity0, IntroCommunity1],
               "ep": make_endpoint_class(),
               "keys": [default_eccrypto.generate_key("curve25519") for _ in range(10)], "world": None,
               "catch": ErrCatcher()}
        for nm in ("IntroCommunity0", "IntroCommunity1"):
            logging.getLogger(nm).addHandler(env["catch"])
            logging.getLogger(nm).propagate = False
''')
# --- add_host: two overlays sharing Network, my_peer, endpoint (a normal IPv8 instance)
rep('''        try:
            h.node = self.e["cls"](CommunitySettings(my_peer=Peer(key), endpoint=h.ep, network=Network()))
        finally:''', '''        try:
            me, nw = Peer(key), Network()
            h.nodes = [c(CommunitySettings(my_peer=me, endpoint=h.ep, network=nw)) for c in self.e["cls"]]
            h.node = h.nodes[0]
        finally:''')
rep('''            if h.node is not None:
                h.node.endpoint.close()
                h.node.cancel_all_pending_tasks()''', '''            if h.node is not None:
                h.node.endpoint.close()
                for nd in h.nodes:
                    nd.cancel_all_pending_tasks()''')
# --- describe with overlay + identifier
rep('''        node = self.net.hosts[0].node
        mid = data[22]''', '''        svc = next((j for j, nd in enumerate(self.net.hosts[0].nodes) if nd.get_prefix() == data[:22]), 0)
        node = self.net.hosts[0].nodes[svc]
        mid = data[22]''')
rep('''            return f"preq{ns} lw={sa(p.lan_walker_address)} ww={sa(p.wan_walker_address)}"''',
    '''            return f"preq{ns} id={p.identifier} lw={sa(p.lan_walker_address)} ww={sa(p.wan_walker_address)}"''')
rep('''            return (f"req{ns} k={k} d={sa(p.destination_address)} l={sa(p.source_lan_address)} "''',
    '''            return (f"req{ns} k={k} id={p.identifier} d={sa(p.destination_address)} l={sa(p.source_lan_address)} "''')
rep('''            return (f"resp{ns} k={k} d={sa(p.destination_address)} l={sa(p.source_lan_address) } "''',
    '''            return (f"resp{ns} k={k} id={p.identifier} d={sa(p.destination_address)} l={sa(p.source_lan_address) } "''')
rep('''        return f"punc{ns} k={k} l={sa(p.source_lan_address)} w={sa(p.source_wan_address)}"''',
    '''        return f"punc{ns} k={k} id={p.identifier} l={sa(p.source_lan_address)} w={sa(p.source_wan_address)}"''')
rep('''        return " ; ".join(f"{s}>{sa(d)} {self.describe(data, True)} ={out}" for s, d, data, out in self.net.trace)''',
    '''        return " ; ".join(f"{s}/{self.svc_of(data)}>{sa(d)} {self.describe(data, True)} ={out}"
                          for s, d, data, out in self.net.trace)

    def svc_of(self, data: bytes) -> int:
        return next((j for j, nd in enumerate(self.net.hosts[0].nodes) if nd.get_prefix() == data[:22]), 0)''')
# --- ops
i = s.index("    def _op(self, line: str, host: Host, fn) -> list:")
j = s.index("    def query_all(self):")
s = s[:i] + '''    def _op(self, line: str, host: Host, fn) -> list:
        self.net.trace = []
        self.net.current = host
        raised = None
        try:
            fn()
        except Exception as e:          # e.g. PackError out of walk_to: the request was never sent
            raised = type(e).__name__
            self.raised[raised] = self.raised.get(raised, 0) + 1
        finally:
            self.net.current = None
        done = self.net.drain()
        self.lines.append(line)
        self.expect.append("nosend" if raised and not self.net.trace else (self.trace_str() if done else "fuel"))
        return list(self.net.trace)

    def set_clock(self, i: int, t: int):
        """the node's age: its Lamport clock (global time) as if it had already created t messages"""
        self.net.hosts[i].node.update_global_time(t)
        self.lines.append(f"clock {i} {t}")
        self.expect.append("ok")

    def walk(self, i: int, addr, s: int = 0) -> list:
        from ipv8.messaging.interfaces.udp.endpoint import UDPv4Address
        h = self.net.hosts[i]
        return self._op(f"walk {i} {s} {ip2int(addr[0])} {addr[1]}", h, lambda: h.nodes[s].walk_to(UDPv4Address(*addr)))

    def ask(self, i: int, k: int, s: int = 0) -> list:
        h = self.net.hosts[i]
        peer = next((p for p in h.nodes[s].get_peers() if self.keyidx.get(p.public_key.key_to_bin()) == k), None)
        if peer is None:
            self.lines.append(f"ask {i} {s} {k}")
            self.expect.append("nopeer")
            return []
        return self._op(f"ask {i} {s} {k}", h, lambda: h.nodes[s].get_new_introduction(peer))

    def peers(self, i: int, s: int = 0) -> dict:
        from ipv8.messaging.interfaces.udp.endpoint import UDPv4Address, UDPv4LANAddress
        out = {}
        for p in self.net.hosts[i].nodes[s].get_peers():
            k = self.keyidx.get(p.public_key.key_to_bin(), -1)
            out[k] = (p.addresses.get(UDPv4Address), p.addresses.get(UDPv4LANAddress), bool(p.new_style_intro), p.address)
        return out

    def walkable(self, i: int, s: int = 0) -> list:
        n = self.net.hosts[i].nodes[s]
        return sorted(((str(a[0]), int(a[1])), bool(n.network.is_new_style(a))) for a in n.get_walkable_addresses())

''' + s[j:]
i = s.index("    def query_all(self):")
j = s.index("def canon(reply: str, expected: str) -> str:")
s = s[:i] + '''    def query_all(self):
        """state queries on every node and overlay, as protocol lines with canonical (sorted) answers"""
        for h in self.net.hosts:
            i = h.idx
            for sv in range(len(h.nodes)):
                ps = self.peers(i, sv)
                self.lines.append(f"peers {i} {sv}")
                self.expect.append("S[" + ",".join(sorted(
                    f"{k}/{sa(v4) if v4 else '-'}/{sa(lan) if lan else '-'}/{1 if ns else 0}"
                    for k, (v4, lan, ns, _) in ps.items())) + "]")
                self.lines.append(f"walkable {i} {sv}")
                self.expect.append("S[" + ",".join(sorted(f"{sa(a)}/{1 if ns else 0}" for a, ns in self.walkable(i, sv))) + "]")
                nd = h.nodes[sv]
                self.lines.append(f"est {i} {sv}")
                self.expect.append(f"{sa(nd.my_estimated_wan)} {sa(nd.my_estimated_lan)} {nd.global_time}")
            self.lines.append(f"sent {i}")
            self.expect.append("S[" + ",".join(sorted(sa(a) for a in h.sent)) + "]")


''' + s[j:]
rep('''        self.kinds: dict[str, int] = {}''', '''        self.kinds: dict[str, int] = {}
        self.raised: dict[str, int] = {}''')
open(p, 'w').write(s)
print("ok")
