p = '/verif/harness/c13.py'
s = open(p).read()
def rep(old, new, cnt=1):
    global s
    assert s.count(old) == cnt, (s.count(old), old[:70])
    s = s.replace(old, new)

# ---- deterministic key material
rep('''"keys": [default_eccrypto.generate_key("curve25519") for _ in range(10)], "world": None,''',
    '''"keys": [default_eccrypto.key_from_private_bin(b"LibNaCLSK:" + hashlib.sha512(b"c13-key-%d" % i).digest())
                        for i in range(12)], "world": None,''')
rep("import logging\n", "import hashlib\nimport logging\n")

# ---- World ops: blacklist, max_peers
rep('''    def set_clock(self, i: int, t: int):''', '''    def blacklist(self, i: int, addr):
        """a bootstrap server's address: Community.ensure_blacklisted"""
        self.net.hosts[i].node.ensure_blacklisted(addr)
        self.lines.append(f"blacklist {i} {ip2int(addr[0])} {addr[1]}")
        self.expect.append("ok")

    def set_max_peers(self, i: int, m: int):
        for nd in self.net.hosts[i].nodes:
            nd.max_peers = m
        self.lines.append(f"maxpeers {i} {m}")
        self.expect.append("ok")

    def set_clock(self, i: int, t: int):''')

# ---- scripted: classes
rep('''        tR, tP, pl = cfg["tR"], cfg["tP"], cfg["placement"]
        I = w.add_host(*lay.public_host(), "none")
        if pl == "public":''', '''        tR, tP, pl = cfg["tR"], cfg["tP"], cfg["placement"]
        klass = cfg.get("klass", "std")
        ctx.count("class:" + klass)
        if klass == "own-machine":
            # the introducer sits behind an unfiltered, port-preserving box and the introduced peer runs on the SAME machine
            # (same LAN ip, other port); the requester is public or behind its own box
            bI = lay.new_box()
            ilan, iwan, _ = lay.boxed_host(bI)
            lay.boxes[bI]["ports"].discard(iwan[1])
            iwan = (iwan[0], ilan[1])
            I = w.add_host(ilan, iwan, bI, "none")
            R = w.add_host(*(lay.public_host() if pl in ("public", "rPub") else lay.boxed_host(lay.new_box())), tR)
            pport = ilan[1] + 1 + rng.randrange(50)
            P = w.add_host((ilan[0], pport), (iwan[0], pport), bI, tP)
        else:
            I = w.add_host(*lay.public_host(), "none")
        if klass == "own-machine":
            pass
        elif pl == "public":''')
rep('''        X = w.add_host(*lay.public_host(), "none") if cfg["history"] in ("response", "resp+req") else None''',
    '''        X = w.add_host(*lay.public_host(), "none") if (cfg["history"] in ("response", "resp+req")
                                                        or klass in ("own-machine", "foreign-entry")) else None
        Q = None
        if klass == "lan-collision":
            # a third peer on ANOTHER LAN that happens to have the introduced peer's full LAN address (same home-router
            # numbering, same default port); reachable without filtering so that the requester can get to know it
            bq = lay.new_box(hosts_net := None)
            Q = w.add_host(w.net.hosts[P].lan, (lay.boxes[bq]["ip"], 40000 + rng.randrange(20000)), bq, "none")''')
rep('''        iaddr = hosts[I].wan
        history = cfg["history"]
        new = cfg["style"] == "new"''', '''        iaddr = hosts[I].wan
        history = cfg["history"]
        new = cfg["style"] == "new"
        if klass == "bootstrap":
            # the introducer is a bootstrap server: everybody else has its address on the blacklist (never a verified peer)
            for h in hosts:
                if h.idx != I:
                    w.blacklist(h.idx, iaddr)
        if klass == "capacity":
            # the introducer holds exactly max_peers peers when the requester's request arrives: it still answers
            w.set_max_peers(I, len(cands))
        if klass == "own-machine":
            w.walk(I, hosts[X].wan)          # the introducer learns its WAN address
            ctx.count("own-machine:introducer-wan-known:%s" % (tuple(hosts[I].node.my_estimated_wan) == hosts[I].wan))''')
# candidates reach the introducer over the LAN in own-machine class
rep('''            def by_request(repeat: bool):
                # the candidate walks to the introducer; with `repeat` it contacts it once more AFTER it learned its own
                # WAN address from the first response (its request then carries source_wan_address != source_lan_address)
                for c in cands:
                    w.walk(c, iaddr, s)''', '''            def by_request(repeat: bool):
                # the candidate walks to the introducer; with `repeat` it contacts it once more AFTER it learned its own
                # WAN address from the first response (its request then carries source_wan_address != source_lan_address)
                for c in cands:
                    w.walk(c, hosts[I].lan if hosts[c].box == hosts[I].box != 0 else iaddr, s)''')
rep('''            w.query_all()
            # ---- the scripted introduction ---------------------------------------------------------------------
            already = P in w.peers(R, s) and R in w.peers(P, s)''', '''            if klass == "lan-collision" and s == 0:
                w.walk(R, hosts[Q].wan, s)        # the requester gets to know Q (Q's response tells its LAN address)
            if klass == "foreign-entry" and s == 0:
                # X runs (as far as the requester knows) only overlay 1 and introduces P's addresses to the requester there
                w.walk(P, hosts[X].wan, 1)
                w.set_pref(X, [P] + [k for k in range(n) if k not in (P, X)])
                w.walk(R, hosts[X].wan, 1)
            w.query_all()
            # ---- the scripted introduction ---------------------------------------------------------------------
            already = P in w.peers(R, s) and R in w.peers(P, s)''')
rep('''            handed = [a for a, _ in w.walkable(R, s) if sa(a) in named]''', '''            handed = [a for a, _ in w.walkable(R, s) if sa(a) in named]
            cause = diagnose(w, R, P, s, named)''')
rep('''            check_scripted(ctx, w, dict(cfg, overlay=s), R, P, I, ev1, ev2, handed, s)''',
    '''            check_scripted(ctx, w, dict(cfg, overlay=s), R, P, I, ev1, ev2, handed, s, cause)''')
rep('''        if cfg.get("overlays") == "other-first":''', '''        if cfg.get("overlays") == "other-first" and klass == "std":''')
rep('''        if new:
                w.walk(R, iaddr, s)                   # the requester is known to the introducer before any candidate is
''', '''        if new:
                w.walk(R, iaddr, s)                   # the requester is known to the introducer before any candidate is
''', 0) if False else None

# ---- diagnosis + check_scripted
rep('''def check_scripted(ctx: Ctx, w: World, cfg: dict, R: int, P: int, I: int, ev1, ev2, handed, s: int = 0):
    """The property itself, evaluated on the real nodes and the simulator's delivery log."""''', '''def diagnose(w: World, R: int, P: int, s: int, named: set):
    """Is the requester's address table in one of the two states for which the unchanged code is KNOWN not to connect the
    pair (known_findings.d/C13.json)?  Decided from the real Network object before the contact attempt, not from the
    outcome.  (a) an address of the introduction is also an address of ANOTHER verified peer of the requester;
    (b) an address of the introduction is already in the address table, introduced by a still-verified peer that does not
    run this overlay, through another overlay."""
    node = w.net.hosts[R].nodes[s]
    net = node.network
    pkey = w.e["keys"][P].pub().key_to_bin()
    for peer in net.verified_peers:
        if peer.public_key.key_to_bin() != pkey and any(sa(a) in named for a in peer.addresses.values()):
            return "collision"
    for a, entry in net._all_addresses.items():
        if sa(a) in named and entry.introduced_by in net.verified_by_public_key_bin \\
                and node.community_id not in net.services_per_peer.get(entry.introduced_by, set()) \\
                and entry.services != node.community_id:
            return "foreign"
    return None


def check_scripted(ctx: Ctx, w: World, cfg: dict, R: int, P: int, I: int, ev1, ev2, handed, s: int = 0, cause=None):
    """The property itself, evaluated on the real nodes and the simulator's delivery log."""''')
rep('''    def fail(sig, what):
        ctx.oracle_fail(sig, f"[{tag}] {what}", rep)
''', '''    known_sig = {"collision": "get_walkable_addresses:address-of-another-verified-peer",
                 "foreign": "get_walkable_addresses:entry-of-another-overlay"}.get(cause)
    ctx.count("diagnosed:" + str(cause))

    def fail(sig, what):
        if known_sig is not None and sig in CONSEQUENCES:
            # the requester's address table is in a state for which the unchanged code is known to fail (diagnosed before
            # the contact attempt): everything that follows from "the address is not walkable" is reported under the
            # known finding's own signature; every other check keeps its signature
            ctx.oracle_fail(known_sig, f"[{tag}] {what}", rep)
        else:
            ctx.oracle_fail(sig, f"[{tag}] {what}", rep)
''')
rep('''TYPES = ["none", "fullCone", "addrRestricted", "portRestricted"]''', '''TYPES = ["none", "fullCone", "addrRestricted", "portRestricted"]
# oracle signatures that are consequences of "the handed-out address is not reported as walkable"
CONSEQUENCES = {"on_introduction_response:nothing-to-walk", "on_introduction_response:unreachable", "get_peers:requester",
                "get_peers:introduced", "on_introduction_request:answer-lost"}''')
# style mismatch judged for the normal/repeat histories
rep('''    if (cfg["style"] == "new") != resp[-1][2].startswith("resp1"):
        ctx.count("style-mismatch")''', '''    if (cfg["style"] == "new") != resp[-1][2].startswith("resp1"):
        ctx.count("style-mismatch")
        if cfg["history"] in ("normal", "repeat") and cfg.get("klass", "std") == "std":
            fail("create_introduction_response:style", "the introducer answered a %s-style request in the other style" % cfg["style"])''')
open(p, 'w').write(s)
print("ok")
