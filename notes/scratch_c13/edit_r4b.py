p = '/verif/harness/c13.py'
s = open(p).read()
def rep(old, new, cnt=1):
    global s
    assert s.count(old) == cnt, (s.count(old), old[:70])
    s = s.replace(old, new)

# World.restart
rep('''    def remove_peer(self, i: int, k: int):''', '''    def restart(self, i: int):
        """the node shuts down and starts again: same key and socket, a fresh Network filled from its own snapshot
        (Network.snapshot / load_snapshot), fresh overlays and my_peer"""
        from ipv8.community import CommunitySettings
        from ipv8.peer import Peer
        from ipv8.peerdiscovery.network import Network
        h = self.net.hosts[i]
        snap = h.node.network.snapshot()
        for nd in h.nodes:
            h.ep.remove_listener(nd)
            nd.cancel_all_pending_tasks()
        self.net.current = h
        try:
            me, nw = Peer(self.e["keys"][i]), Network()
            nw.load_snapshot(snap)
            h.nodes = [c(CommunitySettings(my_peer=me, endpoint=h.ep, network=nw)) for c in self.e["cls"]]
            h.node = h.nodes[0]
        finally:
            self.net.current = None
        self.lines.append(f"restart {i}")
        self.expect.append("ok")

    def remove_peer(self, i: int, k: int):''')
# introduction part as an inner function that can be run again after a restart
rep('''            already = P in w.peers(R, s) and R in w.peers(P, s)
            ev1 = w.ask(R, I, s) if new else w.walk(R, iaddr, s)''', '''            introduce_and_check(s, new)
            if klass == "restart" and s == 0:
                # the requester shuts down and starts again from its snapshot: the introduced peer's address is known
                # without an introducer, nobody is verified; then the introduction once more (it has no peer to ask)
                w.restart(R)
                ctx.count("restart:snapshot-entries:%d" % len(hosts[R].node.network._all_addresses))
                introduce_and_check(s, False)

        def introduce_and_check(s: int, use_ask: bool):
            already = P in w.peers(R, s) and R in w.peers(P, s)
            ev1 = w.ask(R, I, s) if use_ask else w.walk(R, iaddr, s)''')
rep('''    "port-reuse": (["diff", "same", "pPub"], ("old", "new")),   # a released WAN port of another peer is given to the requester
}''', '''    "port-reuse": (["diff", "same", "pPub"], ("old", "new")),   # a released WAN port of another peer is given to the requester
    "restart": (PLACEMENTS, ("old", "new")),           # requester restarts from its snapshot (addresses without introducer)
}''')
# random histories: restart op
rep('''            if rng.random() < 0.06:
                ps = sorted(set(w.peers(i, 0)) | set(w.peers(i, 1)))''', '''            if rng.random() < 0.04:
                ctx.count("op:restart")
                w.restart(rng.randrange(1, nh))
            if rng.random() < 0.06:
                ps = sorted(set(w.peers(i, 0)) | set(w.peers(i, 1)))''')
rep('''port-reuse (a released WAN port of another peer is given to the requester).''', '''port-reuse (a released WAN port of another peer is given to the requester), restart (the requester starts again from its Network snapshot: addresses known without introducer).''')
open(p, 'w').write(s)
print("ok")
