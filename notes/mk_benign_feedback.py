"""Write notes/benign_feedback/Cxx.txt from benign/<name>/{meta,result}.json.  Usage: PROPS="C03 C04" python3 notes/mk_benign_feedback.py"""
import json
import os
from pathlib import Path

V = Path(__file__).resolve().parent.parent
out = V / "notes" / os.environ.get("OUTDIR", "benign_feedback")
out.mkdir(exist_ok=True)
only = os.environ.get("PROPS", "").split()
tot = {"green": 0, "red_no_input": 0, "red_with_input": 0, "other": 0}
for p in range(1, 21):
    pid = f"C{p:02d}"
    if only and pid not in only:
        continue
    good, bad = [], []
    ks = os.environ.get("ONLY_K", "").split()
    for d in sorted((V / "benign").glob(f"{pid}_b*")):
        if ks and d.name.split("_")[1] not in ks:
            continue
        if not (d / "result.json").exists():
            continue
        m = json.loads((d / "meta.json").read_text())
        r = json.loads((d / "result.json").read_text())
        if r.get("exit") == 0:
            good.append(d.name)
            tot["green"] += 1
            continue
        if r.get("exit") == 1 and not r.get("with_failing_input"):
            verdict = "RED without a failing input (no-failing-input-found): " + "; ".join(r.get("broken", []))[:500]
            tot["red_no_input"] += 1
        elif r.get("exit") == 1:
            verdict = "RED WITH A FAILING INPUT - either the refactoring is not harmless after all or the oracle/model is wrong: look at benign/" + d.name + "/replay_found.json"
            tot["red_with_input"] += 1
        else:
            verdict = f"exit {r.get('exit')} {r.get('error', '')} {r.get('stderr_tail', '')[-300:]}"
            tot["other"] += 1
        bad.append(f"* {d.name}: {verdict}\n  what: {m.get('summary', '')}\n  kind: {m.get('kind', '')}\n  why equivalent: {m.get('why_equivalent', '')[:700]}\n  files: {m.get('files', '')}")
    txt = (f"Behaviour-preserving refactorings for {pid}, written by an independent sub-agent that saw only the property text "
           f"(/verif/benign/<name>/patch.diff + meta.json; each keeps all 602 unit tests green). The check is supposed to stay GREEN on them. "
           f"Run one with `python3 tools/benign.py <name>`.\nGreen: {', '.join(good) or 'none'}.\n")
    if bad:
        txt += "Not green:\n\n" + "\n\n".join(bad) + "\n\n"
        txt += (f"What to do: for each item first convince yourself that the change really is behaviour-preserving for everything {pid} states (if it is not, "
                f"say so in design.d/{pid}.md and leave it red). Then make the check accept it WITHOUT weakening what it decides: widen the translator's "
                f"accepted subset (named module constants resolved to their literal values, hoisted locals / aliases substituted, extracted private helper "
                f"methods inlined when they are single-call-site and straight-line, guard clauses vs nested ifs normalised, reordered conjuncts, comprehension "
                f"vs loop where the translated meaning is the same), or compare a normal form instead of text. A regression must still break the obligation: "
                f"re-run ALL seeded changes of {pid} afterwards (`python3 tools/seeded.py $(ls seeded | grep ^{pid}_)`) and keep them caught. A refactoring "
                f"that genuinely needs the model to be rewritten may stay red (that is the prescribed `no-failing-input-found`); list those in design.d/{pid}.md "
                f"under the false-alarm section with one line why. Budget: about 60 minutes, then stop and report; quick green on /repo for seeds 0-3, thorough "
                f"seed 0. Only your own files; no commits in /verif.")
    else:
        txt += "Nothing to do.\n"
    (out / f"{pid}.txt").write_text(txt)
    print(pid, "green", len(good), "todo", len(bad))
print(tot)
