#!/bin/bash
# translator-only regressions on top of the benign refactorings: each must raise TranslatorError or change GenGuards
t() { # name patch file old new
  cd /tmp/wt_c05 && git checkout -q -- . && git apply /verif/benign/C05_$2/patch.diff
  /venv/bin/python - "$3" "$4" "$5" <<PY
import sys
p="/tmp/wt_c05/"+sys.argv[1]; s=open(p).read(); old=sys.argv[2].encode().decode('unicode_escape'); new=sys.argv[3].encode().decode('unicode_escape')
assert s.count(old)>=1, "pattern not found"
open(p,"w").write(s.replace(old,new,1))
PY
  cd /verif; VERIF_REPO=/tmp/wt_c05 PYTHONPATH=tools python3 tools/gen_c05.py > /tmp/c05_gen_r.lean 2>/tmp/c05_err
  echo "== $1: $(tail -1 /tmp/c05_err | cut -c1-200) $(diff -q /tmp/c05_gen_base.lean /tmp/c05_gen_r.lean >/dev/null && echo SAME-OUTPUT || echo differs)"
}
C=ipv8/messaging/anonymization/community.py; K=ipv8/messaging/anonymization/crypto.py; H=ipv8/messaging/anonymization/hidden_services.py
t helper-drops-exits b1 $C '                or circuit_id in self.relay_from_to\n                or circuit_id in self.exit_sockets)' '                or circuit_id in self.relay_from_to)'
t helper-other-arg b1 $C 'if self._is_circuit_id_in_use(request.to_circuit_id):' 'if self._is_circuit_id_in_use(request.from_circuit_id):'
t helper-overridden b1 $H 'class HiddenTunnelCommunity(TunnelCommunity):' 'class HiddenTunnelCommunity(TunnelCommunity):\n    def _is_circuit_id_in_use(self, circuit_id):\n        return False\n'
t helper-negated b1 $C 'if self._is_circuit_id_in_use(payload.circuit_id):' 'if not self._is_circuit_id_in_use(payload.circuit_id):'
t const-5 b3 $K 'EXTEND_MSG_ID = ExtendPayload.msg_id' 'EXTEND_MSG_ID = 5'
t const-extended b3 $K 'EXTEND_MSG_ID = ExtendPayload.msg_id' 'EXTEND_MSG_ID = ExtendedPayload.msg_id'
t const-rebound b3 $K 'class CryptoException(Exception):' 'EXTEND_MSG_ID = 3\n\n\nclass CryptoException(Exception):'
t const-shadowed b3 $K '        if (not cell.relay_early and cell.message[0] == EXTEND_MSG_ID)' '        EXTEND_MSG_ID = 7\n        if (not cell.relay_early and cell.message[0] == EXTEND_MSG_ID)'
t guard-no-return b2 $C "                self.logger.warning(\"Cannot exit data, destination is 0.0.0.0:0\")\n            return\n" "                self.logger.warning(\"Cannot exit data, destination is 0.0.0.0:0\")\n"
t guard-no-src b2 $C 'if not (circuit and origin and sock_addr == circuit.hop.address):' 'if not (circuit and origin):'
t guard-unnegated b2 $C 'if not (circuit and origin and sock_addr == circuit.hop.address):' 'if circuit and origin and sock_addr == circuit.hop.address:'
t guard-demorgan-ok b2 $C 'if not (circuit and origin and sock_addr == circuit.hop.address):' 'if not circuit or not origin or sock_addr != circuit.hop.address:'
t guard-demorgan-bad b2 $C 'if not (circuit and origin and sock_addr == circuit.hop.address):' 'if not circuit or not origin and sock_addr != circuit.hop.address:'
cd /tmp/wt_c05 && git checkout -q -- .
