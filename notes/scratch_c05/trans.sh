#!/bin/bash
# apply old.txt->new.txt in /tmp/wt_c05/$1, then: translator + lake build of Props in a scratch copy is too heavy; use the check
cd /tmp/wt_c05 && git checkout -q -- .
/venv/bin/python - "$1" <<PY
import sys
p = "/tmp/wt_c05/" + sys.argv[1]
s = open(p).read(); old = open("/verif/notes/scratch_c05/old.txt").read(); new = open("/verif/notes/scratch_c05/new.txt").read()
assert s.count(old) == 1, s.count(old)
open(p, "w").write(s.replace(old, new))
PY
cd /verif && VERIF_REPO=/tmp/wt_c05 ./check C05 quick 2>&1 | grep -v KNOWN | grep "VIOLATION\|broken\|C05 quick" | cut -c1-260 | head -6
cd /tmp/wt_c05 && git checkout -q -- .
