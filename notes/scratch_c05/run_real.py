import sys, time, json
sys.path.insert(0, "/repo" if len(sys.argv) < 3 else sys.argv[2]); sys.path.insert(0, "/verif/tools"); sys.path.insert(0, "/verif/harness")
import logging; logging.disable(logging.CRITICAL)
import vlib, c05
ctx = vlib.Ctx("C05", "quick", int(sys.argv[1]) if len(sys.argv) > 1 else 0)
t = time.time()
N = 20
for k in range(N):
    h = c05.History(ctx, ctx.rng.getrandbits(48))
    h.run()
print("time", time.time() - t, "cases", ctx.evaluations, "distinct", len(ctx.distinct))
print(json.dumps(dict(sorted(ctx.counts.items())), indent=0)[:6000])
for f in ctx.failures[:5]:
    print(f["signature"], f["what"]); print(f["replay"]["lines"][-3:])
