import sys, asyncio, random, types
sys.path.insert(0, "/repo"); sys.path.insert(0, "/verif/tools")
import vclock
from ipv8.test.mocking.endpoint import AutoMockEndpoint, internet
AutoMockEndpoint.SEND_INET_EXCEPTION_TO_LOOP = False
from ipv8.test.mocking.ipv8 import MockIPv8
from ipv8.messaging.anonymization.community import TunnelCommunity, TunnelSettings
from ipv8.messaging.anonymization.tunnel import *
from ipv8.messaging.anonymization.exit_socket import TunnelExitSocket
from ipv8.messaging.anonymization.payload import *

loop = vclock.new_loop()
flight = []
class TC(TunnelCommunity):
    def on_raw_data(self, circuit, origin, data):
        print("RAW", circuit.circuit_id, origin, data)

async def drain():
    for _ in range(200):
        await asyncio.sleep(0)
        if not loop._ready: break

def mk():
    s = TunnelSettings(); s.min_circuits=0; s.max_circuits=0; s.remove_tunnel_delay=0
    s.peer_flags = {PEER_FLAG_RELAY, PEER_FLAG_SPEED_TEST, PEER_FLAG_EXIT_BT}
    n = MockIPv8("curve25519", TC, settings=s)
    n.overlay.cancel_all_pending_tasks()
    ep = n.endpoint
    def send(self, addr, packet):
        flight.append((self.wan_address, addr, packet))
    ep.send = types.MethodType(send, ep)
    return n
async def main():
    nodes = [mk() for _ in range(4)]
    for a in nodes:
        for b in nodes:
            if a is not b:
                a.overlay.candidates[b.my_peer] = list(b.overlay.settings.peer_flags)
                a.network.add_verified_peer(b.my_peer)
    c = nodes[0].overlay.create_circuit(3, required_exit=nodes[3].my_peer)
    print("cid", c.circuit_id)
    steps = 0
    while flight:
        src, dst, pkt = flight.pop(0)
        tgt = internet[dst]
        try:
            tgt.notify_listeners((src, pkt))
        except Exception as e:
            print("EXC", type(e), e)
        await drain()
        steps += 1
    print("steps", steps, c.state, [h.peer.address for h in c.hops])
    for i, n in enumerate(nodes):
        o = n.overlay
        print(i, n.endpoint.wan_address, dict(o.circuits), {k:(v.circuit_id, v.direction, v.hop.address) for k,v in o.relay_from_to.items()}, dict(o.exit_sockets), list(o.request_cache._identifiers))
    # forged junk at exit
    ex = nodes[3].overlay
    xid = next(iter(ex.exit_sockets))
    cell = CellPayload(xid, b"\x01garbagegarbagegarbagegarbagegarbage")
    try:
        nodes[3].endpoint.notify_listeners((("1.2.3.4", 5), cell.to_bin(ex.get_prefix())))
    except Exception as e:
        print("EXC forged", type(e), e)
    await drain()
    print(loop.time())
    for n in nodes: await n.stop()
loop.run_until_complete(main())
