import sys
sys.path.insert(0, sys.argv[2] if len(sys.argv) > 2 else "/repo"); sys.path.insert(0, "/verif/tools"); sys.path.insert(0, "/verif/harness")
import logging; logging.disable(logging.CRITICAL)
import vlib, c05
ctx = vlib.Ctx("C05", "quick", 0)
h = c05.History(ctx, int(sys.argv[1]), verbose=True)
h.run()
