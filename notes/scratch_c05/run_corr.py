import sys, time, json
from pathlib import Path
sys.path.insert(0, sys.argv[2] if len(sys.argv) > 2 else "/repo"); sys.path.insert(0, "/verif/tools"); sys.path.insert(0, "/verif/harness")
import logging; logging.disable(logging.CRITICAL)
import vlib, c05
ctx = vlib.Ctx("C05", "quick", int(sys.argv[1]) if len(sys.argv) > 1 else 0)
ctx.model_ok = True; ctx.driver_exe = Path("/verif/lean/.lake/build/bin/drv_c05")
t = time.time()
c05.run_histories(ctx, int(sys.argv[3]) if len(sys.argv) > 3 else 30, True)
print("time", time.time() - t, "cases", ctx.evaluations, "distinct", len(ctx.distinct), "fail", len(ctx.failures), "dis", len(ctx.disagreements))
for d in ctx.disagreements[:3]:
    print(d["what"]); print("\n".join(d["replay"]["lines"])); print(d["replay"]["model_reply"])
for f in ctx.failures[:3]: print(f["signature"], f["what"])
