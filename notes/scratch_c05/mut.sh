#!/bin/bash
# usage: mut.sh <name> <file> <python-expr old> <new>   (applied in /tmp/wt_c05, reverted afterwards)
name="$1"; file="$2"
cd /tmp/wt_c05 && git checkout -q -- . 
/venv/bin/python - "$file" <<PY
import sys
p = "/tmp/wt_c05/" + sys.argv[1]
s = open(p).read()
old = open("/verif/notes/scratch_c05/old.txt").read()
new = open("/verif/notes/scratch_c05/new.txt").read()
assert s.count(old) == 1, s.count(old)
open(p, "w").write(s.replace(old, new))
PY
[ $? -ne 0 ] && { echo "PATCH FAILED"; exit 1; }
echo "== $name: unit tests"
(cd /tmp/wt_c05 && /venv/bin/python -m pytest -q -p no:cacheprovider --timeout=900 ipv8/test/messaging/anonymization 2>&1 | tail -1)
echo "== $name: check"
cd /verif && VERIF_REPO=/tmp/wt_c05 ./check C05 quick | cut -c1-600
echo "exit=${PIPESTATUS[0]}"
python3 -c "
import json,glob
for f in sorted(glob.glob('/verif/replays/C05/violation_*.json'))[:2]:
    d=json.load(open(f)); print(' ', d['signature'], '|', d['what'][:260])
"
cd /tmp/wt_c05 && git checkout -q -- .
