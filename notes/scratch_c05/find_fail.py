import sys
sys.path.insert(0, sys.argv[2] if len(sys.argv) > 2 else "/repo"); sys.path.insert(0, "/verif/tools"); sys.path.insert(0, "/verif/harness")
import logging; logging.disable(logging.CRITICAL)
import vlib, c05
ctx = vlib.Ctx("C05", "quick", int(sys.argv[1]))
for k in range(int(sys.argv[3]) if len(sys.argv) > 3 else 40):
    sd = ctx.rng.getrandbits(48)
    h = c05.History(ctx, sd); h.run()
    if h.failed: print(sd, ctx.failures[-1]["signature"], h.stepno)
