"""
C10 self-test: behaviour-changing edits (must go red), harmless refactors (must stay green) and the regressions named
by the independent review, applied one at a time to a scratch worktree of /repo and checked with VERIF_REPO.

    git -C /repo worktree add --detach /tmp/wt_c10 HEAD
    /venv/bin/python design.d/C10_selftest.py [name ...]          # default: everything (about 20 min)
    git -C /repo worktree remove --force /tmp/wt_c10 ; ./check C10 quick      # resync generated files / evidence

Each entry: name -> list of (file, old text, new text).  Expected verdict: names starting with H = exit 0, others = 1.
"""
import glob
import json
import os
import subprocess
import sys
import time

WT = os.environ.get("C10_WT", "/tmp/wt_c10")

MUTS_SINGLE = {
 "M1_no_ident_removal": ("ipv8/requestcache.py", "        if identifier in self._identifiers:\n            self._identifiers.pop(identifier)\n\n        try:", "        try:"),
 "M2_pop_no_cancel": ("ipv8/requestcache.py", "            cache = self._identifiers.pop(identifier)\n            self.cancel_pending_task(cache)\n", "            cache = self._identifiers.pop(identifier)\n"),
 "M3_add_no_dup_guard": ("ipv8/requestcache.py", "            if identifier in self._identifiers:\n                self._logger.error", "            if False and identifier in self._identifiers:\n                self._logger.error"),
 "M4_shutdown_no_future_cancel": ("ipv8/requestcache.py", "                for future, _ in cache.managed_futures:\n                    future.cancel()\n            self._identifiers.clear()", "                for future, _ in cache.managed_futures:\n                    pass\n            self._identifiers.clear()"),
 "M5_ctor_no_guard": ("ipv8/requestcache.py", "        if request_cache.has(prefix, number):\n            msg = f\"This number", "        if False and request_cache.has(prefix, number):\n            msg = f\"This number"),
 "M6_futures_exception_as_result": ("ipv8/requestcache.py", "                    if isinstance(on_timeout, Exception):", "                    if isinstance(on_timeout, KeyError):"),
 "M7_filter_any_all": ("ipv8/requestcache.py", "or any(issubclass(cache.__class__, f) for f in self._timeout_filters))):", "or all(issubclass(cache.__class__, f) for f in self._timeout_filters))):"),
 "M8_clear_no_cancel": ("ipv8/requestcache.py", "        tasks = self.cancel_all_pending_tasks()\n        self._identifiers.clear()\n        return tasks", "        tasks = []\n        self._identifiers.clear()\n        return tasks"),
 "M9_revert_done_cb_fix": ("ipv8/taskmanager.py", "                if self._pending_tasks.get(name, None) is future:\n                    self._pending_tasks.pop(name, None)", "                self._pending_tasks.pop(name, None)"),
 "M10_on_timeout_before_removal": ("ipv8/requestcache.py", "        if identifier in self._identifiers:\n            self._identifiers.pop(identifier)\n\n        try:\n            cache.on_timeout()\n", "        try:\n            cache.on_timeout()\n            if identifier in self._identifiers:\n                self._identifiers.pop(identifier)\n"),
 "M11_shutdown_keeps_identifiers": ("ipv8/requestcache.py", "                    future.cancel()\n            self._identifiers.clear()\n", "                    future.cancel()\n"),
 "M12_add_after_shutdown_keeps_futures": ("ipv8/requestcache.py", "                for f, _ in cache.managed_futures:\n                    f.cancel()\n                return None", "                return None"),
 "M13_identifier_without_prefix": ("ipv8/requestcache.py", 'return f"{prefix}:{number}"', 'return f"{number}"'),
 "M14_shutdown_flag_not_set": ("ipv8/requestcache.py", "            with self._task_lock:\n                self._shutdown = True\n", "            with self._task_lock:\n"),
 "M15_future_completed_even_if_done_skip_pending": ("ipv8/requestcache.py", "                if not future.done():\n                    if isinstance", "                if not future.done() and on_timeout is not None:\n                    if isinstance"),
 "M16_cancel_woken_task_ignored": ("ipv8/taskmanager.py", "            if not pending_task.done():\n                pending_task.cancel()\n                self._pending_tasks.pop(name, None)", "            if not pending_task.done():\n                w = getattr(pending_task, '_fut_waiter', None)\n                if w is None or not w.done():\n                    pending_task.cancel()\n                self._pending_tasks.pop(name, None)"),
 "M17_find_unclaimed_inverted": ("ipv8/requestcache.py", "            if not request_cache.has(prefix, number):\n                break", "            if request_cache.has(prefix, number) or True:\n                break"),
 "M18_override_only_when_shorter": ("ipv8/requestcache.py", "                timeout_delay = self._timeout_override\n", "                timeout_delay = min(timeout_delay, self._timeout_override)\n"),
 "M20_cancel_keeps_name": ("ipv8/taskmanager.py", "                pending_task.cancel()\n                self._pending_tasks.pop(name, None)\n", "                pending_task.cancel()\n"),
 "M21_HARMLESS_delay0_via_runner": ("ipv8/taskmanager.py", "                elif delay:\n", "                elif delay is not None:\n"),
 "M24_shutdown_no_task_cancel": ("ipv8/requestcache.py", "                self._shutdown = True\n                tasks = self.cancel_all_pending_tasks()", "                self._shutdown = True\n                tasks = []"),
 "MA_revert_identifier_before_task": ("ipv8/requestcache.py", "            self.register_task(cache, self._on_timeout, cache, delay=timeout_delay)\n            self._identifiers[identifier] = cache\n", "            self._identifiers[identifier] = cache\n            self.register_task(cache, self._on_timeout, cache, delay=timeout_delay)\n"),
 "MB_revert_trailing_cancel": ("ipv8/requestcache.py", "                        future.set_result(on_timeout)\n", "                        future.set_result(on_timeout)\n\n        self.cancel_pending_task(cache)\n"),
 "M28_pop_keeps_identifier": ("ipv8/requestcache.py", "            cache = self._identifiers.pop(identifier)\n", "            cache = self._identifiers[identifier]\n"),
 "M29_HARMLESS_rename_private": ("ipv8/requestcache.py", "RENAME", "RENAME"),
 "M19_retrieve_cache_get_not_pop": ("ipv8/lazy_community.py", "cache = cast(\"RequestCache\", self.request_cache).pop(cache_class.name,", "cache = cast(\"RequestCache\", self.request_cache).get(cache_class.name,"),
}

REFACTORS = {
 "H1_renamed_locals_del_stmt": [
   ("ipv8/requestcache.py", "            identifier = self._create_identifier(number, prefix)\n            cache = self._identifiers.pop(identifier)\n            self.cancel_pending_task(cache)\n            return cache\n",
    "            key = self._create_identifier(prefix=prefix, number=number)\n            found = self._identifiers.pop(key)\n            self.cancel_pending_task(found)\n            return found\n"),
   ("ipv8/requestcache.py", "        if identifier in self._identifiers:\n            self._identifiers.pop(identifier)\n\n        try:",
    "        if identifier in self._identifiers:\n            del self._identifiers[identifier]\n\n        try:"),
   ("ipv8/requestcache.py", "            self.register_task(cache, self._on_timeout, cache, delay=timeout_delay)\n            self._identifiers[identifier] = cache\n",
    "            delay_s = timeout_delay\n            self.register_task(cache, self._on_timeout, cache, delay=delay_s)\n            self._identifiers[identifier] = cache\n"),
 ],
 "H2_extracted_helper": [
   ("ipv8/requestcache.py", """            timeout_delay = cache.timeout_delay
            if (self._timeout_override is not None
                    and (self._timeout_filters is None
                         or any(issubclass(cache.__class__, f) for f in self._timeout_filters))):
                # Only overwrite the timeout if an overwrite is set.
                # Only overwrite the timeout if no class filters are set.
                # Otherwise, only overwrite the timeout if the cache class is in the filter.
                timeout_delay = self._timeout_override
""", "            timeout_delay = self._effective_delay(cache)\n"),
   ("ipv8/requestcache.py", "    def _create_identifier(self, number: int, prefix: str) -> str:\n",
    """    def _effective_delay(self, cache: NumberCache) -> float:
        if (self._timeout_override is not None
                and (self._timeout_filters is None
                     or any(issubclass(cache.__class__, f) for f in self._timeout_filters))):
            return self._timeout_override
        return cache.timeout_delay

    def _create_identifier(self, number: int, prefix: str) -> str:
"""),
 ],
 "H3_reordered_independent": [
   ("ipv8/requestcache.py", "        tasks = self.cancel_all_pending_tasks()\n        self._identifiers.clear()\n        return tasks",
    "        self._identifiers.clear()\n        tasks = self.cancel_all_pending_tasks()\n        return tasks"),
   ("ipv8/requestcache.py", "            self._logger.debug(\"add %s\", cache)\n\n", ""),
 ],
 "H5_list_values_has_guard_percent_ident": [
   ("ipv8/requestcache.py", "            for cache in self._identifiers.values():\n", "            for cache in list(self._identifiers.values()):\n"),
   ("ipv8/requestcache.py", "            if identifier in self._identifiers:\n                self._logger.error(", "            if self.has(cache.prefix, cache.number):\n                self._logger.error("),
   ("ipv8/requestcache.py", 'return f"{prefix}:{number}"', 'return "%s:%d" % (prefix, number)'),
 ],
 "H6_pop_as_lookup_and_del": [
   ("ipv8/requestcache.py", "            cache = self._identifiers.pop(identifier)\n            self.cancel_pending_task(cache)\n", "            cache = self._identifiers[identifier]\n            del self._identifiers[identifier]\n            self.cancel_pending_task(cache)\n"),
 ],
 "M_delay_doubled": [("ipv8/requestcache.py", "            timeout_delay = cache.timeout_delay\n", "            timeout_delay = cache.timeout_delay * 2\n")],
 "M_override_when_none": [("ipv8/requestcache.py", "            if (self._timeout_override is not None\n                    and (self._timeout_filters is None", "            if (self._timeout_override is not None\n                    and (self._timeout_filters is not None")],
 "M_waiter_body_side_effect": [("ipv8/requestcache.py", "                waiter.set_result(cache)\n", "                waiter.set_result(cache)\n                self._identifiers.clear()\n")],
 "H4_unguarded_pop_default": [
   ("ipv8/requestcache.py", "        if identifier in self._identifiers:\n            self._identifiers.pop(identifier)\n\n        try:",
    "        self._identifiers.pop(identifier, None)\n\n        try:"),
 ],
}

REVIEW = {
 "Ra_retrieve_first_payload": [("ipv8/lazy_community.py", "payload = payloads[-2 if isinstance(payloads[-1], bytes) else -1]", "payload = payloads[0]")],
 "Rb_passthrough_no_finally": [("ipv8/requestcache.py", "        try:\n            yield\n        finally:\n            self._timeout_override = None\n            self._timeout_filters = None\n", "        yield\n        self._timeout_override = None\n        self._timeout_filters = None\n")],
 "Rc_check_tasks_cancels_old": [("ipv8/taskmanager.py", "                self._logger.warning('Non-interval task \"%s\" has been running for %.2f!',\n                                     name, now - pending_task.start_time)  # type: ignore[attr-defined]\n", "                self._logger.warning('Non-interval task \"%s\" has been running for %.2f!',\n                                     name, now - pending_task.start_time)  # type: ignore[attr-defined]\n                pending_task.cancel()\n")],
 "Rd_number_masked": [("ipv8/requestcache.py", '        return f"{prefix}:{number}"', '        return f"{prefix}:{number & 0xFFFF}"')],
 "F41_passthrough_nesting_aware": [("ipv8/requestcache.py", "        self._timeout_override = timeout\n        self._timeout_filters = None if cls_filter is None else [cls_filter, *list(filters)]\n        try:\n            yield\n        finally:\n            self._timeout_override = None\n            self._timeout_filters = None\n",
   "        previous = (self._timeout_override, self._timeout_filters)\n        self._timeout_override = timeout\n        self._timeout_filters = None if cls_filter is None else [cls_filter, *list(filters)]\n        try:\n            yield\n        finally:\n            self._timeout_override, self._timeout_filters = previous\n")],
 "X_revert_try_finally": [("ipv8/requestcache.py", "        try:\n            cache.on_timeout()\n        finally:\n            # Also when on_timeout raises: the identifier is gone, so nothing else would ever resolve these futures.\n            for future, on_timeout in cache.managed_futures:\n                if not future.done():\n                    if isinstance(on_timeout, Exception):\n                        future.set_exception(on_timeout)\n                    else:\n                        future.set_result(on_timeout)\n",
   "        cache.on_timeout()\n\n        for future, on_timeout in cache.managed_futures:\n            if not future.done():\n                if isinstance(on_timeout, Exception):\n                    future.set_exception(on_timeout)\n                else:\n                    future.set_result(on_timeout)\n")],
}


REVIEW2 = {
 "H7_guarded_cancel_in_shutdown": [("ipv8/requestcache.py", "                # Cancel all managed futures, and suppress the CancelledErrors\n                for future, _ in cache.managed_futures:\n                    future.cancel()\n", "                # Cancel all managed futures, and suppress the CancelledErrors\n                for future, _ in cache.managed_futures:\n                    if not future.done():\n                        future.cancel()\n")],
 "H8_clear_returns_call": [("ipv8/requestcache.py", "        tasks = self.cancel_all_pending_tasks()\n        self._identifiers.clear()\n        return tasks", "        self._identifiers.clear()\n        return self.cancel_all_pending_tasks()")],
 "H9_done_cb_del": [("ipv8/taskmanager.py", "                if self._pending_tasks.get(name, None) is future:\n                    self._pending_tasks.pop(name, None)", "                if self._pending_tasks.get(name, None) is future:\n                    del self._pending_tasks[name]")],
 "H10_remove_ident_if_is_cache": [("ipv8/requestcache.py", "        if identifier in self._identifiers:\n            self._identifiers.pop(identifier)\n\n        try:", "        if self._identifiers.get(identifier) is cache:\n            self._identifiers.pop(identifier)\n\n        try:")],
 "S_suppress_around_register_task": [("ipv8/requestcache.py", "            self.register_task(cache, self._on_timeout, cache, delay=timeout_delay)\n", "            with suppress(RuntimeError):\n                self.register_task(cache, self._on_timeout, cache, delay=timeout_delay)\n")],
 "X2_revert_shutdown_task_manager_override": [("ipv8/requestcache.py", "            self._identifiers.clear()\n        await super().shutdown_task_manager()\n", "            pass\n        await super().shutdown_task_manager()\n")],
}

REFACTORS3 = {
 "H11_pop_inverted_isinstance": [("ipv8/requestcache.py", "        if isinstance(prefix, str):\n            identifier = self._create_identifier(number, prefix)\n            cache = self._identifiers.pop(identifier)\n            self.cancel_pending_task(cache)\n            return cache\n        return self.pop(prefix.name, number)\n", "        if not isinstance(prefix, str):\n            return self.pop(prefix.name, number)\n        identifier = self._create_identifier(number, prefix)\n        cache = self._identifiers.pop(identifier)\n        self.cancel_pending_task(cache)\n        return cache\n")],
 "H12_extracted_cancel_helper": [
   ("ipv8/requestcache.py", "                self._logger.warning(\"Dropping %s due to shutdown!\", str(cache))\n                for f, _ in cache.managed_futures:\n                    f.cancel()\n                return None", "                self._logger.warning(\"Dropping %s due to shutdown!\", str(cache))\n                self._cancel_managed_futures(cache)\n                return None"),
   ("ipv8/requestcache.py", "            for cache in self._identifiers.values():\n                # Cancel all managed futures, and suppress the CancelledErrors\n                for future, _ in cache.managed_futures:\n                    future.cancel()\n", "            for cache in self._identifiers.values():\n                self._cancel_managed_futures(cache)\n"),
   ("ipv8/requestcache.py", "    def _create_identifier(self, number: int, prefix: str) -> str:\n", "    def _cancel_managed_futures(self, cache: NumberCache) -> None:\n        for future, _ in cache.managed_futures:\n            future.cancel()\n\n    def _create_identifier(self, number: int, prefix: str) -> str:\n"),
 ],
 "H13_has_via_get": [("ipv8/requestcache.py", "        if isinstance(prefix, str):\n            return self._create_identifier(number, prefix) in self._identifiers\n        return self.has(prefix.name, number)\n", "        return self.get(prefix, number) is not None\n")],
 "M5b_has_negated": [("ipv8/requestcache.py", "            return self._create_identifier(number, prefix) in self._identifiers\n", "            return self._create_identifier(number, prefix) not in self._identifiers\n")],
}

ALL = {k: [v] for k, v in MUTS_SINGLE.items() if v[1] != "RENAME"}
ALL.update(REFACTORS)
ALL.update(REVIEW)
ALL.update(REVIEW2)
ALL.update(REFACTORS3)


def run(name):
    saved = {}
    for f, old, new in ALL[name]:
        p = os.path.join(WT, f)
        saved.setdefault(p, open(p).read())
        cur = open(p).read()
        if cur.count(old) != 1:
            print(f"{name}: pattern does not apply ({cur.count(old)} matches) - skipped")
            for q, src in saved.items():
                open(q, "w").write(src)
            return
        open(p, "w").write(cur.replace(old, new))
    try:
        t0 = time.time()
        env = dict(os.environ, VERIF_REPO=WT, VERIF_SEED=os.environ.get("VERIF_SEED", "0"))
        r = subprocess.run(["./check", "C10", "quick"], cwd=os.path.dirname(os.path.dirname(os.path.abspath(__file__))),
                           env=env, capture_output=True, text=True)
        sigs = [json.load(open(v))["signature"] for v in sorted(glob.glob("replays/C10/violation_*.json"))
                if os.path.getmtime(v) > t0]
        nf = "no-failing-input-found" in r.stdout
        want = 0 if name.startswith("H") or "HARMLESS" in name or name.startswith("F41") else 1
        print(f"{name}: exit={r.returncode} ({'as expected' if r.returncode == want else 'UNEXPECTED'})"
              f"{' no-failing-input-found' if nf else ''} signatures={sigs[:4]}")
    finally:
        for p, src in saved.items():
            open(p, "w").write(src)


if __name__ == "__main__":
    os.chdir(os.path.dirname(os.path.dirname(os.path.abspath(__file__))))
    for n in (sys.argv[1:] or list(ALL)):
        run(n)
