import c12, vlib, collections, time, sys
ctx = vlib.Ctx("C12","quick",int(sys.argv[1]) if len(sys.argv)>1 else 0)
t=time.time()
c12.run_batch(ctx, [s + c12.EXH_SWEEP for s in c12.scripted()], "scripted", False)
c12.exhaustive(ctx, 3, False)
print("exh3", round(time.time()-t,1), ctx.evaluations, len(ctx.failures))
t=time.time(); rng=ctx.rng
c12.run_batch(ctx, [c12.random_sequence(rng, rng.choice([10,20,40,80,200]), rng.choice([3,4,5])) for _ in range(800)], "random", False)
print("rand", round(time.time()-t,1), ctx.evaluations)
for k,v in sorted(ctx.counts.items()):
    if k.startswith("oracle_fail"): print(v, k)
seen=set()
for f in ctx.failures:
    if f["signature"] in seen: continue
    seen.add(f["signature"]); print("==", f["signature"], "|", f["what"][:300]); print("   ", f["replay"]["lines"][-8:])
