"""
Regression script (outside what the C02 check observes: this is handler behaviour of DiscoveryCommunity, not encode/decode).

Since c6a0c42 `DiscoveryIntroductionRequestPayload.introduce_to` decodes as the 20-byte mid, so
DiscoveryCommunity.on_old_introduction_request can match a verified peer and pass it as `introduction=` to
create_introduction_response(new_style=False).  An explicit introduction skips get_peer_for_introduction's IPv4 filter: if the
named peer has an IPv6 address the old-style ("ipv4" fields) response cannot be packed.

Expected (property of the handler): an old-style introduction request naming the mid of a verified IPv6 peer is still
answered with an introduction-response (msg 245) and no exception escapes the handler; with an IPv4 peer the response
introduces that peer.

Run:  PYTHONPATH=<tree> /venv/bin/python findings_log/C02_followup_introduce_to_ipv6_peer.py     exit 0 = PASS, 1 = FAIL
"""
import asyncio
import sys

from ipv8.keyvault.crypto import default_eccrypto
from ipv8.messaging.interfaces.udp.endpoint import UDPv4Address, UDPv6Address
from ipv8.messaging.payload_headers import BinMemberAuthenticationPayload, GlobalTimeDistributionPayload
from ipv8.peer import Peer
from ipv8.peerdiscovery.community import DiscoveryCommunity
from ipv8.peerdiscovery.payload import DiscoveryIntroductionRequestPayload
from ipv8.test.mocking.endpoint import AutoMockEndpoint
from ipv8.test.mocking.ipv8 import MockIPv8

failures = []


async def scenario(third_address, label):
    AutoMockEndpoint.SEND_INET_EXCEPTION_TO_LOOP = False
    node = MockIPv8("curve25519", DiscoveryCommunity)
    overlay = node.overlay
    sent = []
    overlay.endpoint.send = lambda addr, data: sent.append((addr, data[22]))
    third = Peer(default_eccrypto.generate_key("curve25519").pub(), third_address)
    overlay.network.add_verified_peer(third)
    overlay.network.discover_services(third, [overlay.community_id])
    requester_key = default_eccrypto.generate_key("curve25519")
    requester = Peer(requester_key, UDPv4Address("10.9.8.7", 1234))
    auth = BinMemberAuthenticationPayload(requester.public_key.key_to_bin())
    dist = GlobalTimeDistributionPayload(1)
    payload = DiscoveryIntroductionRequestPayload(third.mid, overlay.my_peer.address, requester.address, requester.address,
                                                  True, "unknown", 77, b"")
    data = overlay._ez_pack(overlay._prefix, 246, [auth, dist, payload], True)
    # sign with the requester's key (the packet is self-signed by its sender)
    unsigned = data[:-64]
    data = unsigned + default_eccrypto.create_signature(requester_key, unsigned)
    raised = None
    try:
        overlay.on_old_introduction_request(requester.address, data)
    except Exception as e:  # noqa: BLE001
        raised = e
    kinds = [m for _, m in sent]
    if raised is not None:
        failures.append(f"{label}: handler raised {type(raised).__name__}: {raised}")
    if 245 not in kinds:
        failures.append(f"{label}: no introduction-response sent (messages sent: {kinds})")
    await node.stop()
    return kinds


async def main():
    k6 = await scenario(UDPv6Address("2001:db8::1", 5), "third peer has an IPv6 address")
    k4 = await scenario(UDPv4Address("1.2.3.4", 5), "third peer has an IPv4 address")
    print("sent with IPv6 third peer:", k6, "| with IPv4 third peer:", k4)
    if 250 not in k4:
        failures.append("IPv4 third peer: the named peer received no puncture-request (introduce_to not honoured)")


asyncio.run(main())
if failures:
    print("FAIL")
    for f in failures:
        print("  -", f)
    sys.exit(1)
print("PASS")
