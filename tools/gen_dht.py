"""
Translator: ipv8/dht/{community,storage,discovery,routing}.py  ->  lean/Ipv8/C15/GenDht.lean

What is extracted (everything the C15 model takes from the source instead of from a hand-written copy):

  * module constants (MAX_ENTRY_SIZE, MAX_ENTRY_AGE, MAX_VALUES_IN_STORE, MAX_VALUES_IN_FIND, TARGET_NODES,
    TOKEN_EXPIRATION_TIME, DHT_ENTRY_STR, DHT_ENTRY_STR_SIGNED, NODE_LIMIT_INTERVAL, NODE_LIMIT_QUERIES);
  * DHTCommunity.__init__: `deque(maxlen=N)` of token_secrets, the `interval=` of the token_maintenance and
    value_maintenance tasks, and that token_maintenance() is called once in the constructor;
  * DHTCommunity.on_store_request: the sequence of guards (`if <cond>: ... return`) in source order, each recognised as
    blocked-requester / size limit (with its comparison operator and bound) / count limit / token check, the
    `max_age = ...` expression (integer expression over num_closer and module constants), and that the tail stores every
    value of the payload through add_value(payload.target, value, <storage>, max_age) before answering;
  * DHTCommunity.generate_token / check_token: which secrets are consulted (newest only / all live) and that the hashed
    string is str(node) + secret;
  * DHTCommunity.unserialize_value: that the signed branch returns only under `is_valid_signature(public_key,
    value[:-sig_len], sig)` with `sig = value[-sig_len:]`;
  * DHTCommunity.post_process_values: `max`/`min` and the key index used to pick one value per signer;
  * Storage.put: the version comparison operator that allows replacement; Value.expired: its comparison operator;
    Storage.clean: whether the reverse scan stops (`break`) at the first non-expired value;
  * DHTDiscoveryCommunity.on_store_peer_request: guard sequence (token check, target == peer.mid).

A construct outside these shapes raises TranslatorError (handled by the runner like a broken proof).
"""
from __future__ import annotations

import ast

from vlib import REPO, TranslatorError

COMMUNITY = "ipv8/dht/community.py"
STORAGE = "ipv8/dht/storage.py"
DISCOVERY = "ipv8/dht/discovery.py"
ROUTING = "ipv8/dht/routing.py"

CONSTS_COMMUNITY = {"MAX_ENTRY_SIZE": "maxEntrySize", "MAX_ENTRY_AGE": "maxEntryAge",
                    "MAX_VALUES_IN_STORE": "maxValuesInStore", "MAX_VALUES_IN_FIND": "maxValuesInFind",
                    "TARGET_NODES": "targetNodes", "TOKEN_EXPIRATION_TIME": "tokenExpirationTime",
                    "DHT_ENTRY_STR": "entryStr", "DHT_ENTRY_STR_SIGNED": "entryStrSigned"}
CONSTS_ROUTING = {"NODE_LIMIT_INTERVAL": "nodeLimitInterval", "NODE_LIMIT_QUERIES": "nodeLimitQueries"}

CMP = {ast.Gt: "gt", ast.GtE: "ge", ast.Lt: "lt", ast.LtE: "le", ast.Eq: "eq", ast.NotEq: "ne"}


def _parse(rel):
    return ast.parse((REPO / rel).read_text())


def _consts(tree, wanted, rel):
    out = {}
    for n in tree.body:
        if isinstance(n, ast.Assign) and len(n.targets) == 1 and isinstance(n.targets[0], ast.Name) \
                and n.targets[0].id in wanted:
            if not (isinstance(n.value, ast.Constant) and isinstance(n.value.value, int)
                    and not isinstance(n.value.value, bool) and n.value.value >= 0):
                raise TranslatorError(f"{rel}: {n.targets[0].id} is not a non-negative integer literal")
            out[n.targets[0].id] = n.value.value
    missing = [k for k in wanted if k not in out]
    if missing:
        raise TranslatorError(f"{rel}: constants not found: {missing}")
    return out


def _cls(tree, name, rel):
    c = next((n for n in tree.body if isinstance(n, ast.ClassDef) and n.name == name), None)
    if c is None:
        raise TranslatorError(f"{rel}: class {name} not found")
    return c


def _fn(cls, name, rel):
    f = next((n for n in cls.body if isinstance(n, (ast.FunctionDef, ast.AsyncFunctionDef)) and n.name == name), None)
    if f is None:
        raise TranslatorError(f"{rel}: {cls.name}.{name} not found")
    return f


def _body(fn):
    """statements without docstring and without bare logging calls"""
    out = []
    for i, s in enumerate(fn.body):
        if i == 0 and isinstance(s, ast.Expr) and isinstance(s.value, ast.Constant) and isinstance(s.value.value, str):
            continue
        if _is_log(s):
            continue
        out.append(s)
    return out


def _is_log(s):
    return (isinstance(s, ast.Expr) and isinstance(s.value, ast.Call) and isinstance(s.value.func, ast.Attribute)
            and isinstance(s.value.func.value, ast.Attribute) and s.value.func.value.attr in ("logger", "_logger"))


def _u(n):
    """source of a node with all blanks removed; nested lines joined with `;`"""
    return ";".join(x.strip() for x in ast.unparse(n).split("\n")).replace(" ", "")


def _is_drop(stmts):
    """body of a guard: optional logging, then a bare `return`"""
    rest = [s for s in stmts if not _is_log(s)]
    return len(rest) == 1 and isinstance(rest[0], ast.Return) and rest[0].value is None


def _bound(e, consts, what):
    if isinstance(e, ast.Name) and e.id in consts:
        return CONSTS_COMMUNITY[e.id]
    if isinstance(e, ast.Constant) and isinstance(e.value, int):
        return str(e.value)
    raise TranslatorError(f"{what}: bound {ast.unparse(e)} is neither a module constant nor an integer literal")


def _guard(test, consts, node_var):
    """recognise one guard condition of on_store_request / on_store_peer_request"""
    t = _u(test)
    if t == f"not{node_var}":
        return ".notBlocked"
    if t == f"notself.check_token({node_var},payload.token)":
        return ".token"
    if t in ("payload.target!=peer.mid", "peer.mid!=payload.target", "notpayload.target==peer.mid",
             "not(payload.target==peer.mid)"):
        return ".ownMid"
    # any(len(value) > MAX_ENTRY_SIZE for value in payload.values)
    if isinstance(test, ast.Call) and isinstance(test.func, ast.Name) and test.func.id == "any" and len(test.args) == 1 \
            and isinstance(test.args[0], ast.GeneratorExp):
        g = test.args[0]
        if len(g.generators) == 1 and not g.generators[0].ifs and _u(g.generators[0].iter) == "payload.values" \
                and isinstance(g.generators[0].target, ast.Name) and isinstance(g.elt, ast.Compare) \
                and len(g.elt.ops) == 1 and type(g.elt.ops[0]) in CMP \
                and _u(g.elt.left) == f"len({g.generators[0].target.id})":
            return f".sizeLimit .{CMP[type(g.elt.ops[0])]} {_bound(g.elt.comparators[0], consts, 'size guard')}"
    if isinstance(test, ast.Compare) and len(test.ops) == 1 and type(test.ops[0]) in CMP \
            and _u(test.left) == "len(payload.values)":
        return f".countLimit .{CMP[type(test.ops[0])]} {_bound(test.comparators[0], consts, 'count guard')}"
    raise TranslatorError(f"unrecognised guard condition: {ast.unparse(test)[:160]}")


def _int_expr(e, consts, var):
    """Python integer expression -> Lean Int expression"""
    if isinstance(e, ast.Constant) and isinstance(e.value, int) and not isinstance(e.value, bool):
        return f"({e.value} : Int)"
    if isinstance(e, ast.Name):
        if e.id == var:
            return "(numCloser : Int)"
        if e.id in consts:
            return f"({CONSTS_COMMUNITY[e.id]} : Int)"
    if isinstance(e, ast.BinOp):
        if isinstance(e.op, ast.Pow):
            return f"({_int_expr(e.left, consts, var)} ^ Int.toNat {_int_expr(e.right, consts, var)})"
        op = {ast.Add: "+", ast.Sub: "-", ast.Mult: "*", ast.FloorDiv: "/"}.get(type(e.op))
        if op:
            return f"({_int_expr(e.left, consts, var)} {op} {_int_expr(e.right, consts, var)})"
    if isinstance(e, ast.Call) and isinstance(e.func, ast.Name) and e.func.id in ("max", "min") and len(e.args) == 2 \
            and not e.keywords:
        return f"({e.func.id} {_int_expr(e.args[0], consts, var)} {_int_expr(e.args[1], consts, var)})"
    raise TranslatorError(f"max_age expression outside the integer subset: {ast.unparse(e)[:160]}")


def _store_request(cls, consts):
    fn = _fn(cls, "on_store_request", COMMUNITY)
    body = _body(fn)
    if not body or _u(body[0]) != "node=self.get_requesting_node(peer)":
        raise TranslatorError("on_store_request does not start with node = self.get_requesting_node(peer)")
    guards, i = [], 1
    while i < len(body) and isinstance(body[i], ast.If) and not body[i].orelse and _is_drop(body[i].body):
        guards.append(_guard(body[i].test, consts, "node"))
        i += 1
    tail = body[i:]
    if not guards or guards[0] != ".notBlocked":
        raise TranslatorError("on_store_request: the first guard is not the blocked-requester check")
    if any(isinstance(s, ast.If) for s in tail):
        raise TranslatorError("on_store_request: conditional outside the recognised guard prefix")
    max_age = None
    stores = responds = False
    for s in tail:
        if isinstance(s, ast.Assign) and _u(s.targets[0]) == "max_age":
            max_age = _int_expr(s.value, consts, "num_closer")
        elif isinstance(s, ast.For) and _u(s.iter) == "payload.values" and isinstance(s.target, ast.Name):
            v = s.target.id
            inner = [x for x in s.body if not _is_log(x)]
            if len(inner) == 1 and isinstance(inner[0], ast.Expr) and isinstance(inner[0].value, ast.Call):
                c = inner[0].value
                if _u(c.func) == "self.add_value" and len(c.args) == 4 and not c.keywords \
                        and _u(c.args[0]) == "payload.target" and _u(c.args[1]) == v \
                        and _u(c.args[2]).startswith("self.get_storage(") and _u(c.args[3]) == "max_age":
                    stores = max_age is not None
        elif isinstance(s, ast.Expr) and _u(s.value).startswith("self.ez_send(peer,StoreResponsePayload(payload.identifier"):
            responds = stores
    if max_age is None:
        raise TranslatorError("on_store_request: no `max_age = <expr>` assignment found")
    if not stores:
        raise TranslatorError("on_store_request: the loop storing payload.values through add_value(..., max_age) was not recognised")
    if not responds:
        raise TranslatorError("on_store_request: the StoreResponsePayload answer after storing was not recognised")
    return guards, max_age


def _store_peer_request(cls):
    fn = _fn(cls, "on_store_peer_request", DISCOVERY)
    body = _body(fn)
    if not body or _u(body[0]) != "node=Node(peer.key,peer.address)":
        raise TranslatorError("on_store_peer_request does not start with node = Node(peer.key, peer.address)")
    guards = []
    i = 1
    while i < len(body):
        s = body[i]
        if isinstance(s, ast.If) and not s.orelse and _is_drop(s.body):
            guards.append(_guard(s.test, {}, "node"))
        elif isinstance(s, ast.If):
            break
        elif _u(s) != "node.last_queries.append(time.time())":
            break
        i += 1
    tail = [_u(s) for s in body[i:]]
    want = ["ifnodenotinself.store[payload.target]:;", "self.ez_send(node,StorePeerResponsePayload(payload.identifier))"]
    if len(tail) != 2 or not tail[0].startswith(want[0]) or "self.store[payload.target].append(node)" not in tail[0] \
            or tail[1] != want[1]:
        raise TranslatorError("on_store_peer_request: tail (append node once, answer) was not recognised")
    return guards


def _tokens(cls):
    gen = _body(_fn(cls, "generate_token", COMMUNITY))
    chk = _body(_fn(cls, "check_token", COMMUNITY))
    if len(gen) != 1 or _u(gen[0]) != "returnhashlib.sha1(str(node).encode()+self.token_secrets[-1]).digest()":
        raise TranslatorError("generate_token is not sha1(str(node) + newest secret)")
    if len(chk) != 1:
        raise TranslatorError("check_token: unexpected body")
    c = _u(chk[0])
    all_live = "returnany((hashlib.sha1(str(node).encode()+secret).digest()==tokenforsecretinself.token_secrets))"
    newest = "returnhashlib.sha1(str(node).encode()+self.token_secrets[-1]).digest()==token"
    if c == all_live:
        return ".allLive"
    if c == newest:
        return ".newest"
    raise TranslatorError(f"check_token: unrecognised body {ast.unparse(chk[0])[:160]}")


def _init(cls):
    fn = _fn(cls, "__init__", COMMUNITY)
    maxlen = None
    intervals = {}
    calls_tm = False
    for s in ast.walk(fn):
        if isinstance(s, (ast.Assign, ast.AnnAssign)):
            tgt = s.targets[0] if isinstance(s, ast.Assign) else s.target
            if _u(tgt) == "self.token_secrets":
                v = s.value
                if not (isinstance(v, ast.Call) and _u(v.func) == "deque" and not v.args and len(v.keywords) == 1
                        and v.keywords[0].arg == "maxlen" and isinstance(v.keywords[0].value, ast.Constant)
                        and isinstance(v.keywords[0].value.value, int)):
                    raise TranslatorError("token_secrets is not deque(maxlen=<int literal>)")
                maxlen = v.keywords[0].value.value
        if isinstance(s, ast.Call) and _u(s.func) == "self.register_task" and len(s.args) >= 2 \
                and isinstance(s.args[0], ast.Constant):
            kw = {k.arg: k.value for k in s.keywords}
            if s.args[0].value in ("token_maintenance", "value_maintenance"):
                if _u(s.args[1]) != "self." + s.args[0].value or set(kw) != {"interval"} \
                        or not isinstance(kw["interval"], ast.Constant) or not isinstance(kw["interval"].value, int):
                    raise TranslatorError(f"register_task({s.args[0].value!r}, ...) is not (name, method, interval=<int>)")
                intervals[s.args[0].value] = kw["interval"].value
        if isinstance(s, ast.Expr) and _u(s) == "self.token_maintenance()":
            calls_tm = True
    if maxlen is None or set(intervals) != {"token_maintenance", "value_maintenance"}:
        raise TranslatorError("DHTCommunity.__init__: token_secrets deque or maintenance tasks not found")
    if not calls_tm:
        raise TranslatorError("DHTCommunity.__init__ does not call token_maintenance() once")
    tm = _body(_fn(cls, "token_maintenance", COMMUNITY))
    if not tm or _u(tm[0]) != "self.token_secrets.append(os.urandom(16))":
        raise TranslatorError("token_maintenance does not start by appending os.urandom(16) to token_secrets")
    vm = _body(_fn(cls, "value_maintenance", COMMUNITY))
    if len(vm) != 1 or _u(vm[0]) != "forstorageinself.storages.values():;storage.clean()":
        raise TranslatorError("value_maintenance is not `for storage in self.storages.values(): storage.clean()`")
    return maxlen, intervals


def _unserialize(cls):
    fn = _fn(cls, "unserialize_value", COMMUNITY)
    body = _body(fn)
    src = [_u(s) for s in body]
    if len(body) != 3 or not isinstance(body[0], ast.If) or not isinstance(body[1], ast.If) or src[2] != "returnNone":
        raise TranslatorError("unserialize_value: expected two `if value[0] == KIND` blocks and `return None`")
    if _u(body[0].test) != "value[0]==DHT_ENTRY_STR" or _u(body[1].test) != "value[0]==DHT_ENTRY_STR_SIGNED":
        raise TranslatorError("unserialize_value: entry kind tests changed")
    b0 = [_u(s) for s in body[0].body]
    if b0 != ["strpayload,_=self.serializer.unpack_serializable(StrPayload,value,offset=1)",
              "return(strpayload.data,None,0)"]:
        raise TranslatorError("unserialize_value: unsigned branch changed")
    b1 = [_u(s) for s in body[1].body]
    want = ["payload,_=self.serializer.unpack_serializable(SignedStrPayload,value,offset=1)",
            "public_key=self.crypto.key_from_public_bin(payload.public_key)",
            "sig_len=self.crypto.get_signature_length(public_key)",
            "sig=value[-sig_len:]",
            "ifself.crypto.is_valid_signature(public_key,value[:-sig_len],sig):;"
            "return(payload.data,payload.public_key,payload.version)"]
    if b1 != want or body[1].body[4].orelse:
        raise TranslatorError("unserialize_value: signed branch is not `return (data, public_key, version) only if "
                              "is_valid_signature(public_key, value[:-sig_len], value[-sig_len:])`")
    return True


def _post_process(cls):
    fn = _fn(cls, "post_process_values", COMMUNITY)
    picks = []
    for n in ast.walk(fn):
        if isinstance(n, ast.Call) and isinstance(n.func, ast.Name) and n.func.id in ("max", "min") \
                and n.args and _u(n.args[0]) == "data_list":
            kw = {k.arg: k.value for k in n.keywords}
            if set(kw) != {"key"} or _u(kw["key"]) != "lambdat:t[0]":
                raise TranslatorError("post_process_values: the per-signer pick is not keyed on the version (t[0])")
            picks.append(n.func.id)
    src = _u(fn)
    if len(picks) != 1:
        raise TranslatorError("post_process_values: expected exactly one max/min over data_list")
    if "unpacked[public_key].append((version,data))" not in src or "ifunserialized:" not in src:
        raise TranslatorError("post_process_values: grouping by public key of successfully unserialized values changed")
    if "results.append((" + picks[0] + "(data_list,key=lambdat:t[0])[1],public_key))" not in src:
        raise TranslatorError("post_process_values: signed result is not (picked data, public_key)")
    return ".maxVersion" if picks[0] == "max" else ".minVersion"


def _storage():
    tree = _parse(STORAGE)
    val = _cls(tree, "Value", STORAGE)
    sto = _cls(tree, "Storage", STORAGE)
    exp = _body(_fn(val, "expired", STORAGE))
    if len(exp) != 1 or not isinstance(exp[0], ast.Return) or not isinstance(exp[0].value, ast.Compare) \
            or len(exp[0].value.ops) != 1 or type(exp[0].value.ops[0]) not in CMP \
            or _u(exp[0].value.left) != "self.age" or _u(exp[0].value.comparators[0]) != "self.max_age":
        raise TranslatorError("Value.expired is not `return self.age <cmp> self.max_age`")
    expired_cmp = CMP[type(exp[0].value.ops[0])]
    age = _body(_fn(val, "age", STORAGE))
    if len(age) != 1 or _u(age[0]) != "returntime.time()-self.last_update":
        raise TranslatorError("Value.age is not time.time() - self.last_update")
    # put: find the version comparison
    put = _fn(sto, "put", STORAGE)
    cmps = [n for n in ast.walk(put) if isinstance(n, ast.If) and isinstance(n.test, ast.Compare)
            and "version" in _u(n.test)]
    if len(cmps) != 1 or len(cmps[0].test.ops) != 1 or type(cmps[0].test.ops[0]) not in CMP:
        raise TranslatorError("Storage.put: expected exactly one version comparison")
    t = cmps[0].test
    le, ri = _u(t.left), _u(t.comparators[0])
    op = CMP[type(t.ops[0])]
    if (le, ri) == ("new_value.version", "old_value.version"):
        put_cmp = op
    elif (le, ri) == ("old_value.version", "new_value.version"):
        put_cmp = {"gt": "lt", "ge": "le", "lt": "gt", "le": "ge", "eq": "eq", "ne": "ne"}[op]
    else:
        raise TranslatorError("Storage.put: version comparison is not between new_value and old_value")
    if cmps[0].orelse:
        raise TranslatorError("Storage.put: version comparison has an else branch")
    # clean: reverse scan, pop expired, optional break
    clean = _body(_fn(sto, "clean", STORAGE))
    head = "forkeyinself.items:;forindex,valueinreversed(list(enumerate(self.items[key]))):;ifvalue.expired:;self.items[key].pop(index)"
    flat = _u(clean[0]) if len(clean) == 1 else ""
    if flat == head:
        stops = "false"
    elif flat == head + ";else:;break":
        stops = "true"
    else:
        raise TranslatorError("Storage.clean: not the recognised reverse scan popping expired values")
    return expired_cmp, put_cmp, stops


def translate() -> tuple[str, dict]:
    ctree = _parse(COMMUNITY)
    consts = _consts(ctree, CONSTS_COMMUNITY, COMMUNITY)
    rconsts = _consts(_parse(ROUTING), CONSTS_ROUTING, ROUTING)
    dht = _cls(ctree, "DHTCommunity", COMMUNITY)
    maxlen, intervals = _init(dht)
    guards, max_age = _store_request(dht, consts)
    scope = _tokens(dht)
    _unserialize(dht)
    pick = _post_process(dht)
    expired_cmp, put_cmp, stops = _storage()
    peer_guards = _store_peer_request(_cls(_parse(DISCOVERY), "DHTDiscoveryCommunity", DISCOVERY))
    L = ["/- GENERATED by tools/gen_dht.py from ipv8/dht/{community,storage,discovery,routing}.py — do not edit -/",
         "import Ipv8.C15.Basic", "", "namespace Ipv8.C15.Gen", "open Ipv8.C15", ""]
    for k, v in consts.items():
        L.append(f"def {CONSTS_COMMUNITY[k]} : Nat := {v}")
    for k, v in rconsts.items():
        L.append(f"def {CONSTS_ROUTING[k]} : Nat := {v}")
    L += [f"def tokenSecretsMaxlen : Nat := {maxlen}",
          f"def tokenMaintenanceInterval : Nat := {intervals['token_maintenance']}",
          f"def valueMaintenanceInterval : Nat := {intervals['value_maintenance']}",
          "", "/-- guards of `on_store_request`, in source order; a request is dropped when one fires -/",
          "def storeGuards : List Guard := [" + ", ".join(guards) + "]",
          "/-- guards of `DHTDiscoveryCommunity.on_store_peer_request` -/",
          "def storePeerGuards : List Guard := [" + ", ".join(peer_guards) + "]",
          "/-- `max_age` of an accepted store request as a function of the number of closer nodes -/",
          f"def storeMaxAge (numCloser : Nat) : Nat := Int.toNat {max_age}",
          "/-- secrets consulted by `check_token` (`generate_token` uses the newest) -/",
          f"def checkScope : TokenScope := {scope}",
          "/-- `unserialize_value` returns a signed triple only under is_valid_signature(pk, value[:-n], value[-n:]) -/",
          "def signedRequiresValidSig : Bool := true",
          "/-- per-signer pick of `post_process_values` -/",
          f"def lookupPick : Pick := {pick}",
          "/-- `Storage.put`: an existing value is replaced when `putCmp new.version old.version` -/",
          f"def putCmp : Cmp := .{put_cmp}",
          "/-- `Value.expired`: `expiredCmp age max_age` -/",
          f"def expiredCmp : Cmp := .{expired_cmp}",
          "/-- `Storage.clean` scans from the tail and stops at the first non-expired value -/",
          f"def cleanStopsAtFirstFresh : Bool := {stops}",
          "", "end Ipv8.C15.Gen", ""]
    info = {"consts": consts, "guards": guards, "peer_guards": peer_guards, "scope": scope, "pick": pick,
            "put_cmp": put_cmp, "expired_cmp": expired_cmp, "clean_stops": stops, "max_age": max_age,
            "maxlen": maxlen, "intervals": intervals}
    return "\n".join(L), info


if __name__ == "__main__":
    s, i = translate()
    print(s)
