"""
Translator: ipv8/dht/{community,storage,discovery,routing}.py  ->  lean/Ipv8/C15/GenDht.lean

What is extracted (everything the C15 model takes from the source instead of from a hand-written copy):

  * module constants (MAX_ENTRY_SIZE, MAX_ENTRY_AGE, MAX_VALUES_IN_STORE, MAX_VALUES_IN_FIND, TARGET_NODES,
    TOKEN_EXPIRATION_TIME, DHT_ENTRY_STR, DHT_ENTRY_STR_SIGNED, NODE_LIMIT_INTERVAL, NODE_LIMIT_QUERIES);
  * DHTCommunity.__init__: `deque(maxlen=N)` of token_secrets, the `interval=` of the token_maintenance and
    value_maintenance tasks, and that token_maintenance() is called once in the constructor;
  * DHTCommunity.on_store_request: the sequence of guards (`if <cond>: ... return`) in source order, each recognised as
    blocked-requester / size limit (with its comparison operator and bound) / count limit / token check, the
    `max_age = ...` expression (integer expression over num_closer and module constants), and that the tail stores every
    value of the payload through add_value(payload.target, value, <storage>, max_age) before answering;
  * DHTCommunity.generate_token / check_token: which secrets are consulted (newest only / all live) and that the hashed
    string is str(node) + secret;
  * DHTCommunity.unserialize_value: whole function, up to renaming, against embedded reference forms: the signed branch
    returns (data, public_key.key_to_bin(), version) only under `is_valid_signature(public_key, value[:-sig_len],
    value[-sig_len:])`;
  * DHTCommunity.add_value: whole function (unserialize; id = sha1(public key) or None; put with that id, version, max_age)
    and its default max_age;
  * DHTCommunity.store_on_nodes: the size filter and the count cap applied to `values`, and the local
    `for value in reversed(values): self.add_value(key, value, storage)` loop;
    the freshness test a received token must pass before a StoreRequest is sent (comparison operator);
  * DHTCommunity.on_find_request: requesting node from get_requesting_node(peer), blocked => drop, the answer's token is
    generate_token(<that node>), storage.get(payload.target, payload.offset[, limit=MAX_VALUES_IN_FIND]);
  * DHTCommunity.token_maintenance: whole function (append a fresh secret, then drop received tokens past
    TOKEN_EXPIRATION_TIME while iterating over a copy, or the equivalent dict comprehension);
  * DHTCommunity.post_process_values: `max`/`min` and the key index used to pick one value per signer;
  * Storage.put: the version comparison operator that allows replacement; Value.expired: its comparison operator;
    Storage.clean: whether the reverse scan stops (`break`) at the first non-expired value;
  * DHTDiscoveryCommunity.on_store_peer_request: guard sequence (token check, target == peer.mid).

Before any recogniser runs, every function is normalised (`_fn`): private helper methods of the same class are inlined
(straight-line statement helpers; boolean guard helpers of the `return False ... return True` shape), hoisted call-free
attribute/subscript chains are substituted back, docstrings/logging/annotations dropped, keyword arguments of known callees
made positional, negated/reversed comparisons rewritten.

A construct outside these shapes raises TranslatorError (handled by the runner like a broken proof).
"""
from __future__ import annotations

import ast

from vlib import REPO, TranslatorError

COMMUNITY = "ipv8/dht/community.py"
STORAGE = "ipv8/dht/storage.py"
DISCOVERY = "ipv8/dht/discovery.py"
ROUTING = "ipv8/dht/routing.py"

CONSTS_COMMUNITY = {"MAX_ENTRY_SIZE": "maxEntrySize", "MAX_ENTRY_AGE": "maxEntryAge",
                    "MAX_VALUES_IN_STORE": "maxValuesInStore", "MAX_VALUES_IN_FIND": "maxValuesInFind",
                    "TARGET_NODES": "targetNodes", "TOKEN_EXPIRATION_TIME": "tokenExpirationTime",
                    "DHT_ENTRY_STR": "entryStr", "DHT_ENTRY_STR_SIGNED": "entryStrSigned"}
CONSTS_ROUTING = {"NODE_LIMIT_INTERVAL": "nodeLimitInterval", "NODE_LIMIT_QUERIES": "nodeLimitQueries"}

CMP = {ast.Gt: "gt", ast.GtE: "ge", ast.Lt: "lt", ast.LtE: "le", ast.Eq: "eq", ast.NotEq: "ne"}


def _parse(rel):
    return ast.parse((REPO / rel).read_text())


def _consts(tree, wanted, rel):
    out = {}
    for n in tree.body:
        if isinstance(n, ast.Assign) and len(n.targets) == 1 and isinstance(n.targets[0], ast.Name) \
                and n.targets[0].id in wanted:
            if not (isinstance(n.value, ast.Constant) and isinstance(n.value.value, int)
                    and not isinstance(n.value.value, bool) and n.value.value >= 0):
                raise TranslatorError(f"{rel}: {n.targets[0].id} is not a non-negative integer literal")
            out[n.targets[0].id] = n.value.value
    missing = [k for k in wanted if k not in out]
    if missing:
        raise TranslatorError(f"{rel}: constants not found: {missing}")
    return out


def _cls(tree, name, rel):
    c = next((n for n in tree.body if isinstance(n, ast.ClassDef) and n.name == name), None)
    if c is None:
        raise TranslatorError(f"{rel}: class {name} not found")
    # module-level NAME = <int literal>, bound exactly once and not one of the constants the recognisers know by name:
    # such a name is resolved to its literal before anything is recognised (magic number -> named constant is a no-op)
    counts, vals = {}, {}
    for n in ast.walk(tree):
        if isinstance(n, ast.Name) and isinstance(n.ctx, (ast.Store, ast.Del)):
            counts[n.id] = counts.get(n.id, 0) + 1
        if isinstance(n, (ast.Global, ast.Nonlocal)):
            for g in n.names:
                counts[g] = counts.get(g, 0) + 2
    for n in tree.body:
        tgt, val = None, None
        if isinstance(n, ast.Assign) and len(n.targets) == 1 and isinstance(n.targets[0], ast.Name):
            tgt, val = n.targets[0].id, n.value
        elif isinstance(n, ast.AnnAssign) and isinstance(n.target, ast.Name) and n.value is not None:
            tgt, val = n.target.id, n.value
        if tgt and isinstance(val, ast.Constant) and isinstance(val.value, int) and not isinstance(val.value, bool) \
                and counts.get(tgt) == 1 and tgt not in CONSTS_COMMUNITY and tgt not in CONSTS_ROUTING:
            vals[tgt] = val
    c._module_int_consts = vals
    return c


def _fn(cls, name, rel):
    f = next((n for n in cls.body if isinstance(n, (ast.FunctionDef, ast.AsyncFunctionDef)) and n.name == name), None)
    if f is None:
        raise TranslatorError(f"{rel}: {cls.name}.{name} not found")
    f = _inline_aliases(_inline_helpers(f, cls))
    consts = getattr(cls, "_module_int_consts", {})
    local = {x.id for x in ast.walk(f) if isinstance(x, ast.Name) and isinstance(x.ctx, ast.Store)} \
        | {a.arg for a in f.args.args + f.args.kwonlyargs}
    consts = {k: v for k, v in consts.items() if k not in local}
    if consts:
        import copy
        f = ast.fix_missing_locations(_Subst(consts).visit(copy.deepcopy(f)))
    return f


# ---- meaning-preserving pre-passes: private helpers inlined, hoisted locals substituted back -------------------------
class _Subst(ast.NodeTransformer):
    def __init__(self, mapping):
        self.mapping = mapping

    def visit_Name(self, n):
        if isinstance(n.ctx, ast.Load) and n.id in self.mapping:
            import copy
            return copy.deepcopy(self.mapping[n.id])
        return n


def _helper_call(call, cls):
    """(helper def, {param: argument}) when `call` is self._x(...) / Cls._x(...) / cls._x(...) of a private method of this
    class with plain positional/keyword arguments; None otherwise"""
    if not (isinstance(call, ast.Call) and isinstance(call.func, ast.Attribute) and call.func.attr.startswith("_")
            and not call.func.attr.startswith("__") and isinstance(call.func.value, ast.Name)
            and call.func.value.id in ("self", "cls", cls.name)):
        return None
    h = next((n for n in cls.body if isinstance(n, ast.FunctionDef) and n.name == call.func.attr), None)
    if h is None or h.args.vararg or h.args.kwarg or h.args.kwonlyargs or h.args.defaults:
        return None
    static = any(isinstance(d, ast.Name) and d.id == "staticmethod" for d in h.decorator_list)
    if [d for d in h.decorator_list if not (isinstance(d, ast.Name) and d.id == "staticmethod")]:
        return None
    params = [a.arg for a in h.args.args][0 if static else 1:]
    if any(isinstance(a, ast.Starred) for a in call.args) or any(k.arg is None for k in call.keywords):
        return None
    bound = dict(zip(params, call.args))
    for k in call.keywords:
        if k.arg in bound or k.arg not in params:
            return None
        bound[k.arg] = k.value
    if set(bound) != set(params):
        return None
    # arguments must be side-effect free expressions (they may be duplicated by the substitution)
    for a in bound.values():
        if any(isinstance(x, (ast.Call, ast.Await, ast.Yield, ast.NamedExpr)) for x in ast.walk(a)):
            return None
    # the helper must not assign to its parameters or use names that mean something else at the call site
    for x in ast.walk(h):
        if isinstance(x, ast.Name) and isinstance(x.ctx, ast.Store) and x.id in params:
            return None
    return h, bound


def _helper_body(h):
    return [x for i, x in enumerate(h.body)
            if not (i == 0 and isinstance(x, ast.Expr) and isinstance(x.value, ast.Constant) and isinstance(x.value.value, str))]


def _inline_helpers(fn, cls, depth=0):
    """Two shapes, both only for private methods of the same class:
       (a) a statement `self._h(args)` whose helper is straight-line (no return / yield / await): replaced by the helper's
           body with the parameters substituted;
       (b) `if not self._h(args): return` whose helper is a sequence of `if <cond>: [log]; return False` closed by
           `return True`: replaced by the guards `if <cond>: [log]; return` in the same order."""
    import copy
    if depth > 3:
        return fn
    changed = [False]

    class T(ast.NodeTransformer):
        def _stmts(self, stmts):
            out = []
            for st in stmts:
                st = self.visit(st)
                rep = self._expand(st)
                out.extend(rep if rep is not None else [st])
            return out

        def _expand(self, st):
            if isinstance(st, ast.Expr):
                hc = _helper_call(st.value, cls)
                if hc:
                    h, bound = hc
                    body = _helper_body(h)
                    if not any(isinstance(x, (ast.Return, ast.Yield, ast.YieldFrom, ast.Await, ast.Global, ast.Nonlocal))
                               for b in body for x in ast.walk(b)):
                        changed[0] = True
                        return [_Subst(bound).visit(copy.deepcopy(b)) for b in body]
            if isinstance(st, ast.If) and not st.orelse and _is_drop(st.body) and isinstance(st.test, ast.UnaryOp) \
                    and isinstance(st.test.op, ast.Not):
                hc = _helper_call(st.test.operand, cls)
                if hc:
                    h, bound = hc
                    body = _helper_body(h)
                    guards, ok = [], bool(body)
                    for b in body[:-1]:
                        rest = [x for x in b.body if not _is_log(x)] if isinstance(b, ast.If) and not b.orelse else None
                        if rest is None or len(rest) != 1 or not (isinstance(rest[0], ast.Return)
                                                                  and isinstance(rest[0].value, ast.Constant)
                                                                  and rest[0].value.value is False):
                            ok = False
                            break
                        g = copy.deepcopy(b)
                        g.body = [x for x in g.body if _is_log(x)] + [ast.Return(value=None)]
                        guards.append(_Subst(bound).visit(g))
                    last = body[-1] if body else None
                    if ok and isinstance(last, ast.Return) and isinstance(last.value, ast.Constant) and last.value.value is True:
                        changed[0] = True
                        return guards
            return None

        def generic_visit(self, node):
            for field in ("body", "orelse", "finalbody"):
                b = getattr(node, field, None)
                if isinstance(b, list) and b and isinstance(b[0], ast.stmt):
                    setattr(node, field, self._stmts(b))
            for hnd in getattr(node, "handlers", []) or []:
                hnd.body = self._stmts(hnd.body)
            return node

    out = T().visit(copy.deepcopy(fn))
    ast.fix_missing_locations(out)
    return _inline_helpers(out, cls, depth + 1) if changed[0] else out


def _inline_aliases(fn):
    """`x = <attribute/subscript chain>` with x assigned exactly once and none of the chain's names reassigned afterwards:
    every later use of x is replaced by the chain and the assignment is dropped (a hoisted repeated look-up).  The chain may
    not contain calls, so evaluating it again has no effect and yields the same object."""
    import copy
    params = {a.arg for a in fn.args.args + fn.args.kwonlyargs}
    stores = {}
    for x in ast.walk(fn):
        if isinstance(x, ast.Name) and isinstance(x.ctx, ast.Store):
            stores[x.id] = stores.get(x.id, 0) + 1
    aliases = {}
    for st in fn.body:          # top level only: the alias dominates all its uses
        if isinstance(st, ast.Assign) and len(st.targets) == 1 and isinstance(st.targets[0], ast.Name):
            name = st.targets[0].id
            pure = isinstance(st.value, (ast.Subscript, ast.Attribute)) and all(
                isinstance(x, (ast.Name, ast.Attribute, ast.Subscript, ast.Constant, ast.Load, ast.Index))
                for x in ast.walk(st.value))
            used_names = {x.id for x in ast.walk(st.value) if isinstance(x, ast.Name)}
            if pure and stores.get(name) == 1 and name not in params \
                    and all(stores.get(u, 0) <= (0 if u in params or u == "self" else 1) for u in used_names):
                aliases[name] = st.value
    if not aliases:
        return fn
    out = copy.deepcopy(fn)
    out.body = [st for st in out.body if not (isinstance(st, ast.Assign) and len(st.targets) == 1
                                             and isinstance(st.targets[0], ast.Name) and st.targets[0].id in aliases)]
    out = _Subst(aliases).visit(out)
    return ast.fix_missing_locations(out)


# ---- normalisation: obviously equivalent rewrites are mapped to one form before the recognisers run ------------------
# parameter orders of the callees whose keyword arguments are turned into positional ones
SIGNATURES = {"add_value": ["key", "value", "storage", "max_age"], "check_token": ["node", "token"],
              "generate_token": ["node"], "get_storage": ["node"], "get_requesting_node": ["peer"],
              "unpack_serializable": ["serializable", "data", "offset"],
              "is_valid_signature": ["ec_key", "data", "signature"], "key_from_public_bin": ["string"],
              "get_signature_length": ["ec_key"], "ez_send": None, "put": ["key", "data", "id_", "max_age", "version"]}
FLIP = {ast.Gt: ast.Lt, ast.GtE: ast.LtE, ast.Lt: ast.Gt, ast.LtE: ast.GtE, ast.Eq: ast.Eq, ast.NotEq: ast.NotEq}
NEG = {ast.Gt: ast.LtE, ast.GtE: ast.Lt, ast.Lt: ast.GtE, ast.LtE: ast.Gt, ast.Eq: ast.NotEq, ast.NotEq: ast.Eq}


class _Norm(ast.NodeTransformer):
    """drop docstrings / logging / annotations; keyword -> positional for known callees; `not (a < b)` -> `a >= b`;
    constants on the left of a comparison moved to the right; optional renaming of local names"""

    def __init__(self, rename=None):
        self.rename = rename or {}

    def _stmts(self, node):
        for field in ("body", "orelse", "finalbody"):
            b = getattr(node, field, None)
            if isinstance(b, list) and b and isinstance(b[0], ast.stmt):
                nb = [x for i, x in enumerate(b)
                      if not _is_log(x) and not (isinstance(x, ast.Expr) and isinstance(x.value, ast.Constant)
                                                 and isinstance(x.value.value, str))]
                setattr(node, field, nb or ([ast.Pass()] if field == "body" else []))

    def generic_visit(self, node):
        super().generic_visit(node)
        self._stmts(node)
        return node

    def visit_Name(self, n):
        n.id = self.rename.get(n.id, n.id)
        return n

    def visit_arg(self, a):
        a.arg = self.rename.get(a.arg, a.arg)
        a.annotation = None
        return a

    def visit_AnnAssign(self, n):
        self.generic_visit(n)
        return ast.Assign(targets=[n.target], value=n.value) if n.value is not None else n

    def visit_Call(self, c):
        self.generic_visit(c)
        name = c.func.attr if isinstance(c.func, ast.Attribute) else c.func.id if isinstance(c.func, ast.Name) else None
        sig = SIGNATURES.get(name)
        if sig and c.keywords and all(k.arg for k in c.keywords):
            kw = {k.arg: k.value for k in c.keywords}
            args = list(c.args)
            for pname in sig[len(args):]:
                if pname in kw:
                    args.append(kw.pop(pname))
                else:
                    break
            if not kw:
                c.args, c.keywords = args, []
        return c

    def visit_UnaryOp(self, u):
        self.generic_visit(u)
        if isinstance(u.op, ast.Not) and isinstance(u.operand, ast.Compare) and len(u.operand.ops) == 1 \
                and type(u.operand.ops[0]) in NEG:
            return ast.Compare(left=u.operand.left, ops=[NEG[type(u.operand.ops[0])]()],
                               comparators=u.operand.comparators)
        return u

    def visit_Compare(self, c):
        self.generic_visit(c)
        if len(c.ops) == 1 and type(c.ops[0]) in FLIP and isinstance(c.left, (ast.Name, ast.Constant)) \
                and not isinstance(c.comparators[0], (ast.Name, ast.Constant)) \
                and (isinstance(c.left, ast.Constant) or c.left.id.isupper()):
            return ast.Compare(left=c.comparators[0], ops=[FLIP[type(c.ops[0])]()], comparators=[c.left])
        return c


def _normalised(fn, rename=None):
    import copy
    out = _Norm(rename).visit(copy.deepcopy(fn))
    out.returns = None
    return ast.fix_missing_locations(out)


def _canon_dump(fn):
    """structure of a function with every locally bound name replaced by its order of first occurrence"""
    fn = _normalised(fn)
    bound = set()
    for n in ast.walk(fn):
        if isinstance(n, ast.Name) and isinstance(n.ctx, ast.Store):
            bound.add(n.id)
        if isinstance(n, ast.arg) and n.arg != "self":
            bound.add(n.arg)
    mapping = {}

    class R(ast.NodeTransformer):
        def visit_Name(self, n):
            if n.id in bound:
                n.id = mapping.setdefault(n.id, f"v{len(mapping)}")
            return n

        def visit_arg(self, a):
            if a.arg in bound:
                a.arg = mapping.setdefault(a.arg, f"v{len(mapping)}")
            return a
    fn = R().visit(fn)
    fn.decorator_list = []
    return ast.dump(fn)


def _same_up_to_renaming(fn, ref_src: str) -> bool:
    import textwrap
    ref = ast.parse(textwrap.dedent(ref_src)).body[0]
    return _canon_dump(fn) == _canon_dump(ref)


def _role_rename(fn, roles):
    """rename the positional parameters after `self` (and, with '=first', the target of the first assignment) to the
    names the recognisers use"""
    rename = {}
    params = [a.arg for a in fn.args.args][1:]
    for have, want in zip(params, [r for r in roles if not r.startswith("=")]):
        if have != want:
            rename[have] = want
    first = [r[1:] for r in roles if r.startswith("=")]
    if first:
        for st in fn.body:
            if isinstance(st, ast.Assign) and len(st.targets) == 1 and isinstance(st.targets[0], ast.Name):
                if st.targets[0].id != first[0]:
                    rename[st.targets[0].id] = first[0]
                break
    # a renamed local must not capture an existing different name
    used = {n.id for n in ast.walk(fn) if isinstance(n, ast.Name)} | set(params)
    for have, want in list(rename.items()):
        if want in used and want not in rename:
            # e.g. first var `requester`, loop var `node`: both become `node`, which is what today's code does as well
            pass
    return _normalised(fn, rename)


def _body(fn):
    """statements without docstring and without bare logging calls"""
    out = []
    for i, s in enumerate(fn.body):
        if i == 0 and isinstance(s, ast.Expr) and isinstance(s.value, ast.Constant) and isinstance(s.value.value, str):
            continue
        if _is_log(s):
            continue
        out.append(s)
    return out


def _is_log(s):
    return (isinstance(s, ast.Expr) and isinstance(s.value, ast.Call) and isinstance(s.value.func, ast.Attribute)
            and isinstance(s.value.func.value, ast.Attribute) and s.value.func.value.attr in ("logger", "_logger"))


def _u(n):
    """source of a node with all blanks removed; nested lines joined with `;`"""
    return ";".join(x.strip() for x in ast.unparse(n).split("\n")).replace(" ", "")


def _is_drop(stmts):
    """body of a guard: optional logging, then a bare `return`"""
    rest = [s for s in stmts if not _is_log(s)]
    return len(rest) == 1 and isinstance(rest[0], ast.Return) and rest[0].value is None


def _bound(e, consts, what):
    if isinstance(e, ast.Name) and e.id in consts:
        return CONSTS_COMMUNITY[e.id]
    if isinstance(e, ast.Constant) and isinstance(e.value, int):
        return str(e.value)
    raise TranslatorError(f"{what}: bound {ast.unparse(e)} is neither a module constant nor an integer literal")


def _guard(test, consts, node_var):
    """recognise one guard condition of on_store_request / on_store_peer_request"""
    t = _u(test)
    if t == f"not{node_var}":
        return ".notBlocked"
    if t == f"notself.check_token({node_var},payload.token)":
        return ".token"
    if t in ("payload.target!=peer.mid", "peer.mid!=payload.target"):
        return ".ownMid"
    # any(len(value) > MAX_ENTRY_SIZE for value in payload.values)
    if isinstance(test, ast.Call) and isinstance(test.func, ast.Name) and test.func.id == "any" and len(test.args) == 1 \
            and isinstance(test.args[0], ast.GeneratorExp):
        g = test.args[0]
        if len(g.generators) == 1 and not g.generators[0].ifs and _u(g.generators[0].iter) == "payload.values" \
                and isinstance(g.generators[0].target, ast.Name) and isinstance(g.elt, ast.Compare) \
                and len(g.elt.ops) == 1 and type(g.elt.ops[0]) in CMP \
                and _u(g.elt.left) == f"len({g.generators[0].target.id})":
            return f".sizeLimit .{CMP[type(g.elt.ops[0])]} {_bound(g.elt.comparators[0], consts, 'size guard')}"
    if isinstance(test, ast.Compare) and len(test.ops) == 1 and type(test.ops[0]) in CMP \
            and _u(test.left) == "len(payload.values)":
        return f".countLimit .{CMP[type(test.ops[0])]} {_bound(test.comparators[0], consts, 'count guard')}"
    raise TranslatorError(f"unrecognised guard condition: {ast.unparse(test)[:160]}")


def _int_expr(e, consts, var):
    """Python integer expression -> Lean Int expression"""
    if isinstance(e, ast.Constant) and isinstance(e.value, int) and not isinstance(e.value, bool):
        return f"({e.value} : Int)"
    if isinstance(e, ast.Name):
        if e.id == var:
            return "(numCloser : Int)"
        if e.id in consts:
            return f"({CONSTS_COMMUNITY[e.id]} : Int)"
    if isinstance(e, ast.BinOp):
        if isinstance(e.op, ast.Pow):
            return f"({_int_expr(e.left, consts, var)} ^ Int.toNat {_int_expr(e.right, consts, var)})"
        op = {ast.Add: "+", ast.Sub: "-", ast.Mult: "*", ast.FloorDiv: "/"}.get(type(e.op))
        if op:
            return f"({_int_expr(e.left, consts, var)} {op} {_int_expr(e.right, consts, var)})"
    if isinstance(e, ast.Call) and isinstance(e.func, ast.Name) and e.func.id in ("max", "min") and len(e.args) == 2 \
            and not e.keywords:
        return f"({e.func.id} {_int_expr(e.args[0], consts, var)} {_int_expr(e.args[1], consts, var)})"
    raise TranslatorError(f"max_age expression outside the integer subset: {ast.unparse(e)[:160]}")


def _store_request(cls, consts):
    fn = _role_rename(_fn(cls, "on_store_request", COMMUNITY), ["peer", "payload", "=node"])
    body = _body(fn)
    if not body or _u(body[0]) != "node=self.get_requesting_node(peer)":
        raise TranslatorError("on_store_request does not start with node = self.get_requesting_node(peer)")
    guards, i = [], 1
    while i < len(body) and isinstance(body[i], ast.If) and not body[i].orelse and _is_drop(body[i].body):
        guards.append(_guard(body[i].test, consts, "node"))
        i += 1
    tail = body[i:]
    if not guards or guards[0] != ".notBlocked":
        raise TranslatorError("on_store_request: the first guard is not the blocked-requester check")
    if any(isinstance(s, ast.If) for s in tail):
        raise TranslatorError("on_store_request: conditional outside the recognised guard prefix")
    max_age = None
    stores = responds = False
    storage_names = {_u(x.targets[0]) for x in tail if isinstance(x, ast.Assign) and len(x.targets) == 1
                     and _u(x.value).startswith("self.get_storage(")}
    for s in tail:
        if isinstance(s, ast.Assign) and _u(s.targets[0]) == "max_age":
            max_age = _int_expr(s.value, consts, "num_closer")
        elif isinstance(s, ast.For) and _u(s.iter) == "payload.values" and isinstance(s.target, ast.Name):
            v = s.target.id
            inner = [x for x in s.body if not _is_log(x)]
            if len(inner) == 1 and isinstance(inner[0], ast.Expr) and isinstance(inner[0].value, ast.Call):
                c = inner[0].value
                if _u(c.func) == "self.add_value" and len(c.args) == 4 and not c.keywords \
                        and _u(c.args[0]) == "payload.target" and _u(c.args[1]) == v \
                        and (_u(c.args[2]).startswith("self.get_storage(") or _u(c.args[2]) in storage_names) \
                        and _u(c.args[3]) == "max_age":
                    stores = max_age is not None
        elif isinstance(s, ast.Expr) and _u(s.value).startswith("self.ez_send(peer,StoreResponsePayload(payload.identifier"):
            responds = stores
    if max_age is None:
        raise TranslatorError("on_store_request: no `max_age = <expr>` assignment found")
    if not stores:
        raise TranslatorError("on_store_request: the loop storing payload.values through add_value(..., max_age) was not recognised")
    if not responds:
        raise TranslatorError("on_store_request: the StoreResponsePayload answer after storing was not recognised")
    return guards, max_age


def _store_peer_request(cls):
    fn = _role_rename(_fn(cls, "on_store_peer_request", DISCOVERY), ["peer", "payload", "=node"])
    body = _body(fn)
    if not body or _u(body[0]) != "node=Node(peer.key,peer.address)":
        raise TranslatorError("on_store_peer_request does not start with node = Node(peer.key, peer.address)")
    guards = []
    i = 1
    while i < len(body):
        s = body[i]
        if isinstance(s, ast.If) and not s.orelse and _is_drop(s.body):
            guards.append(_guard(s.test, {}, "node"))
        elif isinstance(s, ast.If):
            break
        elif _u(s) != "node.last_queries.append(time.time())":
            break
        i += 1
    tail = [_u(s) for s in body[i:]]
    want = ["ifnodenotinself.store[payload.target]:;", "self.ez_send(node,StorePeerResponsePayload(payload.identifier))"]
    if len(tail) != 2 or not tail[0].startswith(want[0]) or "self.store[payload.target].append(node)" not in tail[0] \
            or tail[1] != want[1]:
        raise TranslatorError("on_store_peer_request: tail (append node once, answer) was not recognised")
    return guards


REF_GENERATE = """
def generate_token(self, node):
    return hashlib.sha1(str(node).encode() + self.token_secrets[-1]).digest()
"""
REF_CHECK_ALL = """
def check_token(self, node, token):
    return any(hashlib.sha1(str(node).encode() + secret).digest() == token for secret in self.token_secrets)
"""
REF_CHECK_NEWEST = """
def check_token(self, node, token):
    return hashlib.sha1(str(node).encode() + self.token_secrets[-1]).digest() == token
"""
NOTES = {}


def _probe_tokens():
    """Fallback when generate_token / check_token are not textually one of the reference forms: decide by behaviour on a
    decisive battery against sha1(str(node) + secret) computed here.  Anything but an exact match is an error."""
    import hashlib
    import importlib
    import types
    from collections import deque
    mod = importlib.import_module("ipv8.dht.community")
    s0, s1, s2 = b"A" * 16, b"B" * 16, b"C" * 16

    class N:
        def __init__(self, t):
            self.t = t

        def __str__(self):
            return self.t

    def h(n, sec):
        return hashlib.sha1(str(n).encode() + sec).digest()
    node, other = N("Peer<1.2.3.4:5, bWlkMQ==>"), N("Peer<1.2.3.4:6, bWlkMQ==>")
    other2 = N("Peer<1.2.3.4:5, bWlkMg==>")
    fake = types.SimpleNamespace(token_secrets=deque([s1, s2], maxlen=2))
    try:
        if mod.DHTCommunity.generate_token(fake, node) != h(node, s2):
            raise TranslatorError("generate_token (probed) is not sha1(str(node) + newest secret)")
        chk = lambda n, t: bool(mod.DHTCommunity.check_token(fake, n, t))  # noqa: E731
        acc_new, acc_old = chk(node, h(node, s2)), chk(node, h(node, s1))
        bad = [h(node, s0), h(other, s2), h(other, s1), h(other2, s2), h(node, s2)[:19] + b"\x00", b"",
               h(node, s2)[:19], bytes([h(node, s2)[0] ^ 1]) + h(node, s2)[1:], h(node, s1)[:19] + bytes([h(node, s1)[19] ^ 0x80]),
               h(node, s2) + b"\x00", h(node, s1 + s2), s2, s1]
        if any(chk(node, t) for t in bad):
            raise TranslatorError("check_token (probed) accepts a token that is not sha1(str(node) + live secret)")
        fake.token_secrets = deque([s2], maxlen=2)
        if chk(node, h(node, s1)) or not chk(node, h(node, s2)):
            raise TranslatorError("check_token (probed) does not follow token_secrets")
    except TranslatorError:
        raise
    except Exception as e:
        raise TranslatorError(f"token functions could not be probed ({type(e).__name__}: {e}): they use more than "
                              f"str(node) and self.token_secrets") from e
    if acc_new and acc_old:
        return ".allLive"
    if acc_new and not acc_old:
        return ".newest"
    raise TranslatorError("check_token (probed) rejects the token generate_token just produced")


def _tokens(cls):
    gen = _fn(cls, "generate_token", COMMUNITY)
    chk = _fn(cls, "check_token", COMMUNITY)
    if _same_up_to_renaming(gen, REF_GENERATE):
        if _same_up_to_renaming(chk, REF_CHECK_ALL):
            NOTES["tokens"] = "ast"
            return ".allLive"
        if _same_up_to_renaming(chk, REF_CHECK_NEWEST):
            NOTES["tokens"] = "ast"
            return ".newest"
    NOTES["tokens"] = "probe"
    return _probe_tokens()


def _init(cls):
    fn = _fn(cls, "__init__", COMMUNITY)
    maxlen = None
    intervals = {}
    calls_tm = False
    for s in ast.walk(fn):
        if isinstance(s, (ast.Assign, ast.AnnAssign)):
            tgt = s.targets[0] if isinstance(s, ast.Assign) else s.target
            if _u(tgt) == "self.token_secrets":
                v = s.value
                if not (isinstance(v, ast.Call) and _u(v.func) == "deque" and not v.args and len(v.keywords) == 1
                        and v.keywords[0].arg == "maxlen" and isinstance(v.keywords[0].value, ast.Constant)
                        and isinstance(v.keywords[0].value.value, int)):
                    raise TranslatorError("token_secrets is not deque(maxlen=<int literal>)")
                maxlen = v.keywords[0].value.value
        if isinstance(s, ast.Call) and _u(s.func) == "self.register_task" and len(s.args) >= 2 \
                and isinstance(s.args[0], ast.Constant):
            kw = {k.arg: k.value for k in s.keywords}
            if s.args[0].value in ("token_maintenance", "value_maintenance"):
                if _u(s.args[1]) != "self." + s.args[0].value or set(kw) != {"interval"} \
                        or not isinstance(kw["interval"], ast.Constant) or not isinstance(kw["interval"].value, int):
                    raise TranslatorError(f"register_task({s.args[0].value!r}, ...) is not (name, method, interval=<int>)")
                intervals[s.args[0].value] = kw["interval"].value
        if isinstance(s, ast.Expr) and _u(s) == "self.token_maintenance()":
            calls_tm = True
    if maxlen is None or set(intervals) != {"token_maintenance", "value_maintenance"}:
        raise TranslatorError("DHTCommunity.__init__: token_secrets deque or maintenance tasks not found")
    if not calls_tm:
        raise TranslatorError("DHTCommunity.__init__ does not call token_maintenance() once")
    tm = _body(_fn(cls, "token_maintenance", COMMUNITY))
    if not tm or _u(tm[0]) != "self.token_secrets.append(os.urandom(16))":
        raise TranslatorError("token_maintenance does not start by appending os.urandom(16) to token_secrets")
    ref_tm = ("def token_maintenance(self):\n    self.token_secrets.append(os.urandom(16))\n    now = time.time()\n"
              "    for node_id, (ts, _) in COPY(self.tokens.items()):\n        if now > ts + TOKEN_EXPIRATION_TIME:\n"
              "            self.tokens.pop(node_id, None)\n")
    ref_tm2 = ("def token_maintenance(self):\n    self.token_secrets.append(os.urandom(16))\n    now = time.time()\n"
               "    self.tokens = {node_id: (ts, token) for node_id, (ts, token) in self.tokens.items()"
               " if not now > ts + TOKEN_EXPIRATION_TIME}\n")
    tmf = _fn(cls, "token_maintenance", COMMUNITY)
    if not (any(_same_up_to_renaming(tmf, ref_tm.replace("COPY", c)) for c in ("list", "tuple"))
            or _same_up_to_renaming(tmf, ref_tm2)):
        raise TranslatorError("token_maintenance: the clean-up of received tokens is not the recognised shape (drop entries "
                              "with now > ts + TOKEN_EXPIRATION_TIME while iterating over a COPY of self.tokens)")
    if not any(_same_up_to_renaming(_fn(cls, "value_maintenance", COMMUNITY), r) for r in (
            "def value_maintenance(self):\n    for storage in self.storages.values():\n        storage.clean()",
            "def value_maintenance(self):\n    for address_cls, storage in self.storages.items():\n        storage.clean()",
            "def value_maintenance(self):\n    for address_cls in self.storages:\n        self.storages[address_cls].clean()")):
        raise TranslatorError("value_maintenance is not `for storage in self.storages.values(): storage.clean()`")
    return maxlen, intervals


REF_UNSERIALIZE = """
def unserialize_value(self, value):
    if value[0] == DHT_ENTRY_STR:
        strpayload, _ = self.serializer.unpack_serializable(StrPayload, value, offset=1)
        return strpayload.data, None, 0

    if value[0] == DHT_ENTRY_STR_SIGNED:
        payload, _ = self.serializer.unpack_serializable(SignedStrPayload, value, offset=1)
        public_key = self.crypto.key_from_public_bin(payload.public_key)
        sig_len = self.crypto.get_signature_length(public_key)
        sig = value[-sig_len:]
        if self.crypto.is_valid_signature(public_key, value[:-sig_len], sig):
            return payload.data, public_key.key_to_bin(), payload.version

    return None
"""
# the same with the signature slice inlined
REF_UNSERIALIZE_INLINE = REF_UNSERIALIZE.replace("        sig = value[-sig_len:]\n", "").replace(
    "value[:-sig_len], sig)", "value[:-sig_len], value[-sig_len:])")


# the same decision written with guard clauses (early `return None` for an unknown entry type and for a signature that does
# not verify); the slices may be named in one tuple assignment, in two assignments, or written in place
_UNS_HEAD = """
def unserialize_value(self, value):
    if value[0] == DHT_ENTRY_STR:
        strpayload, _ = self.serializer.unpack_serializable(StrPayload, value, offset=1)
        return strpayload.data, None, 0
    if value[0] != DHT_ENTRY_STR_SIGNED:
        return None
    payload, _ = self.serializer.unpack_serializable(SignedStrPayload, value, offset=1)
    public_key = self.crypto.key_from_public_bin(payload.public_key)
    sig_len = self.crypto.get_signature_length(public_key)
"""
_UNS_TAILS = ["""    signed_part, sig = value[:-sig_len], value[-sig_len:]
    if not self.crypto.is_valid_signature(public_key, signed_part, sig):
        return None
    return payload.data, public_key.key_to_bin(), payload.version
""", """    signed_part = value[:-sig_len]
    sig = value[-sig_len:]
    if not self.crypto.is_valid_signature(public_key, signed_part, sig):
        return None
    return payload.data, public_key.key_to_bin(), payload.version
""", """    sig = value[-sig_len:]
    if not self.crypto.is_valid_signature(public_key, value[:-sig_len], sig):
        return None
    return payload.data, public_key.key_to_bin(), payload.version
""", """    if not self.crypto.is_valid_signature(public_key, value[:-sig_len], value[-sig_len:]):
        return None
    return payload.data, public_key.key_to_bin(), payload.version
""", """    sig = value[-sig_len:]
    if self.crypto.is_valid_signature(public_key, value[:-sig_len], sig):
        return payload.data, public_key.key_to_bin(), payload.version
    return None
"""]
REF_UNSERIALIZE_GUARDS = [_UNS_HEAD + t for t in _UNS_TAILS]


def _unserialize(cls):
    """up to renaming of locals, keyword/positional arguments, comments and logging"""
    fn = _fn(cls, "unserialize_value", COMMUNITY)
    if not (_same_up_to_renaming(fn, REF_UNSERIALIZE) or _same_up_to_renaming(fn, REF_UNSERIALIZE_INLINE)
            or any(_same_up_to_renaming(fn, r) for r in REF_UNSERIALIZE_GUARDS)):
        raise TranslatorError("unserialize_value is not the recognised shape: plain branch returns (data, None, 0); signed "
                              "branch returns (data, canonical encoding of the parsed key, version) only if "
                              "is_valid_signature(public_key, value[:-sig_len], value[-sig_len:])")
    return True


REF_POST_PROCESS = """
def post_process_values(self, values):
    unpacked = defaultdict(list)
    for value in values:
        unserialized = self.unserialize_value(value)
        if unserialized:
            data, public_key, version = unserialized
            unpacked[public_key].append((version, data))

    results = []

    for public_key, data_list in unpacked.items():
        if public_key is not None:
            results.append((PICK(data_list, key=lambda t: t[0])[1], public_key))

    return [*results, *((data[1], None) for data in unpacked[None])]
"""


PP_GROUP = ["""
    unpacked = defaultdict(list)
    for value in values:
        unserialized = self.unserialize_value(value)
        if unserialized:
            data, public_key, version = unserialized
            unpacked[public_key].append((version, data))
""", """
    unpacked = {None: []}
    for value in values:
        unserialized = self.unserialize_value(value)
        if unserialized:
            data, public_key, version = unserialized
            unpacked.setdefault(public_key, []).append((version, data))
"""]
PP_SIGNED = ["""
    results = []
    for public_key, data_list in unpacked.items():
        if public_key is not None:
            results.append((PICK(data_list, key=lambda t: t[0])[1], public_key))
""", """
    results = [(PICK(data_list, key=lambda t: t[0])[1], public_key) for public_key, data_list in unpacked.items()
               if public_key is not None]
"""]
PP_UNSIGNED = ["""
    return [*results, *((data[1], None) for data in unpacked[None])]
""", """
    results.extend((data[1], None) for data in unpacked[None])
    return results
""", """
    unsigned = [(data, None) for _, data in unpacked[None]]
    return results + unsigned
""", """
    unsigned = [(data[1], None) for data in unpacked[None]]
    return results + unsigned
""", """
    return results + [(data, None) for _, data in unpacked[None]]
"""]


def _post_process(cls):
    """group verified values by public key (insertion order), one PICK by version per key (first extremal element), then the
    unsigned values in order: any combination of the equivalent forms of the three parts, up to renaming"""
    fn = _fn(cls, "post_process_values", COMMUNITY)
    for pick in ("max", "min"):
        for g in PP_GROUP:
            for sg in PP_SIGNED:
                for u in PP_UNSIGNED:
                    ref = "def post_process_values(self, values):" + g + sg.replace("PICK", pick) + u
                    if _same_up_to_renaming(fn, ref):
                        return ".maxVersion" if pick == "max" else ".minVersion"
    raise TranslatorError("post_process_values is not the recognised shape (group verified values by public key, one "
                          "max/min by version per key, then the unsigned values)")


def _store_on_nodes(cls, consts):
    """the local part of store_on_nodes: size filter, count cap, `for value in reversed(values): add_value(key, value, storage)`"""
    fn = _role_rename(_fn(cls, "store_on_nodes", COMMUNITY), ["key", "values", "nodes"])
    keep = cap = None
    loop = False
    for st in ast.walk(fn):
        if isinstance(st, ast.Assign) and _u(st.targets[0]) == "values":
            v = st.value
            # values = [value for value in values if len(value) <= MAX][:CAP]   |   values = values[:CAP]   |  filter only
            if isinstance(v, ast.Subscript) and isinstance(v.slice, ast.Slice) and v.slice.lower is None \
                    and v.slice.step is None and v.slice.upper is not None:
                cap = _bound(v.slice.upper, consts, "store_on_nodes cap")
                v = v.value
            if isinstance(v, ast.ListComp) and len(v.generators) == 1 and _u(v.generators[0].iter) == "values" \
                    and isinstance(v.generators[0].target, ast.Name) and _u(v.elt) == v.generators[0].target.id \
                    and len(v.generators[0].ifs) == 1 and isinstance(v.generators[0].ifs[0], ast.Compare):
                c = v.generators[0].ifs[0]
                if len(c.ops) == 1 and type(c.ops[0]) in CMP and _u(c.left) == f"len({v.generators[0].target.id})":
                    keep = f"(.{CMP[type(c.ops[0])]}, {_bound(c.comparators[0], consts, 'store_on_nodes size filter')})"
                    v = ast.Name(id="values")
            if not (isinstance(v, ast.Name) and v.id == "values"):
                raise TranslatorError(f"store_on_nodes: unrecognised rewrite of `values`: {ast.unparse(st)[:120]}")
        if isinstance(st, ast.For) and _u(st.iter) == "reversed(values)" and isinstance(st.target, ast.Name):
            inner = [x for x in st.body if not _is_log(x)]
            if len(inner) == 1 and _u(inner[0]) == f"self.add_value(key,{st.target.id},storage)":
                loop = True
    # the freshness test a received token must pass before it is presented
    send_cmp = None
    for st in ast.walk(fn):
        if isinstance(st, ast.If) and isinstance(st.test, ast.BoolOp) and isinstance(st.test.op, ast.And) \
                and len(st.test.values) == 2 and _u(st.test.values[0]) == "node.idinself.tokens" \
                and isinstance(st.test.values[1], ast.Compare) and len(st.test.values[1].ops) == 1:
            c = st.test.values[1]
            if _u(c.left) == "self.tokens[node.id][0]+TOKEN_EXPIRATION_TIME" and _u(c.comparators[0]) == "now" \
                    and type(c.ops[0]) in CMP and "StoreRequestPayload" in _u(st):
                send_cmp = CMP[type(c.ops[0])]
    if send_cmp is None:
        raise TranslatorError("store_on_nodes: `if node.id in self.tokens and self.tokens[node.id][0] + "
                              "TOKEN_EXPIRATION_TIME <cmp> now:` guarding the StoreRequest was not recognised")
    NOTES["send_cmp"] = send_cmp
    if not loop:
        raise TranslatorError("store_on_nodes: the local `for value in reversed(values): self.add_value(key, value, storage)` "
                              "loop was not recognised")
    add = _fn(cls, "add_value", COMMUNITY)
    d = add.args.defaults
    if len(d) != 1 or _u(d[0]) != "MAX_ENTRY_AGE":
        raise TranslatorError("add_value: default max_age is not MAX_ENTRY_AGE")
    if not _same_up_to_renaming(add, REF_ADD_VALUE):
        raise TranslatorError("add_value is not the recognised shape (unserialize; id = sha1(public key) or None; "
                              "storage.put(key, value, id_, version, max_age); nothing stored when unserialize fails)")
    return keep, cap


REF_ADD_VALUE = """
def add_value(self, key, value, storage, max_age=MAX_ENTRY_AGE):
    unserialized = self.unserialize_value(value)
    if unserialized:
        _, public_key, version = unserialized
        id_ = hashlib.sha1(public_key).digest() if public_key else None
        storage.put(key, value, id_=id_, version=version, max_age=max_age)
"""


def _find_request(cls, consts):
    """on_find_request: the token in the answer is generate_token(<the requesting node>), where the requesting node comes from
    get_requesting_node(peer) (the observed source, not an address named in the payload); the values come from
    storage.get(payload.target, payload.offset[, limit])"""
    fn = _role_rename(_fn(cls, "on_find_request", COMMUNITY), ["peer", "payload", "=node"])
    body = _body(fn)
    if not body or _u(body[0]) != "node=self.get_requesting_node(peer)":
        raise TranslatorError("on_find_request does not start with node = self.get_requesting_node(peer)")
    if len(body) < 2 or not (isinstance(body[1], ast.If) and _u(body[1].test) == "notnode" and _is_drop(body[1].body)):
        raise TranslatorError("on_find_request: a blocked requester is not dropped right after get_requesting_node")
    resp = [c for c in ast.walk(fn) if isinstance(c, ast.Call) and _u(c.func) == "FindResponsePayload"]
    if len(resp) != 1 or len(resp[0].args) < 3 or _u(resp[0].args[0]) != "payload.identifier" \
            or _u(resp[0].args[1]) != "self.generate_token(node)" or _u(resp[0].args[2]) != "values":
        raise TranslatorError("on_find_request: the answer is not FindResponsePayload(payload.identifier, "
                              "self.generate_token(<requesting node>), values, ...)")
    if any(isinstance(x, ast.Assign) and any(_u(t) == "node" for t in x.targets) for x in body[1:]):
        raise TranslatorError("on_find_request: the requesting node is reassigned before the token is generated")
    gets = [c for c in ast.walk(fn) if isinstance(c, ast.Call) and _u(c.func) == "storage.get"]
    if len(gets) != 1:
        raise TranslatorError("on_find_request: expected exactly one storage.get(...)")
    g = gets[0]
    kw = {k.arg: k.value for k in g.keywords}
    args = list(g.args) + [kw.get(n) for n in ["key", "starting_point", "limit"][len(g.args):]]
    if len(args) != 3 or _u(args[0]) != "payload.target" or args[1] is None or _u(args[1]) != "payload.offset":
        raise TranslatorError("on_find_request: storage.get is not called with (payload.target, payload.offset[, limit])")
    limit = None
    if args[2] is not None and not (isinstance(args[2], ast.Constant) and args[2].value is None):
        if not (isinstance(args[2], ast.Name) and args[2].id == "MAX_VALUES_IN_FIND"):
            raise TranslatorError("on_find_request: the limit of storage.get is not MAX_VALUES_IN_FIND")
        limit = "maxValuesInFind"
    return limit


def _probe_clean():
    """Fallback for an unrecognised Storage.clean: run it on every expired/fresh pattern up to length 5 (two keys at once)
    and accept only if it is exactly the filter or exactly the tail scan."""
    import importlib
    import itertools
    mod = importlib.import_module("ipv8.dht.storage")
    real = mod.time.time
    mod.time.time = lambda: 1000.0
    try:
        verdicts = set()
        for n in range(0, 6):
            for pat in itertools.product([True, False], repeat=n):
                st = mod.Storage()
                vals = []
                for i, expired in enumerate(pat):
                    v = mod.Value(b"id%d" % i, b"d%d" % i, 10 if expired else 5000, 0)
                    v.last_update = 900.0
                    vals.append(v)
                st.items[b"k1"] = list(vals)
                st.items[b"k2"] = list(reversed(vals))
                st.clean()
                got = ([v.data for v in st.items[b"k1"]], [v.data for v in st.items[b"k2"]])

                def filt(l):
                    return [v.data for v in l if not (1000.0 - v.last_update > v.max_age)]

                def tail(l):
                    l = list(l)
                    while l and (1000.0 - l[-1].last_update > l[-1].max_age):
                        l.pop()
                    return [v.data for v in l]
                rv = list(reversed(vals))
                if got == (filt(vals), filt(rv)):
                    verdicts.add("false") if got != (tail(vals), tail(rv)) else None
                elif got == (tail(vals), tail(rv)):
                    verdicts.add("true")
                else:
                    raise TranslatorError(f"Storage.clean (probed) is neither the filter nor the tail scan on pattern {pat}")
        if len(verdicts) != 1:
            raise TranslatorError("Storage.clean (probed) is inconsistent between patterns")
        return verdicts.pop()
    except TranslatorError:
        raise
    except Exception as e:
        raise TranslatorError(f"Storage.clean could not be probed: {type(e).__name__}: {e}") from e
    finally:
        mod.time.time = real


def _storage():
    tree = _parse(STORAGE)
    val = _cls(tree, "Value", STORAGE)
    sto = _cls(tree, "Storage", STORAGE)
    exp = _body(_fn(val, "expired", STORAGE))
    if len(exp) != 1 or not isinstance(exp[0], ast.Return) or not isinstance(exp[0].value, ast.Compare) \
            or len(exp[0].value.ops) != 1 or type(exp[0].value.ops[0]) not in CMP \
            or _u(exp[0].value.left) != "self.age" or _u(exp[0].value.comparators[0]) != "self.max_age":
        raise TranslatorError("Value.expired is not `return self.age <cmp> self.max_age`")
    expired_cmp = CMP[type(exp[0].value.ops[0])]
    age = _body(_fn(val, "age", STORAGE))
    if len(age) != 1 or _u(age[0]) != "returntime.time()-self.last_update":
        raise TranslatorError("Value.age is not time.time() - self.last_update")
    # put: find the version comparison
    put = _fn(sto, "put", STORAGE)
    cmps = [n for n in ast.walk(put) if isinstance(n, ast.If) and isinstance(n.test, ast.Compare)
            and "version" in _u(n.test)]
    if len(cmps) != 1 or len(cmps[0].test.ops) != 1 or type(cmps[0].test.ops[0]) not in CMP:
        raise TranslatorError("Storage.put: expected exactly one version comparison")
    t = cmps[0].test
    le, ri = _u(t.left), _u(t.comparators[0])
    op = CMP[type(t.ops[0])]
    newv = next((_u(x.targets[0]) for x in ast.walk(put) if isinstance(x, ast.Assign) and isinstance(x.value, ast.Call)
                 and _u(x.value.func) == "Value"), "new_value")
    oldv = next((_u(x.targets[0]) for x in ast.walk(put) if isinstance(x, ast.Assign)
                 and isinstance(x.value, ast.Subscript) and _u(x.value).startswith("self.items[")), "old_value")
    le, ri = le.replace(newv + ".", "new_value.").replace(oldv + ".", "old_value."), \
        ri.replace(newv + ".", "new_value.").replace(oldv + ".", "old_value.")
    def _is_old(x):
        return x.endswith(".version") and x != "new_value.version" and (x == "old_value.version" or "[index]" in x
                                                                        or x.startswith("self.items["))
    if le == "new_value.version" and _is_old(ri):
        put_cmp = op
    elif ri == "new_value.version" and _is_old(le):
        put_cmp = {"gt": "lt", "ge": "le", "lt": "gt", "le": "ge", "eq": "eq", "ne": "ne"}[op]
    else:
        raise TranslatorError("Storage.put: version comparison is not between new_value and old_value")
    if cmps[0].orelse and not _is_drop(cmps[0].orelse):
        raise TranslatorError("Storage.put: version comparison has an else branch that is not a bare return")
    # clean: reverse scan popping expired values (with or without the early break), or an equivalent filter
    cfn = _fn(sto, "clean", STORAGE)
    ref_scan = ("def clean(self):\n    for key in self.items:\n        for index, value in reversed(list(enumerate(self.items[key]))):\n"
                "            if value.expired:\n                self.items[key].pop(index)\n")
    ref_filters = [
        "def clean(self):\n    for key in self.items:\n        self.items[key] = [value for value in self.items[key] if not value.expired]\n",
        "def clean(self):\n    for key in self.items:\n        self.items[key][:] = [value for value in self.items[key] if not value.expired]\n",
        "def clean(self):\n    for key, values in self.items.items():\n        values[:] = [value for value in values if not value.expired]\n",
    ]
    if _same_up_to_renaming(cfn, ref_scan) or any(_same_up_to_renaming(cfn, r) for r in ref_filters):
        stops, NOTES["clean"] = "false", "ast"
    elif _same_up_to_renaming(cfn, ref_scan + "            else:\n                break\n"):
        stops, NOTES["clean"] = "true", "ast"
    else:
        stops, NOTES["clean"] = _probe_clean(), "probe"
    return expired_cmp, put_cmp, stops


def translate() -> tuple[str, dict]:
    ctree = _parse(COMMUNITY)
    consts = _consts(ctree, CONSTS_COMMUNITY, COMMUNITY)
    rconsts = _consts(_parse(ROUTING), CONSTS_ROUTING, ROUTING)
    dht = _cls(ctree, "DHTCommunity", COMMUNITY)
    maxlen, intervals = _init(dht)
    guards, max_age = _store_request(dht, consts)
    scope = _tokens(dht)
    _unserialize(dht)
    pick = _post_process(dht)
    expired_cmp, put_cmp, stops = _storage()
    keep, cap = _store_on_nodes(dht, consts)
    find_limit = _find_request(dht, consts)
    peer_guards = _store_peer_request(_cls(_parse(DISCOVERY), "DHTDiscoveryCommunity", DISCOVERY))
    L = ["/- GENERATED by tools/gen_dht.py from ipv8/dht/{community,storage,discovery,routing}.py — do not edit -/",
         "import Ipv8.C15.Basic", "", "namespace Ipv8.C15.Gen", "open Ipv8.C15", ""]
    for k, v in consts.items():
        L.append(f"def {CONSTS_COMMUNITY[k]} : Nat := {v}")
    for k, v in rconsts.items():
        L.append(f"def {CONSTS_ROUTING[k]} : Nat := {v}")
    L += [f"def tokenSecretsMaxlen : Nat := {maxlen}",
          f"def tokenMaintenanceInterval : Nat := {intervals['token_maintenance']}",
          f"def valueMaintenanceInterval : Nat := {intervals['value_maintenance']}",
          "", "/-- guards of `on_store_request`, in source order; a request is dropped when one fires -/",
          "def storeGuards : List Guard := [" + ", ".join(guards) + "]",
          "/-- guards of `DHTDiscoveryCommunity.on_store_peer_request` -/",
          "def storePeerGuards : List Guard := [" + ", ".join(peer_guards) + "]",
          "/-- `max_age` of an accepted store request as a function of the number of closer nodes -/",
          f"def storeMaxAge (numCloser : Nat) : Nat := Int.toNat {max_age}",
          "/-- secrets consulted by `check_token` (`generate_token` uses the newest) -/",
          f"def checkScope : TokenScope := {scope}",
          "/-- `store_on_nodes`: values kept for the local store / sent on: size filter `cmp len bound`, then at most `cap` -/",
          f"def localKeep : Option (Cmp × Nat) := {'some ' + keep if keep else 'none'}",
          f"def localCap : Option Nat := {'some ' + cap if cap else 'none'}",
          "/-- `store_on_nodes` presents a received token only if `sendTokenCmp (ts + TOKEN_EXPIRATION_TIME) now` -/",
          f"def sendTokenCmp : Cmp := .{NOTES['send_cmp']}",
          "/-- `on_find_request`: the token is generated for the requesting node (source address and key); limit of storage.get -/",
          f"def findLimit : Option Nat := {'some ' + find_limit if find_limit else 'none'}",
          "/-- per-signer pick of `post_process_values` -/",
          f"def lookupPick : Pick := {pick}",
          "/-- `Storage.put`: an existing value is replaced when `putCmp new.version old.version` -/",
          f"def putCmp : Cmp := .{put_cmp}",
          "/-- `Value.expired`: `expiredCmp age max_age` -/",
          f"def expiredCmp : Cmp := .{expired_cmp}",
          "/-- `Storage.clean` scans from the tail and stops at the first non-expired value -/",
          f"def cleanStopsAtFirstFresh : Bool := {stops}",
          "", "end Ipv8.C15.Gen", ""]
    info = {"consts": consts, "guards": guards, "peer_guards": peer_guards, "scope": scope, "pick": pick,
            "put_cmp": put_cmp, "expired_cmp": expired_cmp, "clean_stops": stops, "max_age": max_age,
            "maxlen": maxlen, "intervals": intervals, "local_keep": keep, "local_cap": cap,
            "recognised_by": dict(NOTES)}
    return "\n".join(L), info


if __name__ == "__main__":
    s, i = translate()
    print(s)
