"""
Translator for C16: the constants of the token tree, read from the CURRENT source by AST (never by importing it).

  tree.py    TokenTree.__init__           self.unchained_max_size = <int>
             TokenTree.verify / get_root_path   default of `maxdepth`
             TokenTree.unserialize_public chunk_size = <int> + sig_len
  token.py   Token.unserialize            struct.unpack_from(f">{a}s{b}s{sig_len}s", data, offset=offset)
             Token.get_plaintext          return self.previous_token_hash + self.content_hash   (field order)

Output: lean/Ipv8/C16/GenConst.lean.  Anything outside these exact shapes raises TranslatorError.
"""
from __future__ import annotations

import ast
import re

from vlib import REPO, TranslatorError

TREE = "ipv8/attestation/tokentree/tree.py"
TOKEN = "ipv8/attestation/tokentree/token.py"


def _cls(mod: ast.Module, name: str) -> ast.ClassDef:
    for n in mod.body:
        if isinstance(n, ast.ClassDef) and n.name == name:
            return n
    raise TranslatorError(f"class {name} not found")


def _fn(cls: ast.ClassDef, name: str) -> ast.FunctionDef:
    for n in cls.body:
        if isinstance(n, ast.FunctionDef) and n.name == name:
            return n
    raise TranslatorError(f"{cls.name}.{name} not found")


_CONSTS: dict[str, int] = {}      # module-level NAME = <int> of tree.py / token.py (never reassigned), by name


def _module_constants(*mods: ast.Module) -> dict[str, int]:
    """named integer constants: top-level `NAME = <int expr>` / `NAME: int = <int expr>` assigned exactly once"""
    seen: dict[str, list] = {}
    for mod in mods:
        for n in mod.body:
            if isinstance(n, ast.Assign) and len(n.targets) == 1 and isinstance(n.targets[0], ast.Name):
                seen.setdefault(n.targets[0].id, []).append(n.value)
            elif isinstance(n, ast.AnnAssign) and isinstance(n.target, ast.Name) and n.value is not None:
                seen.setdefault(n.target.id, []).append(n.value)
    out: dict[str, int] = {}
    for _ in range(3):      # constants defined through earlier constants
        for name, vals in seen.items():
            if len(vals) == 1 and name not in out:
                try:
                    _CONSTS.clear()
                    _CONSTS.update(out)
                    out[name] = _int(vals[0], name)
                except TranslatorError:
                    pass
    return out


def _int(node, what: str) -> int:
    if isinstance(node, ast.Constant) and isinstance(node.value, int) and not isinstance(node.value, bool):
        return node.value
    if isinstance(node, ast.Name) and node.id in _CONSTS:
        return _CONSTS[node.id]
    if isinstance(node, ast.BinOp) and isinstance(node.op, (ast.Add, ast.Mult)):      # 32 + 32, 2 * 32
        a, b = _int(node.left, what), _int(node.right, what)
        return a + b if isinstance(node.op, ast.Add) else a * b
    if isinstance(node, ast.UnaryOp) and isinstance(node.op, ast.USub) and isinstance(node.operand, ast.Constant):
        return -node.operand.value
    raise TranslatorError(f"{what}: expected an integer literal, found {ast.dump(node)[:80]}")


def _default(fn: ast.FunctionDef, arg: str) -> int:
    names = [a.arg for a in fn.args.args]
    kwonly = [a.arg for a in fn.args.kwonlyargs]
    if arg in kwonly:
        d = fn.args.kw_defaults[kwonly.index(arg)]
        if d is None:
            raise TranslatorError(f"{fn.name}: parameter {arg} has no default")
        return _int(d, f"{fn.name}({arg}=...)")
    if arg not in names:
        raise TranslatorError(f"{fn.name}: no parameter {arg}")
    k = names.index(arg) - (len(names) - len(fn.args.defaults))
    if k < 0:
        raise TranslatorError(f"{fn.name}: parameter {arg} has no default")
    return _int(fn.args.defaults[k], f"{fn.name}({arg}=...)")


def extract() -> dict:
    tree_mod = ast.parse((REPO / TREE).read_text())
    token_mod = ast.parse((REPO / TOKEN).read_text())
    consts = _module_constants(token_mod, tree_mod)
    _CONSTS.clear()
    _CONSTS.update(consts)
    tt = _cls(tree_mod, "TokenTree")
    out = {}
    # unchained_max_size
    caps = [s.value for s in ast.walk(_fn(tt, "__init__"))
            if (isinstance(s, ast.Assign) and len(s.targets) == 1 and isinstance(s.targets[0], ast.Attribute)
                and s.targets[0].attr == "unchained_max_size")
            or (isinstance(s, ast.AnnAssign) and isinstance(s.target, ast.Attribute)
                and s.target.attr == "unchained_max_size" and s.value is not None)]
    if len(caps) != 1:
        raise TranslatorError("TokenTree.__init__: expected exactly one assignment to self.unchained_max_size")
    out["unchainedMaxSize"] = _int(caps[0], "unchained_max_size")
    if out["unchainedMaxSize"] < 0:
        raise TranslatorError("unchained_max_size is negative")
    # maxdepth defaults
    dv, dp = _default(_fn(tt, "verify"), "maxdepth"), _default(_fn(tt, "get_root_path"), "maxdepth")
    if dv != dp:
        raise TranslatorError(f"verify and get_root_path have different default maxdepth ({dv} / {dp})")
    out["maxDepthDefault"] = dv
    # chunk_size = <int> + sig_len
    cs = [s for s in ast.walk(_fn(tt, "unserialize_public")) if isinstance(s, ast.Assign) and len(s.targets) == 1
          and isinstance(s.targets[0], ast.Name) and s.targets[0].id == "chunk_size"]
    if len(cs) != 1 or not (isinstance(cs[0].value, ast.BinOp) and isinstance(cs[0].value.op, ast.Add)):  # noqa
        raise TranslatorError("unserialize_public: expected `chunk_size = <int> + sig_len`")
    def terms(node):
        if isinstance(node, ast.BinOp) and isinstance(node.op, ast.Add):
            return terms(node.left) + terms(node.right)
        return [node]
    ts = terms(cs[0].value)
    sigs = [t for t in ts if isinstance(t, ast.Name) and t.id == "sig_len"]
    if len(sigs) != 1:
        raise TranslatorError("unserialize_public: expected `chunk_size = <int> + sig_len`")
    out["chunkBase"] = sum(_int(t, "chunk_size") for t in ts if t is not sigs[0])
    # struct format of Token.unserialize
    tk = _cls(token_mod, "Token")
    fmts = [n for n in ast.walk(_fn(tk, "unserialize")) if isinstance(n, ast.Call)
            and isinstance(n.func, ast.Attribute) and n.func.attr == "unpack_from"]
    if len(fmts) != 1 or not fmts[0].args:
        raise TranslatorError("Token.unserialize: expected one struct.unpack_from(f\"...\", data, offset=offset)")
    js = fmts[0].args[0]
    if isinstance(js, ast.Name):       # the format held in a local that is assigned once
        local = [s.value for s in ast.walk(_fn(tk, "unserialize")) if isinstance(s, ast.Assign) and len(s.targets) == 1
                 and isinstance(s.targets[0], ast.Name) and s.targets[0].id == js.id]
        js = local[0] if len(local) == 1 else js
    if not isinstance(js, ast.JoinedStr):
        raise TranslatorError("Token.unserialize: expected one struct.unpack_from(f\"...\", data, offset=offset)")
    parts = []
    for v in js.values:
        if isinstance(v, ast.Constant):
            parts.append(v.value)
        elif isinstance(v, ast.FormattedValue) and isinstance(v.value, ast.Name) and v.value.id == "sig_len":
            parts.append("{sig_len}")
        elif isinstance(v, ast.FormattedValue) and v.format_spec is None and v.conversion == -1 \
                and isinstance(v.value, (ast.Name, ast.BinOp, ast.Constant)):
            parts.append(str(_int(v.value, "struct format")))
        else:
            raise TranslatorError("Token.unserialize: unexpected piece in the struct format")
    fmt = "".join(parts)
    m = re.fullmatch(r">(\d+)s(\d+)s\{sig_len\}s", fmt)
    if not m:
        raise TranslatorError(f"Token.unserialize: struct format {fmt!r} is not >{{a}}s{{b}}s{{sig_len}}s")
    out["prevLen"], out["chashLen"] = int(m.group(1)), int(m.group(2))
    kw = {k.arg: k.value for k in fmts[0].keywords}
    off = kw.get("offset", fmts[0].args[2] if len(fmts[0].args) >= 3 else None)
    fn = _fn(tk, "unserialize")
    params = [a.arg for a in fn.args.args]
    if not (len(fmts[0].args) >= 2 and isinstance(fmts[0].args[1], ast.Name) and fmts[0].args[1].id in params
            and isinstance(off, ast.Name) and off.id in params):
        raise TranslatorError("Token.unserialize: unpack_from must read the given data at the given offset")
    # the three unpacked fields must feed Token(<1st>, content_hash=<2nd>, signature=<3rd>)
    asg = [s for s in fn.body if isinstance(s, ast.Assign) and isinstance(s.targets[0], ast.Tuple)
           and s.value is fmts[0]]
    if len(asg) != 1 or len(asg[0].targets[0].elts) != 3 or \
            not all(isinstance(e, ast.Name) for e in asg[0].targets[0].elts):
        raise TranslatorError("Token.unserialize: expected `a, b, c = struct.unpack_from(...)`")
    n1, n2, n3 = (e.id for e in asg[0].targets[0].elts)
    rets = [s for s in fn.body if isinstance(s, ast.Return)]
    call = rets[0].value if len(rets) == 1 else None
    ckw = {k.arg: k.value for k in call.keywords} if isinstance(call, ast.Call) else {}
    if not (isinstance(call, ast.Call) and len(call.args) == 1 and getattr(call.args[0], "id", None) == n1
            and getattr(ckw.get("content_hash"), "id", None) == n2
            and getattr(ckw.get("signature"), "id", None) == n3 and set(ckw) == {"content_hash", "signature"}):
        raise TranslatorError("Token.unserialize: expected `return Token(<1st field>, content_hash=<2nd>, "
                              "signature=<3rd>)`")
    # get_plaintext: previous_token_hash + content_hash
    gp = _fn(tk, "get_plaintext")
    rets = [s for s in gp.body if isinstance(s, ast.Return)]
    ok = (len(rets) == 1 and isinstance(rets[0].value, ast.BinOp) and isinstance(rets[0].value.op, ast.Add)
          and getattr(rets[0].value.left, "attr", None) == "previous_token_hash"
          and getattr(rets[0].value.right, "attr", None) == "content_hash")
    if not ok:
        raise TranslatorError("Token.get_plaintext: expected `return self.previous_token_hash + self.content_hash`")
    return out


# ------------------------------------------------------------------------------------------------------------
# branch structure of gather_token, of the verify / get_root_path loop body and of receive_content -> decision trees
# ------------------------------------------------------------------------------------------------------------
def _src(n) -> str:
    return ast.unparse(n)


class _Tree:
    """statement lists -> Lean DTree terms.  Subset: `if`, `return`, `break`, plain calls / assignments that are
    recognised as one of the actions, logging calls; anything else raises TranslatorError."""

    def __init__(self, fn: ast.FunctionDef, tok: str, mode: str):
        self.fn, self.tok, self.mode = fn, tok, mode
        self.aliases: dict[str, str] = {}      # local name -> source text it stands for
        self.stored: set[str] = set()          # names bound to self.elements[token.get_hash()]
        self.cap_cmp = None
        self.pop_last = None

    def norm(self, n) -> str:
        t = _src(n)
        for k, v in self.aliases.items():
            t = re.sub(rf"(?<![\w.]){k}\b", v, t)
        return t.replace(" ", "")

    # ---- conditions --------------------------------------------------------------------------------------
    def cond(self, e) -> str:
        if isinstance(e, ast.BoolOp):
            op = "and" if isinstance(e.op, ast.And) else "or"
            out = self.cond(e.values[0])
            for v in e.values[1:]:
                out = f"(.{op} {out} {self.cond(v)})"
            return out
        if isinstance(e, ast.UnaryOp) and isinstance(e.op, ast.Not):
            return f"(.not {self.cond(e.operand)})"
        if isinstance(e, ast.Compare) and len(e.ops) > 1:       # a == b == c
            parts = [e.left] + list(e.comparators)
            out = None
            for k, op in enumerate(e.ops):
                c = self.cond(ast.Compare(left=parts[k], ops=[op], comparators=[parts[k + 1]]))
                out = c if out is None else f"(.and {out} {c})"
            return out
        if isinstance(e, ast.Compare) and len(e.ops) == 1:
            l, r, op = self.norm(e.left), self.norm(e.comparators[0]), e.ops[0]
            tok = self.tok
            glen = "len(self.genesis_hash)"

            def signed(atom, positive):
                return f"(.atom .{atom})" if positive else f"(.not (.atom .{atom}))"
            pair = {l, r}
            for fld, atom in (("previous_token_hash", "prevLenNe"), ("content_hash", "chashLenNe")):
                if pair == {f"len({tok}.{fld})", glen} and isinstance(op, (ast.NotEq, ast.Eq)):
                    return signed(atom, isinstance(op, ast.NotEq))
            if pair == {f"len({tok}.signature)", "self.public_key.get_signature_length()"} and \
                    isinstance(op, (ast.NotEq, ast.Eq)):
                return signed("sigLenNe", isinstance(op, ast.NotEq))
            if pair == {f"{tok}.previous_token_hash", "self.genesis_hash"} and isinstance(op, (ast.NotEq, ast.Eq)):
                return signed("prevIsGenesis", isinstance(op, ast.Eq))
            if r == "self.elements" and isinstance(op, (ast.In, ast.NotIn)):
                if l == f"{tok}.previous_token_hash":
                    return signed("prevInElements", isinstance(op, ast.In))
                if l == f"{tok}.get_hash()":
                    return signed("hashInElements", isinstance(op, ast.In))
            if r == "None" and isinstance(op, (ast.Is, ast.IsNot)):
                if l == f"{tok}.content":
                    return signed("tokenContentNone", isinstance(op, ast.Is))
                if l.endswith(".content") and (l[:-8] in self.stored or l[:-8] == f"self.elements[{tok}.get_hash()]"):
                    return signed("storedContentNone", isinstance(op, ast.Is))
            if self.mode == "receive" and isinstance(op, (ast.Eq, ast.NotEq)) and "self.content_hash" in pair:
                other = (pair - {"self.content_hash"}).pop()
                if other in ("hashlib.sha3_256(content).digest()", "sha3_256(content).digest()"):
                    return signed("contentHashMatches", isinstance(op, ast.Eq))
        if isinstance(e, ast.Call) and self.norm(e) == f"{self.tok}.verify(self.public_key)":
            return "(.atom .verify)"
        raise TranslatorError(f"{self.fn.name}: condition outside the subset: {_src(e)[:80]}")

    # ---- statements --------------------------------------------------------------------------------------
    def block(self, stmts: list, st: dict) -> str:
        st = dict(st)
        for k, s in enumerate(stmts):
            rest = stmts[k + 1:]
            if isinstance(s, ast.Expr) and isinstance(s.value, ast.Constant):      # docstring
                continue
            if isinstance(s, (ast.If, ast.While)) and "len(self.unchained)" in self.norm(s.test) and st.get("parked"):
                self.waiting_bound(s)                                                 # the bound of the waiting area
                continue
            if isinstance(s, ast.If):
                return f"(.ite {self.cond(s.test)} {self.block(s.body + rest, st)} {self.block(s.orelse + rest, st)})"
            if isinstance(s, ast.Return):
                return f"(.leaf .{self.leaf(s, st)})"
            if isinstance(s, ast.Break):
                return "(.leaf .brk)"
            self.simple(s, st)
        if self.mode == "loop":
            if st.get("stepped"):
                return "(.leaf .step)"
            raise TranslatorError(f"{self.fn.name}: loop body ends without moving to the parent")
        return f"(.leaf .{'park' if st.get('parked') else 'retNone'})"

    def simple(self, s, st):
        t = self.norm(s)
        tok = self.tok
        if isinstance(s, ast.Expr) and isinstance(s.value, ast.Call):
            if t.startswith("self._logger."):
                return
            if self.mode == "loop" and t in ("path.append(current)", "path.extend([current])"):
                return
            if t == f"self._append_chain_reaction_token({tok})":
                st["chained"] = True
                return
            m = re.fullmatch(r"(.+)\.receive_content\(" + re.escape(tok) + r"\.content\)", t)
            if m and (m.group(1) in self.stored or m.group(1) == f"self.elements[{tok}.get_hash()]"):
                st["shadow"] = "shadowReceive"
                return
        if isinstance(s, (ast.Assign, ast.AnnAssign, ast.AugAssign)):
            tgt = s.targets[0] if isinstance(s, ast.Assign) else s.target
            val = self.norm(s.value) if s.value is not None else ""
            if isinstance(tgt, ast.Name) and isinstance(s.value, ast.Constant) and \
                    tgt.id not in ("current", "steps", "path", self.tok):
                return      # a local given a literal value: no test and no action of the translated language
            if isinstance(tgt, ast.Name):
                if self.mode == "loop" and tgt.id == "current":
                    if val != "self.elements[current.previous_token_hash]":
                        raise TranslatorError(f"{self.fn.name}: the loop moves to {val}, not to the stored parent")
                    st["stepped"] = True
                    return
                if self.mode == "loop" and tgt.id in ("steps", "path"):
                    return
                if val == f"self.elements[{tok}.get_hash()]":
                    self.stored.add(tgt.id)
                    return
                if self.mode == "receive" and val in ("hashlib.sha3_256(content).digest()", "sha3_256(content).digest()"):
                    self.aliases[tgt.id] = _src(s.value)
                    return
                if val in ("len(self.genesis_hash)", f"{tok}.previous_token_hash", f"{tok}.get_hash()",
                           f"{tok}.content_hash", "self.genesis_hash", f"{tok}.content"):
                    self.aliases[tgt.id] = val
                    return
            tt = self.norm(tgt)
            if tt == f"self.unchained[{tok}]" and val == "None":
                st["parked"] = True
                return
            if tt.endswith(".content") and val == f"{tok}.content" and \
                    (tt[:-8] in self.stored or tt[:-8] == f"self.elements[{tok}.get_hash()]"):
                st["shadow"] = "shadowAssign"
                return
            if self.mode == "receive" and tt == "self.content" and val == "content":
                st["set"] = True
                return
        raise TranslatorError(f"{self.fn.name}: statement outside the subset: {_src(s)[:80]}")

    def leaf(self, s: ast.Return, st) -> str:
        v = "None" if s.value is None else self.norm(s.value)
        if self.mode == "gather":
            if v == "None":
                if st.get("chained") or st.get("shadow"):
                    raise TranslatorError("gather_token: returns None after changing the tree")
                return "park" if st.get("parked") else "retNone"
            if v in self.stored or v == f"self.elements[{self.tok}.get_hash()]":
                return st.get("shadow", "shadowKeep")
            if v == self.tok and st.get("chained"):
                return "chain"
        elif self.mode == "loop":
            if v in ("False", "[]", "None"):
                return "fail"
        elif self.mode == "receive":
            if v == "True" and st.get("set"):
                return "setContent"
            if v == "False" and not st.get("set"):
                return "retFalse"
        raise TranslatorError(f"{self.fn.name}: return outside the subset: return {v}")

    def waiting_bound(self, s):
        t = s.test
        ok = (isinstance(t, ast.Compare) and len(t.ops) == 1 and self.norm(t.left) == "len(self.unchained)"
              and self.norm(t.comparators[0]) == "self.unchained_max_size")
        ops = {ast.Gt: "gt", ast.GtE: "ge", ast.Lt: "lt", ast.LtE: "le", ast.Eq: "eq", ast.NotEq: "ne"}
        if not ok or type(t.ops[0]) not in ops or s.orelse or len(s.body) != 1:
            raise TranslatorError("gather_token: expected `if len(self.unchained) > self.unchained_max_size: <evict one>`")
        self.cap_cmp = ops[type(t.ops[0])]
        b = self.norm(s.body[0])
        if b in ("self.unchained.popitem(False)", "self.unchained.popitem(last=False)"):
            self.pop_last = False
        elif b in ("self.unchained.popitem()", "self.unchained.popitem(True)", "self.unchained.popitem(last=True)"):
            self.pop_last = True
        elif b in ("delself.unchained[next(iter(self.unchained))]", "self.unchained.pop(next(iter(self.unchained)))"):
            self.pop_last = False
        else:
            raise TranslatorError(f"gather_token: eviction statement outside the subset: {_src(s.body[0])[:60]}")


def trees() -> dict:
    tree_mod = ast.parse((REPO / TREE).read_text())
    token_mod = ast.parse((REPO / TOKEN).read_text())
    tt, tk = _cls(tree_mod, "TokenTree"), _cls(token_mod, "Token")
    out = {}
    g = _Tree(_fn(tt, "gather_token"), "token", "gather")
    out["gatherTree"] = g.block(g.fn.body, {})
    if g.cap_cmp is None:
        raise TranslatorError("gather_token: no bound on the waiting area found")
    out["capCmp"], out["popLast"] = g.cap_cmp, g.pop_last
    for name in ("verify", "get_root_path"):
        fn = _fn(tt, name)
        loops = [s for s in fn.body if isinstance(s, ast.While)]
        if name == "verify" and not loops:      # verify written as "get_root_path is not empty"
            rets = [s for s in fn.body if isinstance(s, ast.Return)]
            txt = _src(rets[0].value).replace(" ", "") if len(rets) == 1 else ""
            call = r"self\.get_root_path\(token,(maxdepth=)?maxdepth\)"
            if re.fullmatch(rf"(bool\({call}\)|len\({call}\)>0|{call}!=\[\])", txt):
                out["verifyLoopTree"] = None
                continue
        if not loops:      # the walk extracted into a private helper that is called once with (token, maxdepth)
            calls = [c for c in ast.walk(fn) if isinstance(c, ast.Call) and isinstance(c.func, ast.Attribute)
                     and isinstance(c.func.value, ast.Name) and c.func.value.id == "self"
                     and c.func.attr.startswith("_")]
            helper = None
            if len(calls) == 1:
                c = calls[0]
                args = [getattr(a, "id", None) for a in c.args] + \
                       [getattr(k.value, "id", None) for k in c.keywords if k.arg in ("token", "maxdepth")]
                cand = [m for m in tt.body if isinstance(m, ast.FunctionDef) and m.name == c.func.attr]
                if args == ["token", "maxdepth"] and len(cand) == 1 and \
                        [a.arg for a in cand[0].args.args] == ["self", "token", "maxdepth"]:
                    helper = cand[0]
            if helper is not None:
                fn = helper
                loops = [s for s in fn.body if isinstance(s, ast.While)]
        if len(loops) != 1:
            raise TranslatorError(f"{name}: expected exactly one while loop")
        lt = _Tree(fn, "current", "loop")
        out[f"{'verify' if name == 'verify' else 'rootPath'}LoopTree"] = lt.block(loops[0].body, {})
        # the loop has to start at the queried token
        starts = [s for s in fn.body if isinstance(s, ast.Assign) and isinstance(s.targets[0], ast.Name)
                  and s.targets[0].id == "current"]
        if len(starts) != 1 or not isinstance(starts[0].value, ast.Name) or starts[0].value.id != "token":
            raise TranslatorError(f"{name}: expected `current = token` before the loop")
    r = _Tree(_fn(tk, "receive_content"), "self", "receive")
    out["receiveTree"] = r.block(r.fn.body, {})
    return out


def translate_trees() -> tuple[str, dict]:
    t = trees()
    if t["verifyLoopTree"] is None:
        t["verifyLoopTree"] = t["rootPathLoopTree"]
    src = f"""/-
  GENERATED by tools/gen_c16.py from {TREE} and {TOKEN} — do not edit.
  Branch structure of the source as decision trees (language: Ipv8/C16/Decision.lean).
-/
import Ipv8.C16.Decision
namespace Ipv8.C16.Gen
open Ipv8.C16

/-- TokenTree.gather_token -/
def gatherTree : DTree :=
  {t['gatherTree']}

/-- `if len(self.unchained) <cmp> self.unchained_max_size: <evict>`; popLast = the NEWEST entry is evicted -/
def capCmp : Cmp := .{t['capCmp']}
def popLast : Bool := {'true' if t['popLast'] else 'false'}

/-- one iteration of the `while` loop of TokenTree.verify -/
def verifyLoopTree : DTree :=
  {t['verifyLoopTree']}

/-- one iteration of the `while` loop of TokenTree.get_root_path -/
def rootPathLoopTree : DTree :=
  {t['rootPathLoopTree']}

/-- Token.receive_content -/
def receiveTree : DTree :=
  {t['receiveTree']}

end Ipv8.C16.Gen
"""
    return src, t


def translate() -> tuple[str, dict]:
    c = extract()
    src = f"""/-
  GENERATED by tools/gen_c16.py from {TREE} and {TOKEN} — do not edit.
-/
namespace Ipv8.C16.Gen

/-- TokenTree.__init__: self.unchained_max_size -/
def unchainedMaxSize : Nat := {c['unchainedMaxSize']}
/-- default `maxdepth` of verify / get_root_path -/
def maxDepthDefault : Int := {c['maxDepthDefault']}
/-- Token.unserialize: struct format >{{prevLen}}s{{chashLen}}s{{sig_len}}s -/
def prevLen : Nat := {c['prevLen']}
def chashLen : Nat := {c['chashLen']}
/-- unserialize_public: chunk_size = chunkBase + sig_len -/
def chunkBase : Nat := {c['chunkBase']}

end Ipv8.C16.Gen
"""
    return src, c


if __name__ == "__main__":
    print(translate()[0])
    print(translate_trees()[0])
