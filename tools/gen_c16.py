"""
Translator for C16: the constants of the token tree, read from the CURRENT source by AST (never by importing it).

  tree.py    TokenTree.__init__           self.unchained_max_size = <int>
             TokenTree.verify / get_root_path   default of `maxdepth`
             TokenTree.unserialize_public chunk_size = <int> + sig_len
  token.py   Token.unserialize            struct.unpack_from(f">{a}s{b}s{sig_len}s", data, offset=offset)
             Token.get_plaintext          return self.previous_token_hash + self.content_hash   (field order)

Output: lean/Ipv8/C16/GenConst.lean.  Anything outside these exact shapes raises TranslatorError.
"""
from __future__ import annotations

import ast
import re

from vlib import REPO, TranslatorError

TREE = "ipv8/attestation/tokentree/tree.py"
TOKEN = "ipv8/attestation/tokentree/token.py"


def _cls(mod: ast.Module, name: str) -> ast.ClassDef:
    for n in mod.body:
        if isinstance(n, ast.ClassDef) and n.name == name:
            return n
    raise TranslatorError(f"class {name} not found")


def _fn(cls: ast.ClassDef, name: str) -> ast.FunctionDef:
    for n in cls.body:
        if isinstance(n, ast.FunctionDef) and n.name == name:
            return n
    raise TranslatorError(f"{cls.name}.{name} not found")


def _int(node, what: str) -> int:
    if isinstance(node, ast.Constant) and isinstance(node.value, int) and not isinstance(node.value, bool):
        return node.value
    if isinstance(node, ast.BinOp) and isinstance(node.op, (ast.Add, ast.Mult)):      # 32 + 32, 2 * 32
        a, b = _int(node.left, what), _int(node.right, what)
        return a + b if isinstance(node.op, ast.Add) else a * b
    if isinstance(node, ast.UnaryOp) and isinstance(node.op, ast.USub) and isinstance(node.operand, ast.Constant):
        return -node.operand.value
    raise TranslatorError(f"{what}: expected an integer literal, found {ast.dump(node)[:80]}")


def _default(fn: ast.FunctionDef, arg: str) -> int:
    names = [a.arg for a in fn.args.args]
    kwonly = [a.arg for a in fn.args.kwonlyargs]
    if arg in kwonly:
        d = fn.args.kw_defaults[kwonly.index(arg)]
        if d is None:
            raise TranslatorError(f"{fn.name}: parameter {arg} has no default")
        return _int(d, f"{fn.name}({arg}=...)")
    if arg not in names:
        raise TranslatorError(f"{fn.name}: no parameter {arg}")
    k = names.index(arg) - (len(names) - len(fn.args.defaults))
    if k < 0:
        raise TranslatorError(f"{fn.name}: parameter {arg} has no default")
    return _int(fn.args.defaults[k], f"{fn.name}({arg}=...)")


def extract() -> dict:
    tree_mod = ast.parse((REPO / TREE).read_text())
    token_mod = ast.parse((REPO / TOKEN).read_text())
    tt = _cls(tree_mod, "TokenTree")
    out = {}
    # unchained_max_size
    caps = [s.value for s in ast.walk(_fn(tt, "__init__"))
            if (isinstance(s, ast.Assign) and len(s.targets) == 1 and isinstance(s.targets[0], ast.Attribute)
                and s.targets[0].attr == "unchained_max_size")
            or (isinstance(s, ast.AnnAssign) and isinstance(s.target, ast.Attribute)
                and s.target.attr == "unchained_max_size" and s.value is not None)]
    if len(caps) != 1:
        raise TranslatorError("TokenTree.__init__: expected exactly one assignment to self.unchained_max_size")
    out["unchainedMaxSize"] = _int(caps[0], "unchained_max_size")
    if out["unchainedMaxSize"] < 0:
        raise TranslatorError("unchained_max_size is negative")
    # maxdepth defaults
    dv, dp = _default(_fn(tt, "verify"), "maxdepth"), _default(_fn(tt, "get_root_path"), "maxdepth")
    if dv != dp:
        raise TranslatorError(f"verify and get_root_path have different default maxdepth ({dv} / {dp})")
    out["maxDepthDefault"] = dv
    # chunk_size = <int> + sig_len
    cs = [s for s in ast.walk(_fn(tt, "unserialize_public")) if isinstance(s, ast.Assign) and len(s.targets) == 1
          and isinstance(s.targets[0], ast.Name) and s.targets[0].id == "chunk_size"]
    if len(cs) != 1 or not (isinstance(cs[0].value, ast.BinOp) and isinstance(cs[0].value.op, ast.Add)):  # noqa
        raise TranslatorError("unserialize_public: expected `chunk_size = <int> + sig_len`")
    def terms(node):
        if isinstance(node, ast.BinOp) and isinstance(node.op, ast.Add):
            return terms(node.left) + terms(node.right)
        return [node]
    ts = terms(cs[0].value)
    sigs = [t for t in ts if isinstance(t, ast.Name) and t.id == "sig_len"]
    if len(sigs) != 1:
        raise TranslatorError("unserialize_public: expected `chunk_size = <int> + sig_len`")
    out["chunkBase"] = sum(_int(t, "chunk_size") for t in ts if t is not sigs[0])
    # struct format of Token.unserialize
    tk = _cls(token_mod, "Token")
    fmts = [n for n in ast.walk(_fn(tk, "unserialize")) if isinstance(n, ast.Call)
            and isinstance(n.func, ast.Attribute) and n.func.attr == "unpack_from"]
    if len(fmts) != 1 or not fmts[0].args or not isinstance(fmts[0].args[0], ast.JoinedStr):
        raise TranslatorError("Token.unserialize: expected one struct.unpack_from(f\"...\", data, offset=offset)")
    js = fmts[0].args[0]
    parts = []
    for v in js.values:
        if isinstance(v, ast.Constant):
            parts.append(v.value)
        elif isinstance(v, ast.FormattedValue) and isinstance(v.value, ast.Name) and v.value.id == "sig_len":
            parts.append("{sig_len}")
        else:
            raise TranslatorError("Token.unserialize: unexpected piece in the struct format")
    fmt = "".join(parts)
    m = re.fullmatch(r">(\d+)s(\d+)s\{sig_len\}s", fmt)
    if not m:
        raise TranslatorError(f"Token.unserialize: struct format {fmt!r} is not >{{a}}s{{b}}s{{sig_len}}s")
    out["prevLen"], out["chashLen"] = int(m.group(1)), int(m.group(2))
    kw = {k.arg: k.value for k in fmts[0].keywords}
    off = kw.get("offset", fmts[0].args[2] if len(fmts[0].args) >= 3 else None)
    fn = _fn(tk, "unserialize")
    params = [a.arg for a in fn.args.args]
    if not (len(fmts[0].args) >= 2 and isinstance(fmts[0].args[1], ast.Name) and fmts[0].args[1].id in params
            and isinstance(off, ast.Name) and off.id in params):
        raise TranslatorError("Token.unserialize: unpack_from must read the given data at the given offset")
    # the three unpacked fields must feed Token(<1st>, content_hash=<2nd>, signature=<3rd>)
    asg = [s for s in fn.body if isinstance(s, ast.Assign) and isinstance(s.targets[0], ast.Tuple)
           and s.value is fmts[0]]
    if len(asg) != 1 or len(asg[0].targets[0].elts) != 3 or \
            not all(isinstance(e, ast.Name) for e in asg[0].targets[0].elts):
        raise TranslatorError("Token.unserialize: expected `a, b, c = struct.unpack_from(...)`")
    n1, n2, n3 = (e.id for e in asg[0].targets[0].elts)
    rets = [s for s in fn.body if isinstance(s, ast.Return)]
    call = rets[0].value if len(rets) == 1 else None
    ckw = {k.arg: k.value for k in call.keywords} if isinstance(call, ast.Call) else {}
    if not (isinstance(call, ast.Call) and len(call.args) == 1 and getattr(call.args[0], "id", None) == n1
            and getattr(ckw.get("content_hash"), "id", None) == n2
            and getattr(ckw.get("signature"), "id", None) == n3 and set(ckw) == {"content_hash", "signature"}):
        raise TranslatorError("Token.unserialize: expected `return Token(<1st field>, content_hash=<2nd>, "
                              "signature=<3rd>)`")
    # get_plaintext: previous_token_hash + content_hash
    gp = _fn(tk, "get_plaintext")
    rets = [s for s in gp.body if isinstance(s, ast.Return)]
    ok = (len(rets) == 1 and isinstance(rets[0].value, ast.BinOp) and isinstance(rets[0].value.op, ast.Add)
          and getattr(rets[0].value.left, "attr", None) == "previous_token_hash"
          and getattr(rets[0].value.right, "attr", None) == "content_hash")
    if not ok:
        raise TranslatorError("Token.get_plaintext: expected `return self.previous_token_hash + self.content_hash`")
    return out


def translate() -> tuple[str, dict]:
    c = extract()
    src = f"""/-
  GENERATED by tools/gen_c16.py from {TREE} and {TOKEN} — do not edit.
-/
namespace Ipv8.C16.Gen

/-- TokenTree.__init__: self.unchained_max_size -/
def unchainedMaxSize : Nat := {c['unchainedMaxSize']}
/-- default `maxdepth` of verify / get_root_path -/
def maxDepthDefault : Int := {c['maxDepthDefault']}
/-- Token.unserialize: struct format >{{prevLen}}s{{chashLen}}s{{sig_len}}s -/
def prevLen : Nat := {c['prevLen']}
def chashLen : Nat := {c['chashLen']}
/-- unserialize_public: chunk_size = chunkBase + sig_len -/
def chunkBase : Nat := {c['chunkBase']}

end Ipv8.C16.Gen
"""
    return src, c


if __name__ == "__main__":
    print(translate()[0])
