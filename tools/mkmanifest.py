"""Assemble MANIFEST.json from manifest.d/*.json fragments; unclaimed properties go to not_applicable."""
import json
from pathlib import Path

V = Path(__file__).resolve().parent.parent
props = [json.loads(l) for l in (V / "properties.jsonl").read_text().splitlines() if l.strip()]
checks, na = [], []
pending = json.loads((V / "manifest.d" / "_not_applicable.json").read_text())
vf = V / "manifest.d" / "_verified.txt"
verified = set(vf.read_text().split()) if vf.exists() else None
for p in props:
    f = V / "manifest.d" / f"{p['id']}.json"
    if f.exists() and (verified is None or p["id"] in verified):
        c = json.loads(f.read_text())
        pid = p["id"]
        c.setdefault("property_id", pid)
        c.setdefault("quick_cmd", f"./check {pid} quick")
        c.setdefault("thorough_cmd", f"./check {pid} thorough")
        c.setdefault("evidence_file", f"evidence/{pid}.json")
        c.setdefault("replay_cmd_template", f"./check {pid} quick --replay {{path}}")
        c.setdefault("engine", "lean4-model+correspondence")
        checks.append(c)
    else:
        na.append({"property_id": p["id"], "reason": pending.get(p["id"], "no check has been built for this property yet (see DESIGN.md section 5 for the intended design)")})
drivers = sorted(x.stem for x in (V / "lean").glob("DrvC*.lean"))
m = {
    "version": 1,
    "setup_cmd": "./setup.sh",
    "hooks": {"guard": "IPV8_VERIF", "enable": "none needed: no hooks are compiled into /repo; harnesses observe from outside (recording endpoints, sys.setprofile, virtual clock)",
              "baseline_off_cmd": "cd /repo && /venv/bin/python -m pytest -ra -q -p no:cacheprovider --timeout=900 --continue-on-collection-errors",
              "source_commits": [], "add_only": True},
    "engines": [{"name": "lean4-model+correspondence", "path": "lean/ tools/ harness/",
                 "serves_properties": [c["property_id"] for c in checks],
                 "kind_free_text": "Lean 4 model + kernel-checked theorems (lake build, #print axioms audit), model regenerated from /repo by translators where possible, otherwise differential correspondence of the compiled model driver against the real Python code, plus an implementation-level property oracle that produces replays"}],
    "checks": checks,
    "not_applicable": na,
    "notes": "All checks: ./check <ID> quick|thorough [--replay file]; exit 0 held, 1 violation, 2 infrastructure. known_findings.json lists fixed/known defects. See DESIGN.md.",
}
(V / "MANIFEST.json").write_text(json.dumps(m, indent=1) + "\n")
print(f"{len(checks)} checks, {len(na)} not yet claimed")
