"""
Shared runner library for the per-property checks (see DESIGN.md section 2).

A harness module (harness/cNN.py) defines

    PROPERTY      = "C18"
    LEAN_TARGETS  = ["Ipv8.C18.Props"]          # lake module targets (Props imports model + lemmas)
    PROPS_FILE    = "Ipv8/C18/Props.lean"       # every `theorem` in it is an obligation, namespace Ipv8.C18
    DRIVER        = "drv_c18" | None            # lean_exe target speaking the line protocol
    TRUSTED_BASE  = [...]                       # strings for the evidence file
    ASSUMPTIONS   = [...]
    RULE          = "how cases are generated and what makes one distinct / non-trivial"
    def generate(ctx)          # optional: regenerate Lean files from /repo (translator); raise TranslatorError
    def run(ctx)               # correspondence (model vs implementation) + property oracle on the implementation
    def search(ctx, reason)    # optional: widened implementation-only search after an obligation broke

and reports through ctx:  ctx.oracle_fail(...), ctx.disagree(...), ctx.case(...), ctx.count(...), ctx.sample(...).
The verdict logic lives here and is the same for all properties.
"""
from __future__ import annotations

import hashlib
import json
import os
import random
import re
import subprocess
import sys
import time
import traceback
from pathlib import Path

VERIF = Path(__file__).resolve().parent.parent
LEAN = VERIF / "lean"
REPO = Path(os.environ.get("VERIF_REPO", "/repo"))
ALLOWED_AXIOMS = {"propext", "Classical.choice", "Quot.sound"}
FORBIDDEN = [r"\bsorry\b", r"\badmit\b", r"^\s*axiom\s", r"native_decide", r"bv_decide", r"implemented_by",
             r"\bunsafe\s", r"maxHeartbeats\s+0\b", r"@\[extern", r"^\s*opaque\s"]

GLOBAL_TRUSTED = [
    "Lean 4.33.0 kernel and elaborator; axioms limited to propext, Classical.choice, Quot.sound (audited with #print axioms every run); no native_decide/bv_decide/sorry",
    "the Python translators (tools/gen_*.py) and correspondence harnesses (harness/*.py) that tie the Lean model to /repo's working tree",
    "CPython 3.12 and its standard library (struct, socket, asyncio, sqlite3, hashlib)",
]


class TranslatorError(Exception):
    pass


class InfraError(Exception):
    pass


def strip_lean_comments(src: str) -> str:
    # remove nested block comments and line comments
    out = []
    i, depth, n = 0, 0, len(src)
    while i < n:
        if src.startswith("/-", i):
            depth += 1
            i += 2
        elif depth and src.startswith("-/", i):
            depth -= 1
            i += 2
        elif depth:
            if src[i] == "\n":
                out.append("\n")
            i += 1
        elif src.startswith("--", i):
            while i < n and src[i] != "\n":
                i += 1
        else:
            out.append(src[i])
            i += 1
    return "".join(out)


class Driver:
    """Line protocol client for a compiled Lean driver."""

    def __init__(self, exe: Path):
        self.exe = exe
        self.proc = None
        self.lines_sent = 0

    def batch(self, lines: list[str], timeout: float = 600) -> list[str]:
        """Run a fresh driver process on all lines; returns one reply per line."""
        if not lines:
            return []
        for ln in lines:
            if "\n" in ln:
                raise InfraError("newline inside protocol line")
        p = subprocess.run([str(self.exe)], input=("\n".join(lines) + "\n").encode(), capture_output=True,
                           timeout=timeout)
        if p.returncode != 0:
            raise InfraError(f"driver {self.exe.name} exited {p.returncode}: {p.stderr.decode()[-500:]}")
        out = p.stdout.decode().split("\n")
        if out and out[-1] == "":
            out.pop()
        self.lines_sent += len(lines)
        if len(out) != len(lines):
            raise InfraError(f"driver {self.exe.name}: {len(lines)} requests but {len(out)} replies")
        return out

    def ask(self, line: str) -> str:
        """Interactive: persistent process, one line in, one line out."""
        if self.proc is None:
            self.proc = subprocess.Popen([str(self.exe)], stdin=subprocess.PIPE, stdout=subprocess.PIPE)
        self.proc.stdin.write((line + "\n").encode())
        self.proc.stdin.flush()
        self.lines_sent += 1
        r = self.proc.stdout.readline()
        if not r:
            raise InfraError(f"driver {self.exe.name} closed its output on: {line[:200]}")
        return r.decode().rstrip("\n")

    def close(self):
        if self.proc is not None:
            try:
                self.proc.stdin.close()
                self.proc.wait(timeout=10)
            except Exception:
                self.proc.kill()
            self.proc = None


class Ctx:
    def __init__(self, prop: str, tier: str, seed: int):
        self.prop = prop
        self.tier = tier
        self.seed = seed
        self.rng = random.Random(seed)
        self.t0 = time.time()
        self.model_ok = False          # Lean build + audit succeeded; driver usable
        self.driver_exe: Path | None = None
        self._drivers: list[Driver] = []
        self.failures: list[dict] = []       # property violated on the implementation
        self._sig_counts: dict[str, int] = {}
        self.known_sigs: set[str] = set()    # signatures of status-known findings (set by main)
        self._new_recorded = 0
        self.disagreements: list[dict] = []  # model vs implementation
        self.counts: dict[str, int] = {}
        self.distinct: set[str] = set()
        self.evaluations = 0
        self.samples: list = []
        self.extra: dict = {}
        self.broken: list[str] = []          # obligations that no longer check (build / audit / translator)
        self.searching = False
        self.replay_input = None             # set when invoked with --replay

    # --- budget -------------------------------------------------------------------------------
    def thorough(self) -> bool:
        return self.tier == "thorough"

    def scale(self, quick: int, thorough: int) -> int:
        return thorough if self.tier == "thorough" else quick

    def elapsed(self) -> float:
        return time.time() - self.t0

    # --- model access -------------------------------------------------------------------------
    def driver(self) -> Driver:
        if not self.model_ok or self.driver_exe is None:
            raise InfraError("model driver not available")
        d = Driver(self.driver_exe)
        self._drivers.append(d)
        return d

    # --- reporting ----------------------------------------------------------------------------
    def case(self, key=None, nontrivial: bool = True, n: int = 1):
        """Count one explored case; `key` (any hashable/str-able) identifies distinct non-trivial cases."""
        self.evaluations += n
        if nontrivial and key is not None:
            k = key if isinstance(key, str) else repr(key)
            if len(k) > 64:
                k = hashlib.sha1(k.encode()).hexdigest()
            self.distinct.add(k)

    def count(self, key: str, n: int = 1):
        self.counts[key] = self.counts.get(key, 0) + n

    def sample(self, obj, limit: int = 6):
        if len(self.samples) < limit:
            self.samples.append(obj)

    def oracle_fail(self, signature: str, what: str, replay: dict):
        """The property itself fails on the implementation for a concrete input (independent of the model)."""
        # keep a few occurrences per signature (so that a frequent known finding can never crowd out a new failure)
        n = self._sig_counts.get(signature, 0)
        self._sig_counts[signature] = n + 1
        if signature in self.known_sigs:
            if n < 5:
                self.failures.append({"signature": signature, "what": what, "replay": replay})
        elif self._new_recorded < 200:
            self._new_recorded += 1
            self.failures.append({"signature": signature, "what": what, "replay": replay})

    def disagree(self, what: str, replay: dict):
        """Model and implementation differ on an input (not yet a violation)."""
        if len(self.disagreements) < 200:
            self.disagreements.append({"what": what, "replay": replay})


# ------------------------------------------------------------------------------------------------
def sh(cmd, cwd=None, timeout=3600, env=None):
    p = subprocess.run(cmd, cwd=cwd, capture_output=True, timeout=timeout, env=env)
    return p.returncode, p.stdout.decode(errors="replace"), p.stderr.decode(errors="replace")


def write_if_changed(path: Path, content: str) -> bool:
    path.parent.mkdir(parents=True, exist_ok=True)
    if path.exists() and path.read_text() == content:
        return False
    path.write_text(content)
    return True


def theorem_names(props_file: Path) -> list[str]:
    src = strip_lean_comments(props_file.read_text())
    return re.findall(r"^\s*(?:private\s+|protected\s+)?theorem\s+([A-Za-z_][A-Za-z0-9_'.]*)", src, flags=re.M)


def lean_sources_for(prop: str, props_file: str) -> list[Path]:
    d = (LEAN / props_file).parent
    files = sorted(d.rglob("*.lean")) + sorted((LEAN / "Ipv8" / "Base").rglob("*.lean"))
    drv = LEAN / f"Drv{prop}.lean"
    if drv.exists():
        files.append(drv)
    return files


def forbidden_hits(files: list[Path]) -> list[str]:
    hits = []
    for f in files:
        src = strip_lean_comments(f.read_text())
        for i, line in enumerate(src.split("\n"), 1):
            for pat in FORBIDDEN:
                if re.search(pat, line):
                    hits.append(f"{f.relative_to(LEAN)}:{i}: {line.strip()[:120]}")
    return hits


def parse_axioms(text: str) -> dict[str, list[str]]:
    res: dict[str, list[str]] = {}
    flat = re.sub(r"\s+", " ", text)
    for m in re.finditer(r"'([^']+)' depends on axioms: \[([^\]]*)\]", flat):
        res[m.group(1)] = [a.strip() for a in m.group(2).split(",") if a.strip()]
    for m in re.finditer(r"'([^']+)' does not depend on any axioms", flat):
        res[m.group(1)] = []
    return res


def load_known_findings() -> list[dict]:
    out = []
    p = VERIF / "known_findings.json"
    if p.exists():
        out += json.loads(p.read_text())
    for f in sorted((VERIF / "known_findings.d").glob("*.json")):   # per-property fragments (merged by mkmanifest.py)
        out += json.loads(f.read_text())
    return out


def lean_stage(ctx: Ctx, H) -> dict:
    """regenerate → build → forbidden-word grep → axiom audit.  Fills ctx.broken / ctx.model_ok."""
    info = {"theorems": [], "axioms": {}, "build_s": 0.0, "generated": []}
    # 1. translator
    if hasattr(H, "generate"):
        try:
            gen = H.generate(ctx) or []
            for rel, content in gen:
                changed = write_if_changed(LEAN / rel, content)
                info["generated"].append({"file": rel, "changed": changed,
                                          "sha1": hashlib.sha1(content.encode()).hexdigest()[:12]})
        except TranslatorError as e:
            ctx.broken.append(f"translator: {e}")
        except Exception as e:  # translator crashed on the current source: same treatment
            ctx.broken.append(f"translator crashed: {type(e).__name__}: {e}")
    # 2. build
    t = time.time()
    targets = list(H.LEAN_TARGETS)
    if getattr(H, "DRIVER", None):
        targets.append(H.DRIVER)
    rc, out, err = sh(["lake", "build"] + targets, cwd=LEAN, timeout=3000)
    info["build_s"] = round(time.time() - t, 1)
    props_path = LEAN / H.PROPS_FILE
    names = theorem_names(props_path) if props_path.exists() else []
    # further files of property theorems (e.g. heavy tables that a harness builds in the thorough tier only): every
    # theorem in them is an obligation and is axiom-audited like those of PROPS_FILE
    extra_props = [f for f in getattr(H, "EXTRA_PROPS_FILES", []) if (LEAN / f).exists()]
    for f in extra_props:
        names += [n for n in theorem_names(LEAN / f) if n not in names]
    info["theorems"] = names
    if rc != 0:
        tail = (out + err)[-3000:]
        bad = re.findall(r"error: ([^\n]*)", out + err)[:8]
        ctx.broken.append("lake build failed: " + " | ".join(bad)[:1500])
        info["build_log_tail"] = tail
        # the driver may still be buildable on its own (model unchanged, proofs broken)
        if getattr(H, "DRIVER", None):
            rc2, _, _ = sh(["lake", "build", H.DRIVER], cwd=LEAN, timeout=3000)
            if rc2 == 0:
                ctx.driver_exe = LEAN / ".lake" / "build" / "bin" / H.DRIVER
                ctx.model_ok = True
                info["driver_only"] = True
        return info
    # 3. forbidden constructs
    hits = forbidden_hits(lean_sources_for(ctx.prop, H.PROPS_FILE))
    if hits:
        ctx.broken.append("forbidden construct: " + "; ".join(hits[:5]))
    # 4. axiom audit
    ns = getattr(H, "NAMESPACE", f"Ipv8.{ctx.prop}")
    mod = H.PROPS_FILE[:-5].replace("/", ".")
    audit = "".join(f"import {m}\n" for m in [mod] + [f[:-5].replace("/", ".") for f in extra_props]) + f"open {ns}\n" \
        + "".join(f"#print axioms {n}\n" for n in names)
    ap = LEAN / ".audit" / f"{ctx.prop}.lean"
    write_if_changed(ap, audit)
    rc, out, err = sh(["lake", "env", "lean", str(ap)], cwd=LEAN, timeout=1200)
    ax = parse_axioms(out + err)
    info["axioms"] = ax
    if rc != 0:
        ctx.broken.append("axiom audit failed to run: " + (out + err)[-400:])
    if not names:
        ctx.broken.append("no theorems found in " + H.PROPS_FILE)
    for n in names:
        full = [k for k in ax if k == n or k.endswith("." + n)]
        if not full:
            ctx.broken.append(f"theorem {n}: no axiom report")
            continue
        extra = set(ax[full[0]]) - ALLOWED_AXIOMS
        if extra:
            ctx.broken.append(f"theorem {n} depends on non-standard axioms {sorted(extra)}")
    if getattr(H, "DRIVER", None):
        ctx.driver_exe = LEAN / ".lake" / "build" / "bin" / H.DRIVER
        ctx.model_ok = ctx.driver_exe.exists()
        if not ctx.model_ok:
            ctx.broken.append("driver executable missing after build")
    else:
        ctx.model_ok = True
    if ctx.thorough() and not ctx.broken and os.environ.get("VERIF_NO_LEANCHECKER") != "1":
        t = time.time()
        mods = [mod] + [m for m in getattr(H, "LEANCHECKER_MODULES", [])]
        rc, out, err = sh(["lake", "env", "leanchecker"] + mods, cwd=LEAN, timeout=3000)
        info["leanchecker"] = {"modules": mods, "rc": rc, "s": round(time.time() - t, 1), "tail": (out + err)[-300:]}
        if rc != 0:
            ctx.broken.append("leanchecker rejected " + " ".join(mods))
    return info


def write_replay(prop: str, name: str, obj: dict) -> str:
    d = VERIF / "replays" / prop
    d.mkdir(parents=True, exist_ok=True)
    p = d / name
    p.write_text(json.dumps(obj, indent=1, default=str))
    return str(p.relative_to(VERIF))


def main(H, argv=None):
    argv = list(sys.argv[1:] if argv is None else argv)
    tier = os.environ.get("VERIF_TIER", "quick")
    replay = None
    pos = []
    i = 0
    while i < len(argv):
        if argv[i] == "--replay":
            replay = argv[i + 1]
            i += 2
        else:
            pos.append(argv[i])
            i += 1
    if pos:
        tier = pos[0]
    if tier not in ("quick", "thorough"):
        print(f"unknown tier {tier}", file=sys.stderr)
        return 2
    seed = int(os.environ.get("VERIF_SEED", "0") or 0)
    prop = H.PROPERTY
    ctx = Ctx(prop, tier, seed)
    evidence_path = VERIF / "evidence" / f"{prop}.json"
    evidence_path.parent.mkdir(exist_ok=True)
    if evidence_path.exists():
        evidence_path.unlink()
    sys.path.insert(0, str(REPO))
    if replay:   # read the replay input before stale replay files of earlier runs are cleared
        ctx.replay_input = json.loads(Path(replay if os.path.isabs(replay) else VERIF / replay).read_text())
    rdir = VERIF / "replays" / prop
    if rdir.is_dir():
        for f in rdir.glob("*.json"):
            try:
                f.unlink()
            except OSError:
                pass
    known = [k for k in load_known_findings() if k.get("property") == prop and k.get("status") == "known"]
    ctx.known_sigs = {k.get("signature") for k in known}
    try:
        info = lean_stage(ctx, H)
        try:
            H.run(ctx)
        except (InfraError, subprocess.TimeoutExpired, MemoryError, OSError):
            raise
        except Exception as e:  # noqa: BLE001
            # The harness passes on the tree it was written for, so an exception that is not an infrastructure problem means the
            # implementation can no longer be observed the way the correspondence needs (renamed private attribute, changed
            # signature or type of a value the harness reads): that is a correspondence that no longer checks, not exit 2.
            tb = traceback.format_exc()
            print(tb, file=sys.stderr)
            ctx.count("harness:observation-failed")
            ctx.disagree(f"the harness could not observe the implementation ({type(e).__name__}: {e}); the run stopped early",
                         {"kind": "harness-observation-failed", "exception": f"{type(e).__name__}: {e}",
                          "traceback_tail": tb[-1500:]})
        finally:
            for d in ctx._drivers:
                d.close()
        search_info = {"ran": False}
        if (ctx.broken or ctx.disagreements) and not [f for f in ctx.failures if not _is_known(f, known)]:
            # an obligation or the correspondence broke, but the oracle has found nothing (new): widen the search
            ctx.searching = True
            before = len(ctx.failures)
            ev0 = ctx.evaluations
            if hasattr(H, "search"):
                try:
                    H.search(ctx, "; ".join(ctx.broken) or "correspondence")
                except (InfraError, subprocess.TimeoutExpired, MemoryError, OSError):
                    pass
                except Exception:  # noqa: BLE001  (same reasoning as for run(): the search could not observe the tree either)
                    print(traceback.format_exc(), file=sys.stderr)
                    ctx.count("harness:search-observation-failed")
            search_info = {"ran": True, "cases": ctx.evaluations - ev0, "found": len(ctx.failures) - before}
    except InfraError as e:
        print(f"INFRA-ERROR {prop}: {e}", file=sys.stderr)
        return 2
    except subprocess.TimeoutExpired as e:
        print(f"INFRA-ERROR {prop}: timeout {e}", file=sys.stderr)
        return 2
    except Exception:
        traceback.print_exc()
        print(f"INFRA-ERROR {prop}: harness crashed", file=sys.stderr)
        return 2

    # ---- verdict ---------------------------------------------------------------------------------
    new_failures = [f for f in ctx.failures if not _is_known(f, known)]
    known_hit = {}
    for f in ctx.failures:
        k = _is_known(f, known)
        if k:
            known_hit.setdefault(k["signature"], (k, f))
    exit_code = 0
    lines = []
    for sig, (k, f) in known_hit.items():
        lines.append(f"KNOWN-FINDING: property={prop} {k.get('what', sig)}")
    seen_sigs = set()
    nrep = 0
    for f in new_failures:
        if f["signature"] in seen_sigs:
            continue
        seen_sigs.add(f["signature"])
        path = write_replay(prop, f"violation_{nrep}.json",
                            {"property": prop, "kind": "failing-input", "signature": f["signature"], "what": f["what"],
                             "seed": seed, "tier": tier, "replay": f["replay"], "broken_obligations": ctx.broken})
        nrep += 1
        lines.append(f"VIOLATION property={prop} replay={path}")
        exit_code = 1
        if nrep >= 5:
            break
    if not new_failures and (ctx.broken or ctx.disagreements):
        path = write_replay(prop, "unproved.json",
                            {"property": prop, "kind": "no-failing-input-found",
                             "broken_obligations": ctx.broken,
                             "correspondence_disagreements": ctx.disagreements[:10],
                             "seed": seed, "tier": tier,
                             "note": "an obligation (theorem build, axiom audit, translator) or the model/implementation "
                                     "correspondence no longer checks; the implementation-level oracle and the widened "
                                     "search found no input on which the property itself fails"})
        lines.append(f"VIOLATION property={prop} replay={path} no-failing-input-found")
        exit_code = 1

    names = info.get("theorems", [])
    gen_obl = len(info.get("generated", []))
    obligations = len(names) + gen_obl + (1 if getattr(H, "DRIVER", None) or hasattr(H, "run") else 0)
    broken_n = min(obligations, len(ctx.broken) + (1 if ctx.disagreements else 0))
    discharged = obligations - broken_n if (ctx.broken or ctx.disagreements) else obligations
    mod = H.PROPS_FILE[:-5].replace("/", ".")
    cov = {
        "obligations": obligations,
        "discharged": discharged,
        "checker_cmd": f"cd /verif/lean && lake build {' '.join(H.LEAN_TARGETS)} && lake env lean .audit/{prop}.lean"
                       + (f" && lake env leanchecker {mod}" if tier == "thorough" else ""),
        "trusted_base": GLOBAL_TRUSTED + list(getattr(H, "TRUSTED_BASE", [])),
        "theorems": names,
        "axioms": info.get("axioms", {}),
        "generated_files": info.get("generated", []),
        "lean_build_s": info.get("build_s"),
        "evaluations": ctx.evaluations,
        "distinct_nontrivial": len(ctx.distinct),
        "rule": getattr(H, "RULE", ""),
        "samples": ctx.samples if ctx.samples else [{"theorems": names[:5]}],
        "distribution": dict(sorted(ctx.counts.items())),
        "correspondence": {"driver_lines": sum(d.lines_sent for d in ctx._drivers),
                           "disagreements": len(ctx.disagreements)},
        "oracle": {"failures": sum(ctx._sig_counts.values()), "recorded": len(ctx.failures), "new": len(new_failures),
                   "by_signature": dict(sorted(ctx._sig_counts.items()))},
        "search": search_info,
        "known_findings_reproduced": sorted(known_hit.keys()),
        "broken_obligations": ctx.broken,
    }
    if "leanchecker" in info:
        cov["leanchecker"] = info["leanchecker"]
    cov.update(ctx.extra)
    # keep schema-typed keys well-typed whatever a harness put into ctx.extra
    if "exhaustive" in cov and not isinstance(cov["exhaustive"], bool):
        cov["exhaustive_detail"] = cov["exhaustive"]
        cov["exhaustive"] = bool(cov["exhaustive"])
    for k in ("states", "transitions", "traces_validated_against_impl", "programs", "disagreements_checked"):
        if k in cov and not (isinstance(cov[k], int) and not isinstance(cov[k], bool) and cov[k] >= 0):
            cov[k + "_detail"] = cov.pop(k)
    if "explanation" in cov and not isinstance(cov["explanation"], str):
        cov["explanation"] = json.dumps(cov["explanation"], default=str)
    for k in ("obligations", "discharged", "checker_cmd", "trusted_base", "evaluations", "distinct_nontrivial", "rule", "samples"):
        pass  # set above from measured values; ctx.extra must not override them
    cov["obligations"], cov["discharged"] = obligations, discharged
    cov["evaluations"], cov["distinct_nontrivial"] = ctx.evaluations, len(ctx.distinct)
    if not isinstance(cov.get("samples"), list) or not cov["samples"]:
        cov["samples"] = [{"theorems": names[:5]}]
    ev = {"property_id": prop, "tier": tier, "seed": seed, "level": "proof", "coverage": cov,
          "assumptions": list(getattr(H, "ASSUMPTIONS", [])), "wall_s": round(time.time() - ctx.t0, 2),
          "violations": len(seen_sigs) + (1 if (not new_failures and exit_code) else 0)}
    evidence_path.write_text(json.dumps(ev, indent=1, default=str))
    for ln in lines:
        print(ln)
    print(f"{prop} {tier} seed={seed}: theorems={len(names)} obligations={obligations} discharged={discharged} "
          f"cases={ctx.evaluations} distinct_nontrivial={len(ctx.distinct)} disagreements={len(ctx.disagreements)} "
          f"oracle_failures={sum(ctx._sig_counts.values())} wall={ev['wall_s']}s exit={exit_code}")
    if ctx.broken:
        for b in ctx.broken[:10]:
            print("  broken:", b[:400])
    for d in ctx.disagreements[:3]:
        print("  disagreement:", d["what"][:400])
    return exit_code


def _is_known(f: dict, known: list[dict]):
    for k in known:
        if k.get("signature") == f["signature"]:
            return k
    return None
