"""
Translator for C03:  live packer registry / payload classes / overlays / receive-path constants of the tree named by
VERIF_REPO  ->  lean/Ipv8/C03/GenTables.lean   (regenerated on every run; theorems and the driver use it).

What is read and how
  * packers: a fresh `Serializer()` plus the packers overlays add ("flags" from anonymization, "node-list" from dht);
    each live packer object is mapped to a model format by its class and constructor attributes
    (`format_str`, `length_format`, `base`, `ip_only`, inner `packer`).  Three behaviours that are not visible in
    attributes are *probed* on two-line inputs: the byte order of DefaultArray items, of its length prefix, and whether
    Flags.unpack returns an absolute offset.
  * payloads: every concrete `Serializable` subclass of the package (tests excluded) with its `format_list`
    (names of registered packers, nested classes, [class] lists), plus the synthetic classes SYNTHETIC below that
    exercise every registered packer and two levels of nesting.
  * overlays: every shipped Community subclass instantiated on a mock endpoint: prefix, the msg ids with a handler in
    `decode_map`, the msg ids in `decode_map_private`.
  * constants by AST from the anchored functions (Community.on_packet, TunnelCommunity.on_packet_from_circuit,
    PythonCryptoEndpoint.on_packet, CellPayload.from_bin): slice bound, index, minimum length guard, whether the handler
    call sits inside `try: ... except Exception`, the cell header offset/format/message start.
A construct outside this subset raises TranslatorError.
"""
from __future__ import annotations

import ast
import struct
import sys
import textwrap

from vlib import REPO, TranslatorError

SKIP_MODULES = ("ipv8.test", "ipv8.messaging.interfaces.lan_addresses.any_os.netifaces",
                "ipv8.messaging.interfaces.lan_addresses.windows", "ipv8.scripts", "ipv8.REST")

_STRUCT_CODES = {"B": ("u", 1), "H": ("u", 2), "I": ("u", 4), "L": ("u", 4), "Q": ("u", 8),
                 "b": ("i", 1), "h": ("i", 2), "i": ("i", 4), "l": ("i", 4), "q": ("i", 8),
                 "?": ("bool", 1), "c": ("char", 1), "f": ("float", 4), "d": ("float", 8)}


# ------------------------------------------------------------------------------------------------ descriptors
def struct_fields(fmt: str):
    """'>QQHHBH' / '>c20s' -> [('u',8),...]; only big-endian standard-size formats are in the subset."""
    if not fmt or fmt[0] not in ">!":
        raise TranslatorError(f"struct format {fmt!r} is not explicitly big-endian")
    out, num = [], ""
    for ch in fmt[1:]:
        if ch.isdigit():
            num += ch
        elif ch == "s":
            out.append(("bytes", int(num or "1")))
            num = ""
        elif ch in _STRUCT_CODES:
            for _ in range(int(num or "1")):
                out.append(_STRUCT_CODES[ch])
            num = ""
        else:
            raise TranslatorError(f"struct code {ch!r} in {fmt!r} outside the subset")
    if sum(n for _, n in out) != struct.calcsize(fmt):
        raise TranslatorError(f"size mismatch for struct format {fmt!r}")
    return out


def _len_width(length_format: str, what: str) -> tuple[int, bool]:
    """(size in bytes, big-endian?) of a length prefix format."""
    size = struct.calcsize(length_format)
    if size == 1:
        return 1, True
    if length_format[0] in ">!":
        return size, True
    if length_format[0] == "<":
        return size, False
    if length_format[0] in "=@" or length_format[0].isalpha():
        return size, sys.byteorder == "big"
    raise TranslatorError(f"length format {length_format!r} of {what} outside the subset")


def packer_desc(p, ser, depth=0):
    """Model format (nested tuples) of a live packer object."""
    from ipv8.dht.payload import NodePacker
    from ipv8.messaging.anonymization.payload import Flags
    from ipv8.messaging import serialization as S
    t = type(p)
    if t is S.DefaultStruct:
        return ("struct", struct_fields(p.format_str))
    if t is S.Bits:
        return ("bits",)
    if t is S.Raw:
        return ("raw",)
    if t is S.VarLenUtf8:
        lw, be = _len_width(p.length_format, "VarLenUtf8")
        if not be:
            raise TranslatorError("little-endian VarLen length")
        return ("utf8", lw, p.base)
    if t is S.VarLen:
        lw, be = _len_width(p.length_format, "VarLen")
        if not be:
            raise TranslatorError("little-endian VarLen length")
        return ("varlen", lw, p.base)
    if t is S.IPv4:
        return ("ipv4",)
    if t is S.Address:
        return ("address", bool(p.ip_only))
    if t is S.ListOf:
        lw, be = _len_width(p.length_format, "ListOf")
        if not be:
            raise TranslatorError("little-endian ListOf length")
        return ("list", lw, packer_desc(p.packer, ser, depth + 1))
    if t is S.DefaultArray:
        lw, _ = _len_width(p.length_format, "DefaultArray")
        kind = {"?": "bool", "q": "q", "d": "d"}.get(p.format_str)
        if kind is None:
            raise TranslatorError(f"array item format {p.format_str!r} outside the subset")
        # probe the byte orders actually used (array module = native order unless the code swaps)
        out: list = []
        item1 = b"\x01" + b"\x00" * (p.base - 1)
        # count field 00..01 followed by 256 items: a big-endian reader sees 1 item, a little-endian one 256 (lw = 2)
        p.unpack((1).to_bytes(lw, "big") + item1 + b"\x00" * (p.base * 255), 0, out)
        if len(out) != 1 or len(out[0]) not in (1, 256 ** (lw - 1)) or (lw == 1):
            raise TranslatorError("DefaultArray probe: unexpected result shape")
        len_be = len(out[0]) == 1
        item_be = False
        if kind == "q":
            item_be = out[0][0] != 1
        elif kind == "d":
            item_be = out[0][0] != struct.unpack("<d", b"\x01" + b"\x00" * 7)[0]
        return ("array", lw, len_be, kind, p.base, item_be)
    if t is S.NestedPayload:
        return ("nestedref",)          # takes the class as an argument; resolved where it is used
    if t is Flags:
        out = []
        r = p.unpack(b"\x00" * (p.size + 3), 3, out)
        if r not in (p.size, 3 + p.size):
            raise TranslatorError("Flags probe: unexpected offset")
        return ("flags", p.size, r == 3 + p.size)
    if t is NodePacker:
        return ("tuple", [packer_desc(ser._packers["ip_address"], ser), packer_desc(ser._packers["varlenH"], ser)])
    raise TranslatorError(f"packer class {t.__module__}.{t.__name__} outside the subset")


def class_desc(cls, ser, depth=0):
    """Model format list of a Serializable class (resolves nested classes)."""
    from ipv8.messaging.serialization import Serializable
    if depth > 6:
        raise TranslatorError(f"format nesting deeper than 6 at {cls.__name__}")
    out = []
    for f in cls.format_list:
        if isinstance(f, str):
            if f not in ser._packers:
                raise TranslatorError(f"{cls.__name__}: unknown format {f!r}")
            d = packer_desc(ser._packers[f], ser)
            if d == ("nestedref",) or (d[0] == "list" and d[2] == ("nestedref",)):
                raise TranslatorError(f"{cls.__name__}: bare {f!r} in a format list has no class argument")
            out.append(d)
        elif isinstance(f, list) and len(f) == 1 and isinstance(f[0], type) and issubclass(f[0], Serializable):
            lst = packer_desc(ser._packers["payload-list"], ser)
            out.append(("list", lst[1], ("nested", class_desc(f[0], ser, depth + 1))))
        elif isinstance(f, type) and issubclass(f, Serializable):
            out.append(("nested", class_desc(f, ser, depth + 1)))
        else:
            raise TranslatorError(f"{cls.__name__}: format entry {f!r} outside the subset")
    return out


def lean_fmt(d) -> str:
    k = d[0]
    if k == "struct":
        fl = ", ".join({"u": f".uint {n}", "i": f".sint {n}", "bool": ".bool", "char": ".char", "bytes": f".fixed {n}",
                        "float": f".float {n}"}[t] for t, n in d[1])
        return f".struct [{fl}]"
    if k in ("bits", "raw", "ipv4"):
        return "." + k
    if k == "varlen":
        return f".varlen {d[1]} {d[2]}"
    if k == "utf8":
        return f".utf8 {d[1]} {d[2]}"
    if k == "address":
        return f".address {'true' if d[1] else 'false'}"
    if k == "list":
        return f".listOf {d[1]} ({lean_fmt(d[2])})"
    if k == "array":
        return f".array {d[1]} {'true' if d[2] else 'false'} .{d[3]} {'true' if d[5] else 'false'}"
    if k == "nested":
        return f".nested ({lean_fmtlist(d[1])})"
    if k == "tuple":
        return f".tuple ({lean_fmtlist(d[1])})"
    if k == "flags":
        return f".flags {d[1]} {'true' if d[2] else 'false'}"
    raise TranslatorError(f"no Lean form for {d!r}")


def lean_fmtlist(ds) -> str:
    return "fl [" + ", ".join(lean_fmt(x) for x in ds) + "]"


# ------------------------------------------------------------------------------------------------ live objects
def make_serializer():
    """The union serializer: defaults + what shipped overlays add."""
    from ipv8.dht.payload import NodePacker
    from ipv8.messaging.anonymization.payload import Flags
    from ipv8.messaging.serialization import ListOf, Serializer
    ser = Serializer()
    ser.add_packer("flags", Flags())
    ser.add_packer("node-list", ListOf(NodePacker(ser)))
    return ser


def import_all():
    import importlib
    import pkgutil

    import ipv8
    for m in pkgutil.walk_packages(ipv8.__path__, "ipv8."):
        if m.name.startswith(SKIP_MODULES):
            continue
        try:
            importlib.import_module(m.name)
        except Exception:  # platform-only modules
            continue


def _allsubs(c):
    out = set()
    for s in c.__subclasses__():
        out.add(s)
        out |= _allsubs(s)
    return out


_SYN = None


def synthetic_classes():
    """Harness-owned payload definitions: every registered packer at least once, nesting two levels deep."""
    global _SYN
    if _SYN is not None:
        return _SYN
    from ipv8.messaging.lazy_payload import VariablePayload

    class SynLeaf(VariablePayload):
        format_list = ["H", "varlenH"]
        names = ["n", "blob"]

    class SynMid(VariablePayload):
        format_list = ["B", SynLeaf, [SynLeaf], "varlenBx2"]
        names = ["b", "leaf", "leaves", "w"]

    class SynTop(VariablePayload):
        format_list = ["I", SynMid, "varlenHutf8", [SynMid], "raw"]
        names = ["i", "mid", "text", "mids", "rest"]

    class SynArrays(VariablePayload):
        format_list = ["arrayH-?", "arrayH-q", "arrayH-d", "q"]
        names = ["bools", "ints", "doubles", "tail"]

    class SynStrings(VariablePayload):
        format_list = ["varlenHutf8", "varlenIutf8", "varlenI", "varlenHx20", "doublevarlenH", "varlenH-list"]
        names = ["a", "b", "c", "d", "e", "f"]

    class SynAddrs(VariablePayload):
        format_list = ["address", "ip_address", "ipv4", "node-list", "flags", "bits", "l"]
        names = ["a", "b", "c", "nodes", "flags", "b7", "b6", "b5", "b4", "b3", "b2", "b1", "b0", "tail"]

    class SynStructs(VariablePayload):
        format_list = ["?", "BBH", "c", "f", "d", "HH", "LL", "QH", "QL", "QQHHBH", "ccB", "4SH", "c20s", "74s", "BH"]
        names = [f"x{i}" for i in range(15)]

    class SynVarFirst(VariablePayload):
        format_list = ["varlenH", "varlenH", "Q"]
        names = ["k", "v", "t"]

    _SYN = [SynLeaf, SynMid, SynTop, SynArrays, SynStrings, SynAddrs, SynStructs, SynVarFirst]
    return _SYN


def payload_classes():
    """[(name, cls)] for all concrete shipped Serializable subclasses + the synthetic ones; names are unique."""
    import inspect

    from ipv8.messaging.serialization import Serializable
    import_all()
    syn = synthetic_classes()
    subs = [c for c in _allsubs(Serializable)
            if c.__module__.startswith("ipv8.") and not c.__module__.startswith(SKIP_MODULES) and c not in syn
            and not inspect.isabstract(c)]
    subs.sort(key=lambda c: (c.__module__, c.__name__))
    out, seen = [], set()
    for c in subs + syn:
        name = c.__name__
        if name in seen:
            name = c.__module__.split(".")[-2].capitalize() + name
        if name in seen:
            raise TranslatorError(f"duplicate payload class name {name}")
        seen.add(name)
        out.append((name, c))
    return out


def overlay_specs():
    """Shipped overlay classes with the settings needed to instantiate them on a mock endpoint."""
    from ipv8.attestation.identity.community import IdentityCommunity, IdentitySettings
    from ipv8.attestation.wallet.community import AttestationCommunity, AttestationSettings
    from ipv8.dht.community import DHTCommunity
    from ipv8.dht.discovery import DHTDiscoveryCommunity
    from ipv8.messaging.anonymization.community import TunnelCommunity
    from ipv8.messaging.anonymization.hidden_services import HiddenTunnelCommunity
    from ipv8.peerdiscovery.community import DiscoveryCommunity
    return [("DiscoveryCommunity", DiscoveryCommunity, None),
            ("DHTCommunity", DHTCommunity, None),
            ("DHTDiscoveryCommunity", DHTDiscoveryCommunity, None),
            ("TunnelCommunity", TunnelCommunity, None),
            ("HiddenTunnelCommunity", HiddenTunnelCommunity, None),
            ("IdentityCommunity", IdentityCommunity, lambda: IdentitySettings(working_directory=":memory:")),
            ("AttestationCommunity", AttestationCommunity, lambda: AttestationSettings(working_directory=":memory:"))]


def overlay_table():
    """[(name, prefix bytes, [public ids], [private ids])] from live instances."""
    import asyncio
    import logging

    from ipv8.community import Community
    from ipv8.test.mocking.ipv8 import MockIPv8
    import_all()
    known = {c for _, c, _ in overlay_specs()}
    missing = [c.__name__ for c in _allsubs(Community)
               if c.__module__.startswith("ipv8.") and not c.__module__.startswith(SKIP_MODULES)
               and getattr(c, "community_id", None) is not None and c not in known]
    if missing:
        raise TranslatorError(f"shipped overlay classes not covered by the translator: {missing}")

    async def build():
        rows = []
        for name, cls, mk in overlay_specs():
            node = MockIPv8("curve25519", cls, settings=mk() if mk else None)
            o = node.overlay
            pub = [i for i, h in enumerate(o.decode_map) if h is not None]
            priv = sorted(getattr(o, "decode_map_private", {}).keys())
            rows.append((name, bytes(o.get_prefix()), pub, priv))
            await node.stop()
        return rows
    lvl = logging.root.manager.disable
    logging.disable(logging.CRITICAL)
    try:
        return asyncio.run(build())
    finally:
        logging.disable(lvl)


# ------------------------------------------------------------------------------------------------ AST constants
def _func(tree, cls_name, fn_name):
    for n in tree.body:
        if isinstance(n, ast.ClassDef) and n.name == cls_name:
            for m in n.body:
                if isinstance(m, (ast.FunctionDef, ast.AsyncFunctionDef)) and m.name == fn_name:
                    return m
    raise TranslatorError(f"{cls_name}.{fn_name} not found")


_MODCONSTS: dict = {}     # name -> int, for module-level names bound exactly once to a constant integer expression

_CONST_FILES = ["ipv8/community.py", "ipv8/messaging/anonymization/community.py", "ipv8/messaging/anonymization/crypto.py",
                "ipv8/messaging/anonymization/payload.py", "ipv8/messaging/anonymization/exit_socket.py",
                "ipv8/messaging/interfaces/endpoint.py", "ipv8/messaging/interfaces/udp/endpoint.py",
                "ipv8/messaging/interfaces/statistics_endpoint.py", "ipv8/messaging/serialization.py",
                "ipv8/peerdiscovery/network.py", "ipv8/bootstrapping/udpbroadcast/bootstrapper.py"]


def _load_module_constants():
    """
    Named constants: a module-level (or class-level) name that is assigned exactly once in its file, to an integer literal
    or to +,-,* / len(bytes literal) of such, stands for that integer wherever the translator expects a literal.  A name
    that is assigned twice, augmented, declared `global`, or bound to different values in two anchored files is not
    resolved (the translator then fails as before).
    """
    _MODCONSTS.clear()
    seen: dict = {}
    for rel in _CONST_FILES:
        tree = ast.parse((REPO / rel).read_text())
        counts: dict = {}
        for n in ast.walk(tree):
            if isinstance(n, (ast.Assign, ast.AnnAssign, ast.AugAssign)):
                for t in (n.targets if isinstance(n, ast.Assign) else [n.target]):
                    if isinstance(t, ast.Name):
                        counts[t.id] = counts.get(t.id, 0) + (1 if isinstance(n, (ast.Assign, ast.AnnAssign)) else 2)
            if isinstance(n, ast.Global):
                for g in n.names:
                    counts[g] = counts.get(g, 0) + 2
        scopes = [tree.body] + [c.body for c in tree.body if isinstance(c, ast.ClassDef)]
        for body in scopes:
            for n in body:
                if isinstance(n, (ast.Assign, ast.AnnAssign)) and n.value is not None:
                    tgt = n.targets[0] if isinstance(n, ast.Assign) and len(n.targets) == 1 else getattr(n, "target", None)
                    if isinstance(tgt, ast.Name) and counts.get(tgt.id) == 1:
                        try:
                            v = _int(n.value)
                        except TranslatorError:
                            continue
                        if tgt.id in seen and seen[tgt.id] != v:
                            _MODCONSTS.pop(tgt.id, None)
                            seen[tgt.id] = None
                        elif seen.get(tgt.id, v) is not None:
                            seen[tgt.id] = v
                            _MODCONSTS[tgt.id] = v


def _int(e):
    if isinstance(e, ast.Constant) and isinstance(e.value, int) and not isinstance(e.value, bool):
        return e.value
    if isinstance(e, ast.Name) and e.id in _MODCONSTS:
        return _MODCONSTS[e.id]
    if isinstance(e, ast.Attribute) and isinstance(e.value, ast.Name) and e.value.id in ("self", "cls") and e.attr in _MODCONSTS:
        return _MODCONSTS[e.attr]
    if isinstance(e, ast.BinOp) and isinstance(e.op, (ast.Add, ast.Sub, ast.Mult)):
        l, r = _int(e.left), _int(e.right)
        return l + r if isinstance(e.op, ast.Add) else l - r if isinstance(e.op, ast.Sub) else l * r
    if isinstance(e, ast.Call) and ast.unparse(e.func) == "len" and len(e.args) == 1 and isinstance(e.args[0], ast.Constant) \
            and isinstance(e.args[0].value, (bytes, str)):
        return len(e.args[0].value)
    raise TranslatorError(f"expected an integer literal or a once-assigned named integer constant, got {ast.dump(e)[:80]}")


def _gate_constants(fn, var: str, where: str) -> dict:
    """
    The demultiplexer shape shared by Community.on_packet and on_packet_from_circuit:
        if self._prefix != <var>[:N] [or len(<var>) < K]: return
        msg_id = <var>[M]
        ... handler call inside `try:` with `except Exception`
    """
    # the datagram variable: `source_address, <var> = packet` if the function unpacks its argument, else the given name
    for node in ast.walk(fn):
        if isinstance(node, ast.Assign) and len(node.targets) == 1 and isinstance(node.targets[0], ast.Tuple) \
                and len(node.targets[0].elts) == 2 and isinstance(node.value, ast.Name) and node.value.id == "packet" \
                and isinstance(node.targets[0].elts[1], ast.Name):
            var = node.targets[0].elts[1].id
    take = idx = None
    minlen = 0
    for node in ast.walk(fn):
        if isinstance(node, ast.If) and len(node.body) == 1 and isinstance(node.body[0], ast.Return) and take is None:
            tests = node.test.values if isinstance(node.test, ast.BoolOp) and isinstance(node.test.op, ast.Or) \
                else [node.test]
            for t in tests:
                if not (isinstance(t, ast.Compare) and len(t.ops) == 1):
                    raise TranslatorError(f"{where}: unexpected guard {ast.unparse(t)}")
                l, op, r = t.left, t.ops[0], t.comparators[0]
                if isinstance(op, ast.NotEq) and ast.unparse(l) == "self._prefix" and isinstance(r, ast.Subscript) \
                        and isinstance(r.slice, ast.Slice) and r.slice.lower is None and ast.unparse(r.value) == var:
                    take = _int(r.slice.upper)
                elif isinstance(op, ast.Lt) and ast.unparse(l) == f"len({var})":
                    minlen = max(minlen, _int(r))
                elif isinstance(op, ast.LtE) and ast.unparse(l) == f"len({var})":
                    minlen = max(minlen, _int(r) + 1)
                else:
                    raise TranslatorError(f"{where}: guard {ast.unparse(t)} outside the subset")
        if isinstance(node, ast.Assign) and len(node.targets) == 1 and ast.unparse(node.targets[0]) == "msg_id":
            v = node.value
            if isinstance(v, ast.Subscript) and ast.unparse(v.value) == var and not isinstance(v.slice, ast.Slice):
                idx = _int(v.slice)
            else:
                raise TranslatorError(f"{where}: msg_id = {ast.unparse(v)} outside the subset")
    if take is None or idx is None:
        raise TranslatorError(f"{where}: prefix comparison or msg_id index not found")
    # statement ORDER matters: the guard must come before the index, the index before the protected handler call
    guard_line = min((n.lineno for n in ast.walk(fn) if isinstance(n, ast.If) and len(n.body) == 1
                      and isinstance(n.body[0], ast.Return)), default=0)
    idx_line = min((n.lineno for n in ast.walk(fn) if isinstance(n, ast.Assign) and len(n.targets) == 1
                    and ast.unparse(n.targets[0]) == "msg_id"), default=0)
    try_line = min((n.lineno for n in ast.walk(fn) if isinstance(n, ast.Try)), default=10 ** 9)
    if not (guard_line < idx_line < try_line):
        raise TranslatorError(f"{where}: expected the prefix/length guard, then `msg_id = …`, then the try block, in this order")
    return {"take": take, "idx": idx, "minlen": minlen, "catch": _handler_call_caught(fn, "handler", where)}


def _catches_exception(tr: ast.Try) -> bool:
    for h in tr.handlers:
        if h.type is None:
            return True
        names = [ast.unparse(x) for x in (h.type.elts if isinstance(h.type, ast.Tuple) else [h.type])]
        if "Exception" in names or "BaseException" in names:
            # the handler must not re-raise
            if not any(isinstance(x, ast.Raise) for x in ast.walk(h)):
                return True
    return False


def _handler_call_caught(fn, callee: str, where: str) -> bool:
    """Is every call `<callee>(...)` in fn lexically inside a try whose handlers include `except Exception`?"""
    found = []

    def walk(node, protected):
        if isinstance(node, ast.Try):
            p = protected or _catches_exception(node)
            for x in node.body:
                walk(x, p)
            for x in node.handlers + node.orelse + node.finalbody:
                walk(x, protected)
            return
        if isinstance(node, ast.Call) and ast.unparse(node.func) == callee:
            found.append(protected)
        for ch in ast.iter_child_nodes(node):
            walk(ch, protected)
    walk(fn, False)
    if not found:
        raise TranslatorError(f"{where}: call of {callee} not found")
    return all(found)


def _bounds_checks() -> dict:
    """
    VarLen.unpack / NestedPayload.unpack / DefaultArray.unpack (serialization.py): `checked` iff the function contains,
    before its return, `if <E> > len(data): raise PackError(...)` (or `len(data) < <E>`, `>=`/`<=` forms with +1 are not
    accepted) where <E> is textually the expression the function returns (after replacing once-assigned local names by
    their definitions), i.e. the very end offset it reports.
    """
    tree = ast.parse((REPO / "ipv8/messaging/serialization.py").read_text())
    out = {}
    for cls, key in (("VarLen", "varlen"), ("NestedPayload", "nested"), ("DefaultArray", "array")):
        fn = _func(tree, cls, "unpack")
        env = {}
        for n in ast.walk(fn):
            if isinstance(n, ast.Assign) and len(n.targets) == 1 and isinstance(n.targets[0], ast.Name):
                env.setdefault(n.targets[0].id, []).append(n.value)
        single = {k: v[0] for k, v in env.items() if len(v) == 1}

        def norm(e, depth=0):
            class Sub(ast.NodeTransformer):
                def visit_Name(self, node):
                    if node.id in single and depth < 4 and node.id != "offset":
                        return ast.parse(norm(single[node.id], depth + 1), mode="eval").body
                    return node
            import copy
            return ast.unparse(Sub().visit(copy.deepcopy(e)))
        rets = [n for n in ast.walk(fn) if isinstance(n, ast.Return) and n.value is not None]
        if len(rets) != 1:
            raise TranslatorError(f"{cls}.unpack: expected exactly one return")
        ret = norm(rets[0].value)
        checked = False
        for n in ast.walk(fn):
            if isinstance(n, ast.If) and n.lineno < rets[0].lineno and isinstance(n.test, ast.Compare) and len(n.test.ops) == 1 \
                    and any(isinstance(x, ast.Raise) for x in n.body):
                l, op, r = n.test.left, n.test.ops[0], n.test.comparators[0]
                if isinstance(op, ast.Gt) and ast.unparse(r) == "len(data)" and norm(l) == ret:
                    checked = True
                if isinstance(op, ast.Lt) and ast.unparse(l) == "len(data)" and norm(r) == ret:
                    checked = True
        out[key] = checked
    return out


def _delivery_condition(fn) -> set:
    """
    Normal form of "when is listener.on_packet(packet) reached" for a straight-line function made of
      * guard clauses   `if <c>: return`
      * local bindings  `<name> = <expr>`            (substituted into later conditions)
      * one final       `if <c>: listener.on_packet(packet)`
    = the SET of conjuncts of (not guard_1) and … and (final condition), each conjunct either the text of an atom or the
    frozenset of the texts of the disjuncts of an `or`.  Order of conjuncts / disjuncts, naming of intermediate booleans and
    guard-clause vs nested-condition style do not matter; the atoms themselves must be textually the expected ones.
    """
    import copy
    env: dict = {}

    def subst(e):
        class Sub(ast.NodeTransformer):
            def visit_Name(self, node):
                return copy.deepcopy(env[node.id]) if node.id in env else node
        return Sub().visit(copy.deepcopy(e))

    def conj(e):
        if isinstance(e, ast.BoolOp) and isinstance(e.op, ast.And):
            return [c for v in e.values for c in conj(v)]
        return [e]

    def neg(e):
        if isinstance(e, ast.UnaryOp) and isinstance(e.op, ast.Not):
            return conj(e.operand)
        if isinstance(e, ast.BoolOp) and isinstance(e.op, ast.Or):
            return [c for v in e.values for c in neg(v)]
        if isinstance(e, ast.BoolOp):
            raise TranslatorError("Endpoint._deliver_later: negated conjunction in a guard clause outside the subset")
        return [ast.UnaryOp(op=ast.Not(), operand=e)]

    def norm(e):
        if isinstance(e, ast.BoolOp) and isinstance(e.op, ast.Or):
            return frozenset(ast.unparse(v) for v in e.values)
        return ast.unparse(e)
    out: set = set()
    delivered = False
    for st in fn.body:
        if isinstance(st, ast.Expr) and isinstance(st.value, ast.Constant):
            continue
        if delivered:
            raise TranslatorError("Endpoint._deliver_later: statements after the delivery outside the subset")
        if isinstance(st, ast.Assign) and len(st.targets) == 1 and isinstance(st.targets[0], ast.Name):
            env[st.targets[0].id] = subst(st.value)
        elif isinstance(st, ast.If) and not st.orelse and len(st.body) == 1 and isinstance(st.body[0], ast.Return) \
                and st.body[0].value is None:
            out |= {norm(c) for c in neg(subst(st.test))}
        elif isinstance(st, ast.If) and not st.orelse and len(st.body) == 1 \
                and ast.unparse(st.body[0]) == "listener.on_packet(packet)":
            out |= {norm(c) for c in conj(subst(st.test))}
            delivered = True
        else:
            raise TranslatorError(f"Endpoint._deliver_later: statement `{ast.unparse(st)[:60]}` outside the subset")
    if not delivered:
        raise TranslatorError("Endpoint._deliver_later: no `listener.on_packet(packet)` delivery found")
    return out


def _endpoint_shapes() -> dict:
    """
    ipv8/messaging/interfaces/endpoint.py, class Endpoint.  Read:
      add_listener          appends to `self._listeners` and to every prefix list IN PLACE (`.append`), or rebuilds them
                            (`self._listeners = [...]`)                                   -> add_in_place
      add_prefix_listener   `self._prefix_map[prefix] = [*self._prefix_map.get(prefix, []), listener, *self._listeners]`
      remove_listener       rebuilds `self._listeners` and `self._prefix_map` (plain attribute assignments, no slice
                            assignment / del / .remove / .pop / .clear on them)          -> rm_rebuilds
      _deliver_later        `self.is_open() and (packet[1][:self.prefixlen] in self._prefix_map or listener in self._listeners)`
      notify_listeners      `listeners = self._prefix_map.get(prefix, self._listeners)`; the for loop iterates that very
                            object or a copy of it (`list(...)`, `tuple(...)`, `[...][:]`, `[*...]`) -> notify_copies
    Anything else raises TranslatorError.
    """
    tree = ast.parse((REPO / "ipv8/messaging/interfaces/endpoint.py").read_text())
    out = {}
    fn = _func(tree, "Endpoint", "add_listener")
    appends = [ast.unparse(n.func.value) for n in ast.walk(fn)
               if isinstance(n, ast.Call) and isinstance(n.func, ast.Attribute) and n.func.attr == "append"]
    assigns = [ast.unparse(t) for n in ast.walk(fn) if isinstance(n, ast.Assign) for t in n.targets]
    if sorted(appends) == ["self._listeners", "self._prefix_map[prefix]"] and not assigns:
        out["add_in_place"] = True
    elif not appends and "self._listeners" in assigns and any(a.startswith("self._prefix_map") for a in assigns):
        out["add_in_place"] = False
    else:
        raise TranslatorError(f"Endpoint.add_listener: appends {appends} / assignments {assigns} outside the subset")
    fn = _func(tree, "Endpoint", "add_prefix_listener")
    asg = [n for n in ast.walk(fn) if isinstance(n, ast.Assign)]
    want = "self._prefix_map[prefix] = [*self._prefix_map.get(prefix, []), listener, *self._listeners]"
    if [ast.unparse(n) for n in asg if not ast.unparse(n).startswith("msg")] != [want]:
        raise TranslatorError("Endpoint.add_prefix_listener: registration statement outside the subset")
    fn = _func(tree, "Endpoint", "remove_listener")
    inplace = []
    for n in ast.walk(fn):
        if isinstance(n, (ast.Assign, ast.AugAssign)):
            for t in (n.targets if isinstance(n, ast.Assign) else [n.target]):
                if isinstance(t, ast.Subscript) and isinstance(t.slice, ast.Slice):
                    inplace.append(ast.unparse(n)[:60])
        if isinstance(n, ast.Delete):
            inplace.append(ast.unparse(n)[:60])
        if isinstance(n, ast.Call) and isinstance(n.func, ast.Attribute) and n.func.attr in ("remove", "pop", "clear"):
            inplace.append(ast.unparse(n)[:60])
    targets = [ast.unparse(t) for n in ast.walk(fn) if isinstance(n, ast.Assign) for t in n.targets]
    if not inplace and "self._listeners" in targets and "self._prefix_map" in targets:
        out["rm_rebuilds"] = True
    elif inplace:
        out["rm_rebuilds"] = False
    else:
        raise TranslatorError(f"Endpoint.remove_listener: assignments {targets} outside the subset")
    cond = [n for n in ast.walk(fn) if isinstance(n, ast.If)]
    if len(cond) != 1 or ast.unparse(cond[0].test) not in ("set(listeners) != set(self._listeners)",
                                                            "set(listeners) == set(self._listeners)"):
        raise TranslatorError("Endpoint.remove_listener: the keep/drop test of a prefix entry is outside the subset")
    fn = _func(tree, "Endpoint", "_deliver_later")
    got = _delivery_condition(fn)
    want = {"self.is_open()", frozenset({"packet[1][:self.prefixlen] in self._prefix_map", "listener in self._listeners"})}
    if got != want:
        raise TranslatorError(f"Endpoint._deliver_later: delivery condition {sorted(map(str, got))} outside the subset")
    fn = _func(tree, "Endpoint", "notify_listeners")
    asg = [ast.unparse(n) for n in ast.walk(fn) if isinstance(n, ast.Assign)]
    if sorted(asg) != sorted(["prefix = packet[1][:self.prefixlen]", "listeners = self._prefix_map.get(prefix, self._listeners)"]):
        raise TranslatorError(f"Endpoint.notify_listeners: {asg} outside the subset")
    loops = [n for n in ast.walk(fn) if isinstance(n, ast.For)]
    if len(loops) != 1 or not any(isinstance(n, ast.Call) and ast.unparse(n.func) == "self._deliver_later"
                                  for n in ast.walk(loops[0])):
        raise TranslatorError("Endpoint.notify_listeners: the delivery loop is outside the subset")
    it = ast.unparse(loops[0].iter)
    if it == "listeners":
        out["notify_copies"] = False
    elif it in ("list(listeners)", "tuple(listeners)", "listeners[:]", "[*listeners]", "listeners.copy()"):
        out["notify_copies"] = True
    else:
        raise TranslatorError(f"Endpoint.notify_listeners: loop over {it} outside the subset")
    return out


def _len_ge(e):
    """`len(data) >= K` / `len(data) > K` -> K resp. K+1, else None"""
    if isinstance(e, ast.Compare) and len(e.ops) == 1 and ast.unparse(e.left) == "len(data)":
        if isinstance(e.ops[0], ast.GtE):
            return _int(e.comparators[0])
        if isinstance(e.ops[0], ast.Gt):
            return _int(e.comparators[0]) + 1
    return None


def _exit_constants() -> dict:
    """
    DataChecker (ipv8/messaging/anonymization/exit_socket.py), read as guarded big-endian reads:
      could_be_utp:          `if len(data) < N: return False`, then unpack_from("!BB", data)        -> utp_min, utp_read
      could_be_udp_tracker:  `bool((len(data) >= A and 0 <= unpack_from("!I", data, a)[0] <= 3)
                                    or (len(data) >= B and 0 <= unpack_from("!I", data, b)[0] <= 3))` -> [(A, a), (B, b)]
      could_be_dht:          slices and len only (cannot raise)
      could_be_ipv8:         `len(data) >= K and data[0:1] == b"\x00" and data[1:2] in [...]`
    and TunnelExitSocket.datagram_received: `if self.is_allowed(data):` outside, `self.tunnel_data(...)` inside try/except
    Exception.  Any other shape raises TranslatorError.
    """
    tree = ast.parse((REPO / "ipv8/messaging/anonymization/exit_socket.py").read_text())
    out: dict = {}
    fn = _func(tree, "DataChecker", "could_be_utp")
    body = [n for n in fn.body if not (isinstance(n, ast.Expr) and isinstance(n.value, ast.Constant))]
    g = body[0] if body else None
    if not (isinstance(g, ast.If) and isinstance(g.test, ast.Compare) and ast.unparse(g.test.left) == "len(data)"
            and isinstance(g.test.ops[0], ast.Lt) and ast.unparse(g.body[0]) == "return False"):
        raise TranslatorError("DataChecker.could_be_utp: leading `if len(data) < N: return False` not found")
    out["utp_min"] = _int(g.test.comparators[0])
    reads = [n for n in ast.walk(fn) if isinstance(n, ast.Call) and ast.unparse(n.func) == "unpack_from"]
    if len(reads) != 1 or ast.unparse(reads[0].args[0]) not in ("'!BB'", "'>BB'") or len(reads[0].args) != 2 \
            or any(n.lineno < g.lineno for n in reads):
        raise TranslatorError("DataChecker.could_be_utp: expected a single unpack_from('!BB', data) after the guard")
    out["utp_read"] = 2
    fn = _func(tree, "DataChecker", "could_be_udp_tracker")
    body = [n for n in fn.body if not (isinstance(n, ast.Expr) and isinstance(n.value, ast.Constant))]
    if len(body) != 1 or not isinstance(body[0], ast.Return):
        raise TranslatorError("DataChecker.could_be_udp_tracker: body is not a single return statement")
    e = body[0].value
    if isinstance(e, ast.Call) and ast.unparse(e.func) == "bool" and len(e.args) == 1:
        e = e.args[0]
    if not (isinstance(e, ast.BoolOp) and isinstance(e.op, ast.Or)):
        raise TranslatorError("DataChecker.could_be_udp_tracker: expected `<clause> or <clause>`")
    clauses = []
    for cl in e.values:
        if not (isinstance(cl, ast.BoolOp) and isinstance(cl.op, ast.And) and len(cl.values) == 2):
            raise TranslatorError(f"DataChecker.could_be_udp_tracker: clause {ast.unparse(cl)} outside the subset")
        k = _len_ge(cl.values[0])
        cmp_ = cl.values[1]
        if k is None or not (isinstance(cmp_, ast.Compare) and len(cmp_.ops) == 2 and _int(cmp_.left) == 0
                             and all(isinstance(o, ast.LtE) for o in cmp_.ops) and isinstance(cmp_.comparators[0], ast.Subscript)):
            raise TranslatorError(f"DataChecker.could_be_udp_tracker: clause {ast.unparse(cl)} outside the subset")
        call = cmp_.comparators[0].value
        if not (isinstance(call, ast.Call) and ast.unparse(call.func) == "unpack_from" and len(call.args) == 3
                and ast.unparse(call.args[0]) in ("'!I'", "'>I'") and ast.unparse(call.args[1]) == "data"):
            raise TranslatorError(f"DataChecker.could_be_udp_tracker: read {ast.unparse(cmp_)} outside the subset")
        clauses.append((k, _int(call.args[2]), _int(cmp_.comparators[1])))
    if len(clauses) != 2:
        raise TranslatorError("DataChecker.could_be_udp_tracker: expected two clauses")
    out["tracker"] = clauses
    for name in ("could_be_dht", "could_be_ipv8"):
        fn = _func(tree, "DataChecker", name)
        for n in ast.walk(fn):
            if isinstance(n, ast.Call) and ast.unparse(n.func) not in ("len",):
                raise TranslatorError(f"DataChecker.{name}: call {ast.unparse(n)} outside the subset (slices/len only)")
            if isinstance(n, ast.Subscript) and not isinstance(n.slice, ast.Slice):
                raise TranslatorError(f"DataChecker.{name}: index {ast.unparse(n)} outside the subset (slices only)")
    fn = _func(tree, "DataChecker", "could_be_ipv8")
    ks = [k for k in (_len_ge(n) for n in ast.walk(fn)) if k is not None]
    if len(ks) != 1:
        raise TranslatorError("DataChecker.could_be_ipv8: length test not found")
    out["ipv8_min"] = ks[0]
    fn = _func(tree, "DataChecker", "could_be_bt")
    names = [ast.unparse(n.func) for n in ast.walk(fn) if isinstance(n, ast.Call)]
    if sorted(names) != sorted(["DataChecker.could_be_utp", "DataChecker.could_be_udp_tracker", "DataChecker.could_be_dht"]):
        raise TranslatorError("DataChecker.could_be_bt: not the disjunction of utp / udp_tracker / dht")
    fn = _func(tree, "TunnelExitSocket", "datagram_received")
    out["allowed_protected"] = _handler_call_caught(fn, "self.is_allowed", "TunnelExitSocket.datagram_received")
    out["tunnel_protected"] = _handler_call_caught(fn, "self.tunnel_data", "TunnelExitSocket.datagram_received")
    return out


def check_transport_classes():
    """every class of the package that asyncio calls with received datagrams must be one the harness drives"""
    import asyncio
    import inspect
    import sys as _sys
    import_all()
    known = {"ipv8.messaging.interfaces.udp.endpoint.UDPEndpoint", "ipv8.messaging.interfaces.udp.endpoint.UDPv6Endpoint",
             "ipv8.messaging.anonymization.exit_socket.TunnelProtocol",
             "ipv8.bootstrapping.udpbroadcast.bootstrapper.BroadcastBootstrapEndpoint"}
    found = set()
    for mname, mod in list(_sys.modules.items()):
        if not mname.startswith("ipv8.") or mname.startswith(SKIP_MODULES):
            continue
        for _, cls in inspect.getmembers(mod, inspect.isclass):
            if cls.__module__ == mname and issubclass(cls, (asyncio.DatagramProtocol, asyncio.Protocol)):
                found.add(f"{mname}.{cls.__name__}")
    unknown = sorted(found - known)
    if unknown:
        raise TranslatorError(f"network-facing protocol classes the check does not drive: {unknown}")
    return sorted(found)


def ast_constants() -> dict:
    _load_module_constants()
    c: dict = {}
    tree = ast.parse((REPO / "ipv8/community.py").read_text())
    c["pub"] = _gate_constants(_func(tree, "Community", "on_packet"), "data", "Community.on_packet")
    tree = ast.parse((REPO / "ipv8/messaging/anonymization/community.py").read_text())
    c["priv"] = _gate_constants(_func(tree, "TunnelCommunity", "on_packet_from_circuit"), "data",
                                "TunnelCommunity.on_packet_from_circuit")
    # PythonCryptoEndpoint.on_packet
    tree = ast.parse((REPO / "ipv8/messaging/anonymization/crypto.py").read_text())
    fn = _func(tree, "PythonCryptoEndpoint", "on_packet")
    first_if = next((n for n in fn.body if isinstance(n, ast.If)), None)
    if first_if is None or not (isinstance(first_if.test, ast.BoolOp) and isinstance(first_if.test.op, ast.And)
                                and len(first_if.test.values) == 2):
        raise TranslatorError("PythonCryptoEndpoint.on_packet: `if <prefix test> and <msg id test>` not found")
    ptest, mtest = first_if.test.values
    if ast.unparse(ptest) != "datagram.startswith(self.prefix)":
        raise TranslatorError(f"PythonCryptoEndpoint.on_packet: prefix test {ast.unparse(ptest)} outside the subset")
    if not (isinstance(mtest, ast.Compare) and isinstance(mtest.ops[0], ast.Eq) and isinstance(mtest.left, ast.Subscript)
            and ast.unparse(mtest.left.value) == "datagram"):
        raise TranslatorError(f"PythonCryptoEndpoint.on_packet: msg id test {ast.unparse(mtest)} outside the subset")
    sl = mtest.left.slice
    rhs = ast.unparse(mtest.comparators[0])
    if isinstance(sl, ast.Slice):
        lo, hi = _int(sl.lower), _int(sl.upper)
        if hi != lo + 1 or "CellPayload.msg_id" not in rhs:
            raise TranslatorError("PythonCryptoEndpoint.on_packet: slice form of the msg id test outside the subset")
        c["crypto"] = {"idx": lo, "safe": True}
    else:
        if rhs != "CellPayload.msg_id":
            raise TranslatorError("PythonCryptoEndpoint.on_packet: index form of the msg id test outside the subset")
        c["crypto"] = {"idx": _int(sl), "safe": False}
    c["crypto"]["catch"] = _handler_call_caught(fn, "self.process_cell", "PythonCryptoEndpoint.on_packet")
    els = first_if.orelse
    if not (len(els) == 1 and isinstance(els[0], ast.If) and ast.unparse(els[0].test) == "self.tunnel_community"):
        raise TranslatorError("PythonCryptoEndpoint.on_packet: `elif self.tunnel_community` branch not found")
    # CellPayload.from_bin
    tree = ast.parse((REPO / "ipv8/messaging/anonymization/payload.py").read_text())
    fn = _func(tree, "CellPayload", "from_bin")
    hdr = None
    msg_start = None
    for node in ast.walk(fn):
        if isinstance(node, ast.Call) and ast.unparse(node.func) == "unpack_from" and len(node.args) == 3:
            fmt = node.args[0]
            if not (isinstance(fmt, ast.Constant) and isinstance(fmt.value, str)):
                raise TranslatorError("CellPayload.from_bin: non-literal header format")
            hdr = (fmt.value, _int(node.args[2]))
        if isinstance(node, ast.Subscript) and ast.unparse(node.value) == "packet" and isinstance(node.slice, ast.Slice) \
                and node.slice.upper is None:
            msg_start = _int(node.slice.lower)
    if hdr is None or msg_start is None:
        raise TranslatorError("CellPayload.from_bin: header unpack or message slice not found")
    if hdr[0] not in ("!I??", ">I??"):
        raise TranslatorError(f"CellPayload.from_bin: header format {hdr[0]!r} outside the subset")
    guard = 0
    for node in ast.walk(fn):
        if isinstance(node, ast.Compare) and ast.unparse(node.left) == "len(packet)" and isinstance(node.ops[0], ast.Lt):
            guard = _int(node.comparators[0])
    c["cell"] = {"hdr_off": hdr[1], "hdr_size": struct.calcsize(hdr[0]), "msg_start": msg_start, "guard": guard}
    # StatisticsEndpoint.on_packet (shipped non-overlay listener):
    #   prefix = data[:N]; if prefix not in list(self.statistics.keys()) or len(data) < K: return; message_id = data[M]
    tree = ast.parse((REPO / "ipv8/messaging/interfaces/statistics_endpoint.py").read_text())
    fn = _func(tree, "StatisticsEndpoint", "on_packet")
    st = {"take": None, "minlen": 0, "idx": None}
    for node in ast.walk(fn):
        if isinstance(node, ast.Assign) and len(node.targets) == 1 and isinstance(node.value, ast.Subscript) \
                and ast.unparse(node.value.value) == "data":
            sl = node.value.slice
            if isinstance(sl, ast.Slice) and sl.lower is None and ast.unparse(node.targets[0]) == "prefix":
                st["take"] = _int(sl.upper)
            elif not isinstance(sl, ast.Slice):
                st["idx"] = _int(sl)
        if isinstance(node, ast.Compare) and ast.unparse(node.left) == "len(data)" and len(node.ops) == 1:
            if isinstance(node.ops[0], ast.Lt):
                st["minlen"] = max(st["minlen"], _int(node.comparators[0]))
            elif isinstance(node.ops[0], ast.LtE):
                st["minlen"] = max(st["minlen"], _int(node.comparators[0]) + 1)
        if isinstance(node, ast.Try):
            raise TranslatorError("StatisticsEndpoint.on_packet: try statement outside the subset")
    if st["take"] is None or st["idx"] is None:
        raise TranslatorError("StatisticsEndpoint.on_packet: prefix slice or message id index not found")
    c["stats"] = st
    # datagram_received of both UDP endpoints: `if self._running:` … `notify_listeners((UDPvXAddress(*addr[:n]), datagram))`
    tree = ast.parse((REPO / "ipv8/messaging/interfaces/udp/endpoint.py").read_text())
    c["udp"] = {}
    for cls_name, key, ctor in (("UDPEndpoint", "v4", "UDPv4Address"), ("UDPv6Endpoint", "v6", "UDPv6Address")):
        fn = _func(tree, cls_name, "datagram_received")
        calls = [n for n in ast.walk(fn) if isinstance(n, ast.Call) and ast.unparse(n.func) == ctor]
        if len(calls) != 1 or len(calls[0].args) != 1 or not isinstance(calls[0].args[0], ast.Starred) or calls[0].keywords:
            raise TranslatorError(f"{cls_name}.datagram_received: address conversion is not {ctor}(*<expr>)")
        v = calls[0].args[0].value
        if isinstance(v, ast.Name) and v.id == "addr":
            c["udp"][key] = None
        elif isinstance(v, ast.Subscript) and ast.unparse(v.value) == "addr" and isinstance(v.slice, ast.Slice) \
                and v.slice.lower is None and v.slice.step is None:
            c["udp"][key] = _int(v.slice.upper)
        else:
            raise TranslatorError(f"{cls_name}.datagram_received: address expression {ast.unparse(v)} outside the subset")
        guards = [n for n in fn.body if isinstance(n, ast.If) and ast.unparse(n.test) == "self._running"]
        if len(guards) != 1 or not any(isinstance(n, ast.Call) and ast.unparse(n.func) == "self.notify_listeners"
                                       for n in ast.walk(guards[0])):
            raise TranslatorError(f"{cls_name}.datagram_received: `if self._running:` around notify_listeners not found")
    # Network.load_snapshot: while-loop whose entry decode sits in try/except Exception with the got-stuck break
    tree = ast.parse((REPO / "ipv8/peerdiscovery/network.py").read_text())
    fn = _func(tree, "Network", "load_snapshot")
    tries = [n for n in ast.walk(fn) if isinstance(n, ast.Try)]
    whiles = [n for n in ast.walk(fn) if isinstance(n, ast.While)]
    if len(whiles) != 1 or ast.unparse(whiles[0].test) != "offset < snaplen":
        raise TranslatorError("Network.load_snapshot: `while offset < snaplen` not found")
    catch = stuck = False
    if len(tries) == 1 and any(isinstance(n, ast.Call) and ast.unparse(n.func).endswith(".unpack")
                               for x in tries[0].body for n in ast.walk(x)):
        catch = _catches_exception(tries[0])
        for h in tries[0].handlers:
            for n in ast.walk(h):
                if isinstance(n, ast.If) and ast.unparse(n.test) in ("offset <= previous_offset", "previous_offset >= offset") \
                        and any(isinstance(x, ast.Break) for x in n.body):
                    stuck = True
    c["snap"] = {"catch": catch, "stuck": stuck}
    # Packer.unpack of the length-prefixed packers: is the reported end compared with len(data) before anything is sliced?
    c["bounds"] = _bounds_checks()
    # Endpoint (listener registry + dispatch loop): the shapes the model's registry semantics rest on
    c["endpoint"] = _endpoint_shapes()
    # BroadcastBootstrapEndpoint.datagram_received: beacon for our overlay -> overlay.walk_to(addr) (is it inside a
    # try/except Exception?); datagram starting with our prefix -> overlay.on_packet; anything else dropped
    tree = ast.parse((REPO / "ipv8/bootstrapping/udpbroadcast/bootstrapper.py").read_text())
    fn = _func(tree, "BroadcastBootstrapEndpoint", "datagram_received")
    top = [n for n in fn.body if isinstance(n, ast.If)]
    if len(top) != 1 or ast.unparse(top[0].test) != "data.startswith(HDR_ANNOUNCE)":
        raise TranslatorError("BroadcastBootstrapEndpoint.datagram_received: `if data.startswith(HDR_ANNOUNCE)` not found")
    inner = [n for n in top[0].body if isinstance(n, ast.If)]
    if len(inner) != 1 or ast.unparse(inner[0].test) != "self.overlay.get_prefix() == data[len(HDR_ANNOUNCE):]":
        raise TranslatorError("BroadcastBootstrapEndpoint.datagram_received: beacon prefix comparison outside the subset")
    els = top[0].orelse
    if not (len(els) == 1 and isinstance(els[0], ast.If)
            and ast.unparse(els[0].test) == "data.startswith(self.overlay.get_prefix())"):
        raise TranslatorError("BroadcastBootstrapEndpoint.datagram_received: `elif data.startswith(prefix)` not found")
    c["bcast"] = {"walk_protected": _handler_call_caught(fn, "self.overlay.walk_to", "BroadcastBootstrapEndpoint.datagram_received"),
                  "on_packet_protected": _handler_call_caught(fn, "self.overlay.on_packet",
                                                              "BroadcastBootstrapEndpoint.datagram_received")}
    # exit sockets: the two entry points asyncio calls (address conversion before the shared datagram_received)
    tree = ast.parse((REPO / "ipv8/messaging/anonymization/exit_socket.py").read_text())
    c["exit_entry"] = {}
    for fname, key, ctor in (("datagram_received_ipv4", "v4", "UDPv4Address"), ("datagram_received_ipv6", "v6", "UDPv6Address")):
        fn = _func(tree, "TunnelExitSocket", fname)
        calls = [n for n in ast.walk(fn) if isinstance(n, ast.Call) and ast.unparse(n.func) == ctor]
        if len(calls) != 1 or len(calls[0].args) != 1 or not isinstance(calls[0].args[0], ast.Starred):
            raise TranslatorError(f"TunnelExitSocket.{fname}: address conversion is not {ctor}(*<expr>)")
        v = calls[0].args[0].value
        if isinstance(v, ast.Name) and v.id == "source":
            c["exit_entry"][key] = None
        elif isinstance(v, ast.Subscript) and ast.unparse(v.value) == "source" and isinstance(v.slice, ast.Slice) \
                and v.slice.lower is None and v.slice.step is None:
            c["exit_entry"][key] = _int(v.slice.upper)
        else:
            raise TranslatorError(f"TunnelExitSocket.{fname}: address expression {ast.unparse(v)} outside the subset")
    # exit sockets: DataChecker byte predicates and TunnelExitSocket.datagram_received / is_allowed
    c["exit"] = _exit_constants()
    # Network.get_verified_by_address runs in Community.on_packet before the prefix gate and outside the try:
    # are all its dict accesses of the non-raising kind?  (subscript loads on self.<dict> and one-argument .pop raise)
    tree = ast.parse((REPO / "ipv8/peerdiscovery/network.py").read_text())
    fn = _func(tree, "Network", "get_verified_by_address")
    raising = []
    for node in ast.walk(fn):
        if isinstance(node, ast.Subscript) and isinstance(node.ctx, ast.Load) and ast.unparse(node.value).startswith("self."):
            raising.append(ast.unparse(node))
        if isinstance(node, ast.Call) and isinstance(node.func, ast.Attribute) and node.func.attr == "pop" \
                and ast.unparse(node.func.value).startswith("self.") and len(node.args) + len(node.keywords) < 2:
            raising.append(ast.unparse(node))
        if isinstance(node, (ast.Raise, ast.Assert)):
            raising.append(type(node).__name__.lower())
        if isinstance(node, ast.Call) and ast.unparse(node.func) == "next" and len(node.args) < 2:
            raising.append(ast.unparse(node))
        if isinstance(node, ast.Subscript) and isinstance(node.ctx, ast.Load) and isinstance(node.value, ast.Name) \
                and not isinstance(node.slice, ast.Slice):
            raising.append(ast.unparse(node))       # subscript on a local (possibly an alias of a dict)
    c["lookup"] = {"safe": not raising, "raising": raising}
    # … and Community.on_packet must call it exactly in the shape the model assumes (outside the try)
    tree = ast.parse((REPO / "ipv8/community.py").read_text())
    fn = _func(tree, "Community", "on_packet")
    calls = [n for n in ast.walk(fn) if isinstance(n, ast.Call) and ast.unparse(n.func).endswith("get_verified_by_address")]
    if len(calls) != 1 or ast.unparse(calls[0].func) != "self.network.get_verified_by_address":
        raise TranslatorError("Community.on_packet: the sender lookup is not a single self.network.get_verified_by_address call")
    return c


def check_listener_classes():
    """every shipped EndpointListener subclass must be one the model has a constructor for"""
    from ipv8.messaging.anonymization.crypto import PythonCryptoEndpoint
    from ipv8.messaging.interfaces.endpoint import EndpointListener
    from ipv8.messaging.interfaces.statistics_endpoint import StatisticsEndpoint
    from ipv8.overlay import Overlay
    import_all()
    unknown = [c.__module__ + "." + c.__name__ for c in _allsubs(EndpointListener)
               if c.__module__.startswith("ipv8.") and not c.__module__.startswith(SKIP_MODULES)
               and not issubclass(c, (Overlay, PythonCryptoEndpoint, StatisticsEndpoint))]
    if unknown:
        raise TranslatorError(f"shipped EndpointListener classes without a model: {unknown}")


def live_constants() -> dict:
    check_listener_classes()
    check_transport_classes()
    from ipv8.messaging.anonymization.payload import NO_CRYPTO_PACKETS, CellPayload
    from ipv8.messaging.interfaces.endpoint import Endpoint

    class _E(Endpoint):
        def assert_open(self): ...
        def is_open(self): return True
        def get_address(self): return ("0.0.0.0", 0)
        def send(self, a, p): ...
        async def open(self): return True
        def close(self): ...
        def reset_byte_counters(self): ...
    return {"prefixlen": _E().prefixlen, "cell_msg_id": int(CellPayload.msg_id),
            "no_crypto": sorted(int(x) for x in NO_CRYPTO_PACKETS)}


# ------------------------------------------------------------------------------------------------ output
def _packer_table(ser):
    packers = []
    for name, p in ser._packers.items():
        d = packer_desc(p, ser)
        if d == ("nestedref",) or (d[0] == "list" and d[2] == ("nestedref",)):
            continue   # "payload" / "payload-list": need a class argument, appear through the payload table
        packers.append((name, d))
    return packers


def tables() -> dict:
    """every part is computed independently; a part outside the subset is recorded in t["errors"] (translate() then
    raises TranslatorError) so that the harness can still use the other parts for its implementation-level search"""
    ser = make_serializer()
    t: dict = {"errors": []}
    parts = {"packers": lambda: _packer_table(ser),
             "payloads": lambda: [(name, class_desc(cls, ser)) for name, cls in payload_classes()],
             "overlays": overlay_table, "ast": ast_constants, "live": live_constants}
    for k, fn in parts.items():
        try:
            t[k] = fn()
        except TranslatorError as e:
            t[k] = None
            t["errors"].append(str(e))
    return t


def _lean_bytes(b: bytes) -> str:
    return "[" + ", ".join(str(x) for x in b) + "]"


def translate(t: dict | None = None) -> str:
    t = t or tables()
    if t.get("errors"):
        raise TranslatorError("; ".join(t["errors"]))
    a, lv = t["ast"], t["live"]
    b = lambda x: "true" if x else "false"   # noqa: E731
    lines = [
        "/- GENERATED by tools/gen_c03.py from the working tree — do not edit. -/",
        "import Ipv8.C03.Types",
        "",
        "namespace Ipv8.C03.Gen",
        "open Ipv8 Ipv8.C03",
        "",
        "/-- Endpoint.prefixlen (live default) -/",
        f"def prefixLen : Nat := {lv['prefixlen']}",
        "/-- Community.on_packet: `self._prefix != data[:pubTake] or len(data) < pubMinLen`, `msg_id = data[pubIdx]`,",
        "    handler call inside `try/except Exception` -/",
        f"def pubTake : Nat := {a['pub']['take']}",
        f"def pubIdx : Nat := {a['pub']['idx']}",
        f"def pubMinLen : Nat := {a['pub']['minlen']}",
        f"def pubCatchAll : Bool := {b(a['pub']['catch'])}",
        "/-- TunnelCommunity.on_packet_from_circuit -/",
        f"def privTake : Nat := {a['priv']['take']}",
        f"def privIdx : Nat := {a['priv']['idx']}",
        f"def privMinLen : Nat := {a['priv']['minlen']}",
        f"def privCatchAll : Bool := {b(a['priv']['catch'])}",
        "/-- PythonCryptoEndpoint.on_packet: msg-id test position, whether it is the slice form (cannot raise),",
        "    whether process_cell is called inside `try/except Exception` -/",
        f"def cryptoIdx : Nat := {a['crypto']['idx']}",
        f"def cryptoIdxSafe : Bool := {b(a['crypto']['safe'])}",
        f"def cryptoCatchAll : Bool := {b(a['crypto']['catch'])}",
        "/-- CellPayload: msg id, header position/size, message start, explicit length guard (0 = none) -/",
        f"def cellMsgId : Nat := {lv['cell_msg_id']}",
        f"def cellHdrOff : Nat := {a['cell']['hdr_off']}",
        f"def cellHdrSize : Nat := {a['cell']['hdr_size']}",
        f"def cellMsgStart : Nat := {a['cell']['msg_start']}",
        f"def cellGuard : Nat := {a['cell']['guard']}",
        f"def noCryptoPackets : List Nat := {lv['no_crypto']}",
        "/-- StatisticsEndpoint.on_packet: `data[:statTake]`, `len(data) < statMinLen`, `data[statIdx]` -/",
        f"def statTake : Nat := {a['stats']['take']}",
        f"def statMinLen : Nat := {a['stats']['minlen']}",
        f"def statIdx : Nat := {a['stats']['idx']}",
        "/-- datagram_received: the `[:n]` applied to the transport's address tuple before `UDPvXAddress(*…)` -/",
        f"def v4AddrSlice : Option Nat := {'none' if a['udp']['v4'] is None else 'some ' + str(a['udp']['v4'])}",
        f"def v6AddrSlice : Option Nat := {'none' if a['udp']['v6'] is None else 'some ' + str(a['udp']['v6'])}",
        "/-- Network.load_snapshot: entry decode inside try/except Exception; `offset <= previous_offset` → break -/",
        f"def snapCatchAll : Bool := {b(a['snap']['catch'])}",
        f"def snapStuckBreak : Bool := {b(a['snap']['stuck'])}",
        "/-- exit sockets: DataChecker guards (minimum length, read offset) and the try/except shape of",
        "    TunnelExitSocket.datagram_received -/",
        f"def utpMinLen : Nat := {a['exit']['utp_min']}",
        f"def utpRead : Nat := {a['exit']['utp_read']}",
        f"def trackerClauses : List (Nat × Nat × Nat) := [{', '.join(f'({k}, {o}, {m})' for k, o, m in a['exit']['tracker'])}]",
        f"def ipv8MinLen : Nat := {a['exit']['ipv8_min']}",
        f"def exitAllowedProtected : Bool := {b(a['exit']['allowed_protected'])}",
        f"def exitTunnelProtected : Bool := {b(a['exit']['tunnel_protected'])}",
        "/-- VarLen / NestedPayload / DefaultArray.unpack compare the end offset they report with len(data) and raise -/",
        f"def varlenChecked : Bool := {b(a['bounds']['varlen'])}",
        f"def nestedChecked : Bool := {b(a['bounds']['nested'])}",
        f"def arrayChecked : Bool := {b(a['bounds']['array'])}",
        "/-- Endpoint: add_listener appends to the live lists in place; remove_listener rebuilds the lists; the dispatch loop",
        "    iterates the list object itself (not a copy) -/",
        f"def addAppendsInPlace : Bool := {b(a['endpoint']['add_in_place'])}",
        f"def rmRebuilds : Bool := {b(a['endpoint']['rm_rebuilds'])}",
        f"def notifyIteratesCopy : Bool := {b(a['endpoint']['notify_copies'])}",
        "/-- BroadcastBootstrapEndpoint.datagram_received: is overlay.walk_to(addr) called inside try/except Exception? -/",
        f"def bcastWalkProtected : Bool := {b(a['bcast']['walk_protected'])}",
        "/-- TunnelExitSocket.datagram_received_ipv4 / _ipv6: the `[:n]` applied to the transport's address tuple -/",
        f"def exitV4AddrSlice : Option Nat := {'none' if a['exit_entry']['v4'] is None else 'some ' + str(a['exit_entry']['v4'])}",
        f"def exitV6AddrSlice : Option Nat := {'none' if a['exit_entry']['v6'] is None else 'some ' + str(a['exit_entry']['v6'])}",
        "/-- Network.get_verified_by_address: every dict access is of the non-raising kind (.get / .pop(k, d) / in) -/",
        f"def lookupDictSafe : Bool := {b(a['lookup']['safe'])}",
        "",
        "/-- the live packer registry (formats that need a class argument appear through `payloads`) -/",
        "def packers : List (String × Fmt) := [",
    ]
    lines += [f"  (\"{n}\", {lean_fmt(d)})," for n, d in t["packers"]]
    lines[-1] = lines[-1].rstrip(",")
    lines += ["]", "", "/-- every concrete Serializable class of the package, plus the harness' synthetic ones (Syn*) -/",
              "def payloads : List (String × FmtList) := ["]
    lines += [f"  (\"{n}\", {lean_fmtlist(d)})," for n, d in t["payloads"]]
    lines[-1] = lines[-1].rstrip(",")
    lines += ["]", "", "/-- shipped overlays: name, prefix, msg ids with a public handler, msg ids with a cell-only handler -/",
              "def overlays : List (String × Bytes × List Nat × List Nat) := ["]
    lines += [f"  (\"{n}\", {_lean_bytes(p)}, {pub}, {priv})," for n, p, pub, priv in t["overlays"]]
    lines[-1] = lines[-1].rstrip(",")
    lines += ["]", "", "end Ipv8.C03.Gen", ""]
    return "\n".join(textwrap.dedent(x) if False else x for x in lines)


if __name__ == "__main__":
    sys.stdout.write(translate())
