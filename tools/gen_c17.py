"""
Translator for C17: ipv8/attestation/identity/community.py  ->  lean/Ipv8/C17/Gen.lean

What is translated:

  * add_known_hash / pad_hash : the length that triggers SHA-1 padding, the order of the stored tuple
  * should_sign               : every guard `if <test>: return False` -> one `Guard` constructor; the tuple indices used
                                by the guards are resolved against the tuple add_known_hash stores (a guard that compares
                                the subject key with the *name* slot is an error, not a different guard); the window
                                constant of the age guard; the dependency order between guards
  * on_request_missing        : whole body, with the default of `permissions.get(peer, <default>)` as a hole
  * request_attestation_advertisement : whole body (permission := len(token_chain) for exactly that peer)
  * SAFE_UDP_PACKET_LENGTH, and that `self.permissions` is written nowhere else
  * whether _received_disclosure_for_attest records the metadata it attests to (`self.attested_metadata.add(...)`)

Every function is NORMALISED before its shape is compared, so that equivalent rewrites translate to the same Lean:
  - docstrings, logging calls and `pass` are dropped;
  - parameters are renamed positionally to the names used here; other locals are alpha-renamed in binding order;
  - a local that is assigned once is inlined into its uses when its value is side-effect free, or when it is used once in
    the directly following statement (so introducing or removing helper variables, tuple unpacking of the stored
    registration, renaming locals do not matter);
  - keyword arguments of calls to methods of this class and to the four identity payload classes become positional;
  - the fixed-metadata comparison may be inline (`json.dumps(..., sort_keys=True) != json.dumps(...)`) or go through the
    helper `_same_metadata`, whose body is checked (canonical JSON texts equal; TypeError/ValueError -> no match);
  - comparisons are oriented (`a != b` / `b != a`, `a > b` / `b < a`, `not x in y`, `not a == b`), `if A or B: return False`
    is split into one guard per disjunct, independent guards may appear in any order that respects their data
    dependencies, `if x is None: <log> else: BODY`, `if x is not None: BODY` and `if x is None: <log>; return` + BODY
    are the same.
Anything outside these shapes raises TranslatorError (treated by the runner like a proof that no longer checks).
"""
from __future__ import annotations

import ast
import copy
import re

from vlib import REPO, TranslatorError

SRC = "ipv8/attestation/identity/community.py"
PAYLOAD_SRC = "ipv8/attestation/identity/payload.py"
KNOWN = "self.known_attestation_hashes"
ATTR_HASH = "pseudonym.tree.elements[metadata.token_pointer].content_hash"
K = f"{KNOWN}[{ATTR_HASH}]"
MINE = "self.my_peer.public_key.key_to_bin()"
TRANSACTION = "json.loads(metadata.serialized_json_dict)"
IMPURE_PREFIXES = ("self.self_advertise", "self.ez_send", "self.pseudonym_manager.", "self.identity_manager.",
                   "pseudonym.create_attestation", "pseudonym.add_attestation", "self._received_disclosure_for_attest",
                   "self.add_known_hash", "self.request_attestation_advertisement")


# ---- normalisation -----------------------------------------------------------------------------------------------
LOG_METHODS = ("debug", "info", "warning", "warn", "error", "exception", "critical", "log")


def _is_log(st) -> bool:
    if not (isinstance(st, ast.Expr) and isinstance(st.value, ast.Call) and isinstance(st.value.func, ast.Attribute)):
        return False
    f = st.value.func
    return f.attr in LOG_METHODS and bool(re.fullmatch(r"(self\.)?_?(logger|log)|logging(\.getLogger\(.*\))?",
                                                       ast.unparse(f.value)))


def _is_doc(st) -> bool:
    return isinstance(st, ast.Expr) and isinstance(st.value, ast.Constant) and isinstance(st.value.value, str)


def _clean(stmts):
    """drop docstrings, logging, pass — recursively"""
    out = []
    for st in stmts:
        if _is_log(st) or _is_doc(st) or isinstance(st, ast.Pass):
            continue
        st = copy.deepcopy(st)
        for field in ("body", "orelse"):
            if hasattr(st, field) and isinstance(getattr(st, field), list):
                setattr(st, field, _clean(getattr(st, field)))
        out.append(st)
    return out


class _Rename(ast.NodeTransformer):
    def __init__(self, mapping):
        self.m = mapping

    def visit_Name(self, node):
        if node.id in self.m:
            return ast.copy_location(ast.Name(id=self.m[node.id], ctx=node.ctx), node)
        return node

    def visit_arg(self, node):
        if node.arg in self.m:
            node.arg = self.m[node.arg]
        return node


class _Subst(ast.NodeTransformer):
    def __init__(self, name, expr):
        self.name, self.expr = name, expr

    def visit_Name(self, node):
        if node.id == self.name and isinstance(node.ctx, ast.Load):
            return copy.deepcopy(self.expr)
        return node


def _stores(stmts):
    """names bound anywhere in the statements, in order of first binding"""
    seen = []
    for st in stmts:
        for n in ast.walk(st):
            if isinstance(n, ast.Name) and isinstance(n.ctx, (ast.Store, ast.Del)) and n.id not in seen:
                seen.append(n.id)
            if isinstance(n, ast.comprehension):
                pass
    return seen


def _n_stores(stmts, name):
    return sum(1 for st in stmts for n in ast.walk(st)
               if isinstance(n, ast.Name) and n.id == name and isinstance(n.ctx, ast.Store)) + \
        sum(1 for st in stmts for n in ast.walk(st) if isinstance(n, ast.AugAssign)
            and isinstance(n.target, ast.Name) and n.target.id == name)


def _n_loads(stmts, name):
    return sum(1 for st in stmts for n in ast.walk(st)
               if isinstance(n, ast.Name) and n.id == name and isinstance(n.ctx, ast.Load))


def _pure(expr) -> bool:
    for n in ast.walk(expr):
        if isinstance(n, ast.Call):
            f = ast.unparse(n.func)
            if f.startswith(IMPURE_PREFIXES):
                return False
        if isinstance(n, (ast.Await, ast.Yield, ast.YieldFrom, ast.NamedExpr)):
            return False
    return True


def _comp_targets(stmts):
    out = set()
    for st in stmts:
        for n in ast.walk(st):
            if isinstance(n, ast.comprehension):
                for m in ast.walk(n.target):
                    if isinstance(m, ast.Name):
                        out.add(m.id)
    return out


def _inline(stmts):
    """inline single-assignment locals (top level of the function body only)"""
    stmts = list(stmts)
    changed = True
    while changed:
        changed = False
        comp = _comp_targets(stmts)
        for i, st in enumerate(stmts):
            if not (isinstance(st, ast.Assign) and len(st.targets) == 1):
                continue
            tgt = st.targets[0]
            rest = stmts[i + 1:]
            pairs = None
            if isinstance(tgt, ast.Name):
                pairs = [(tgt.id, st.value)]
            elif isinstance(tgt, ast.Tuple) and all(isinstance(e, ast.Name) for e in tgt.elts) and _pure(st.value):
                pairs = [(e.id, ast.Subscript(value=copy.deepcopy(st.value), slice=ast.Constant(value=j), ctx=ast.Load()))
                         for j, e in enumerate(tgt.elts)]
            if not pairs:
                continue
            if any(_n_stores(stmts, n) != 1 or n in comp for n, _ in pairs):
                continue
            ok = all(_pure(v) for _, v in pairs)
            if not ok and len(pairs) == 1 and rest and _n_loads(rest, pairs[0][0]) == 1 \
                    and _n_loads(rest[:1], pairs[0][0]) == 1 and not isinstance(rest[0], (ast.For, ast.While)):
                ok = True
            if not ok:
                continue
            new_rest = rest
            for n, v in pairs:
                new_rest = [ast.fix_missing_locations(_Subst(n, v).visit(copy.deepcopy(s))) for s in new_rest]
            stmts = stmts[:i] + new_rest
            changed = True
            break
    return stmts


class _Orient(ast.NodeTransformer):
    """orient comparisons; push `not` into comparisons"""

    def visit_UnaryOp(self, node):
        self.generic_visit(node)
        if isinstance(node.op, ast.Not) and isinstance(node.operand, ast.Compare) and len(node.operand.ops) == 1:
            neg = {ast.Eq: ast.NotEq, ast.NotEq: ast.Eq, ast.In: ast.NotIn, ast.NotIn: ast.In, ast.Is: ast.IsNot,
                   ast.IsNot: ast.Is, ast.Lt: ast.GtE, ast.GtE: ast.Lt, ast.Gt: ast.LtE, ast.LtE: ast.Gt}
            c = node.operand
            return self.visit_Compare(ast.Compare(left=c.left, ops=[neg[type(c.ops[0])]()], comparators=c.comparators))
        return node

    def visit_Compare(self, node):
        self.generic_visit(node)
        if len(node.ops) != 1:
            return node
        op, a, b = node.ops[0], node.left, node.comparators[0]
        if isinstance(op, (ast.Eq, ast.NotEq)) and ast.unparse(a) > ast.unparse(b):
            return ast.Compare(left=b, ops=[op], comparators=[a])
        if isinstance(op, ast.Lt):
            return ast.Compare(left=b, ops=[ast.Gt()], comparators=[a])
        if isinstance(op, ast.LtE):
            return ast.Compare(left=b, ops=[ast.GtE()], comparators=[a])
        return node


class _TimeCall(ast.NodeTransformer):
    """`time.time()` -> `time()`"""

    def visit_Call(self, node):
        self.generic_visit(node)
        if ast.unparse(node.func) == "time.time" and not node.args and not node.keywords:
            return ast.Call(func=ast.Name(id="time", ctx=ast.Load()), args=[], keywords=[])
        return node


class _Positional(ast.NodeTransformer):
    """keyword arguments -> positional, for calls whose parameter list is known"""

    def __init__(self, sigs):
        self.sigs = sigs

    def visit_Call(self, node):
        self.generic_visit(node)
        f = ast.unparse(node.func)
        params = self.sigs.get(f)
        if params and node.keywords and all(k.arg for k in node.keywords):
            args = list(node.args)
            kw = {k.arg: k.value for k in node.keywords}
            for name in params[len(args):]:
                if name in kw:
                    args.append(kw.pop(name))
                else:
                    break
            if not kw:
                return ast.Call(func=node.func, args=args, keywords=[])
        return node


def normalise(fn: ast.FunctionDef, params: list[str], sigs, consts=None) -> list[ast.stmt]:
    got = [a.arg for a in fn.args.args]
    if len(got) != len(params) or fn.args.vararg or fn.args.kwarg or fn.args.kwonlyargs:
        raise TranslatorError(f"{fn.name}: parameter list {got} does not match {params}")
    fn = copy.deepcopy(fn)
    body = _clean(fn.body)
    # two-step renaming so that swapped parameter names cannot collide
    tmp = {a: f"__p{i}" for i, a in enumerate(got)}
    body = [_Rename(tmp).visit(s) for s in body]
    body = [_Rename({f"__p{i}": p for i, p in enumerate(params)}).visit(s) for s in body]
    body = [_TimeCall().visit(_Positional(sigs).visit(s)) for s in body]
    for cname, cval in (consts or {}).items():
        body = [ast.fix_missing_locations(_Subst(cname, ast.Constant(value=cval)).visit(s)) for s in body]
    body = _inline(body)
    locs = [n for n in _stores(body) if n not in params]
    tmp = {n: f"__l{i}" for i, n in enumerate(locs)}
    body = [_Rename(tmp).visit(s) for s in body]
    body = [_Rename({f"__l{i}": f"v{i}" for i in range(len(locs))}).visit(s) for s in body]
    body = [ast.fix_missing_locations(_Orient().visit(s)) for s in body]
    return body


def _text(stmts) -> str:
    return "\n".join(ast.unparse(s) for s in stmts)


def _norm_expr(src: str) -> str:
    return ast.unparse(_Orient().visit(ast.parse(src, mode="eval").body))


def _returns_false(st) -> bool:
    return (isinstance(st, ast.If) and not st.orelse and len(st.body) == 1 and isinstance(st.body[0], ast.Return)
            and isinstance(st.body[0].value, ast.Constant) and st.body[0].value.value is False)


def _disjuncts(test):
    if isinstance(test, ast.BoolOp) and isinstance(test.op, ast.Or):
        out = []
        for v in test.values:
            out += _disjuncts(v)
        return out
    return [test]


# ---- the translation ----------------------------------------------------------------------------------------------
def translate(path=None) -> str:
    p = path or (REPO / SRC)
    tree = ast.parse(p.read_text())
    consts = {}
    cls = None
    for node in tree.body:
        if isinstance(node, ast.Assign) and len(node.targets) == 1 and isinstance(node.targets[0], ast.Name) \
                and isinstance(node.value, ast.Constant):
            consts[node.targets[0].id] = node.value.value
        if isinstance(node, ast.ClassDef) and node.name == "IdentityCommunity":
            cls = node
    if cls is None:
        raise TranslatorError("class IdentityCommunity not found")
    fns = {n.name: n for n in cls.body if isinstance(n, ast.FunctionDef)}
    for need in ("add_known_hash", "pad_hash", "should_sign", "on_request_missing",
                 "request_attestation_advertisement", "_received_disclosure_for_attest", "self_advertise"):
        if need not in fns:
            raise TranslatorError(f"IdentityCommunity.{need} not found")
    limit = consts.get("SAFE_UDP_PACKET_LENGTH")
    if not isinstance(limit, int):
        raise TranslatorError("SAFE_UDP_PACKET_LENGTH is not an integer constant")
    # call signatures used to make keyword arguments positional
    sigs = {"self." + n: [a.arg for a in f.args.args][1:] for n, f in fns.items()}
    ppath = (REPO / PAYLOAD_SRC) if path is None else p.parent / "payload.py"
    if ppath.exists():
        for node in ast.parse(ppath.read_text()).body:
            if isinstance(node, ast.ClassDef):
                for st in node.body:
                    if isinstance(st, ast.Assign) and ast.unparse(st.targets[0]) == "names":
                        try:
                            sigs[node.name] = list(ast.literal_eval(st.value))
                        except Exception:
                            pass

    # ---- add_known_hash ---------------------------------------------------------------------------------------
    b = normalise(fns["add_known_hash"], ["self", "attribute_hash", "name", "public_key", "metadata"], sigs)
    txt = _text(b)
    m = re.fullmatch(r"if len\(attribute_hash\) == (\d+):\n    attribute_hash = self\.pad_hash\(attribute_hash\)\n"
                     r"self\.known_attestation_hashes\[attribute_hash\] = \((.*)\)", txt) or \
        re.fullmatch(r"if (\d+) == len\(attribute_hash\):\n    attribute_hash = self\.pad_hash\(attribute_hash\)\n"
                     r"self\.known_attestation_hashes\[attribute_hash\] = \((.*)\)", txt)
    if not m:
        raise TranslatorError("add_known_hash has an unexpected shape:\n" + txt)
    pad_len = int(m.group(1))
    slots = [x.strip() for x in m.group(2).split(",")]
    want = {"name": "name", "time()": "time", "public_key": "key", "metadata": "md"}
    if sorted(slots) != sorted(want):
        raise TranslatorError(f"add_known_hash stores {slots}, expected a permutation of {list(want)}")
    idx = {want[s]: i for i, s in enumerate(slots)}      # field -> tuple index
    pb = normalise(fns["pad_hash"], ["self", "attribute_hash"], sigs)
    pm = re.fullmatch(r"return (b'.*') \+ attribute_hash", _text(pb))
    if not pm:
        raise TranslatorError("pad_hash has an unexpected shape:\n" + _text(pb))
    pad_prefix = ast.literal_eval(pm.group(1))

    # ---- should_sign ---------------------------------------------------------------------------------------------
    guards, notes = [], []
    fields_seen: list[str] = []
    int_consts = {k: v for k, v in consts.items() if isinstance(v, int) and not isinstance(v, bool)
                  and k != "SAFE_UDP_PACKET_LENGTH"}
    b = normalise(fns["should_sign"], ["self", "pseudonym", "metadata"], sigs, int_consts)

    def slot(i: int, field: str, guard: str):
        if i != idx[field]:
            other = [f for f, j in idx.items() if j == i]
            raise TranslatorError(f"should_sign: the {guard} guard reads tuple slot {i} "
                                  f"({other[0] if other else 'out of range'}), the {field} is stored in slot {idx[field]}")

    def find_slot(c: str, template: str):
        """template contains {i}; returns the matching index or None"""
        for i in range(8):
            if c == _norm_expr(template.format(i=i)):
                return i
        return None

    def deps_ok(text: str, where: str):
        if "pseudonym.tree.elements[" in text and "tokenKnown" not in guards:
            raise TranslatorError(f"should_sign: {where} reads the token before the token-known guard")
        if KNOWN + "[" in text and "registered" not in guards:
            raise TranslatorError(f"should_sign: {where} reads the registration before it is known to exist")
        if TRANSACTION + "['name']" in text and "name" not in fields_seen:
            raise TranslatorError(f"should_sign: {where} reads transaction['name'] before its presence is checked")

    def check_same_metadata(hname="_same_metadata"):
        """`<helper>(a, b)`: equality of the canonical JSON texts, total (anything unserialisable matches nothing)"""
        f = fns.get(hname)
        if f is None:
            raise TranslatorError(f"should_sign calls self.{hname}, which is not defined in the class")
        deco = [ast.unparse(d) for d in f.decorator_list]
        params = [a.arg for a in f.args.args]
        if deco == ["staticmethod"]:
            params = ["self"] + params
        elif deco:
            raise TranslatorError(f"{hname} has unexpected decorators {deco}")
        if len(params) != 3:
            raise TranslatorError(f"{hname} takes {params}")
        fb = copy.deepcopy(f)
        if deco:
            fb.args.args.insert(0, ast.arg(arg="self"))
        txt_ = _text(normalise(fb, ["self", "a", "b"], sigs))
        want_ = ("try:\n    return json.dumps(a, sort_keys=True) == json.dumps(b, sort_keys=True)\n"
                 "except (TypeError, ValueError):\n    return False")
        alt_ = want_.replace("json.dumps(a, sort_keys=True) == json.dumps(b, sort_keys=True)",
                             "json.dumps(b, sort_keys=True) == json.dumps(a, sort_keys=True)")
        if txt_ not in (want_, alt_, want_.replace("(TypeError, ValueError)", "(ValueError, TypeError)")):
            raise TranslatorError(hname + " has an unexpected shape:\n" + txt_)

    def one_guard(c_node):
        c = ast.unparse(c_node)
        if c == _norm_expr("metadata.token_pointer not in pseudonym.tree.elements"):
            guards.append("tokenKnown")
            return
        fm = re.fullmatch(r"'(\w+)' not in set\(" + re.escape(TRANSACTION) + r"\.keys\(\)\)", c) or \
            re.fullmatch(r"'(\w+)' not in " + re.escape(TRANSACTION) + r"(?:\.keys\(\))?", c)
        if fm:
            n = fm.group(1)
            if n not in ("name", "date", "schema"):
                raise TranslatorError(f"should_sign: required field outside name/date/schema: {n}")
            if not fields_seen:
                guards.append("FIELDS")
            fields_seen.append(n)
            return
        deps_ok(c, f"`{c[:80]}`")
        if c == _norm_expr(f"{ATTR_HASH} not in {KNOWN}"):
            guards.append("registered")
            return
        i = find_slot(c, "pseudonym.public_key.key_to_bin() != " + K + "[{i}]")
        if i is not None:
            slot(i, "key", "subject-key")
            guards.append("subjectKey")
            return
        for op, strict in ((">", "false"), (">=", "true")):
            for tmpl in ("time() OP " + K + "[{i}] + {n}", "time() OP {n} + " + K + "[{i}]", "time() - " + K + "[{i}] OP {n}"):
                tmpl = tmpl.replace("OP", op)
                mm = re.fullmatch(re.escape(_norm_expr(tmpl.format(i=7, n=987654321))).replace("7", r"(\d+)", 1)
                                  .replace("987654321", r"(\d+)"), c)
                if mm:
                    g = mm.groups()
                    i, n = (int(g[0]), int(g[1])) if tmpl.index("{i}") < tmpl.index("{n}") else (int(g[1]), int(g[0]))
                    slot(i, "time", "age")
                    guards.append(f".fresh {n} {strict}")
                    return
        for hname in ("_same_json", "_same_metadata"):
            for tmpl in ("not self." + hname + "(" + TRANSACTION + "['name'], " + K + "[{i}])",
                         "not self." + hname + "(" + K + "[{i}], " + TRANSACTION + "['name'])",
                         "json.dumps(" + TRANSACTION + "['name'], sort_keys=True) != json.dumps(" + K + "[{i}], sort_keys=True)"):
                i = find_slot(c, tmpl)
                if i is not None:
                    slot(i, "name", "name")
                    if "self." in tmpl:
                        check_same_metadata(hname)
                    guards.append("nameMatches")
                    return
        i = find_slot(c, TRANSACTION + "['name'] != " + K + "[{i}]")
        if i is not None:
            slot(i, "name", "name")
            raise TranslatorError("should_sign: the name guard compares with Python `!=`, under which True == 1 == 1.0: "
                                  "a credential named 1 passes a registration for the name True")
        if isinstance(c_node, ast.BoolOp) and isinstance(c_node.op, ast.And) and len(c_node.values) == 2:
            a_, b_ = (ast.unparse(v) for v in c_node.values)
            i1 = find_slot(a_, K + "[{i}] is not None")
            comp = "{{k: v for k, v in " + TRANSACTION + ".items() if k not in {lst}}}"
            strict_t = "json.dumps(" + comp + ", sort_keys=True) != json.dumps(" + K + "[{i}], sort_keys=True)"
            helper_t = "not self.HELPER(" + comp + ", " + K + "[{i}])"
            helper_r = "not self.HELPER(" + K + "[{i}], " + comp + ")"
            loose_t = comp + " != " + K + "[{i}]"
            found = None
            cand = re.sub(r"\bv\d+\b", "V", b_)
            variants = [("strict", strict_t), ("loose", loose_t)]
            for hn in ("_same_json", "_same_metadata"):
                variants += [("helper:" + hn, helper_t.replace("HELPER", hn)), ("helper:" + hn, helper_r.replace("HELPER", hn))]
            for kind, tmpl in variants:
                for lst in ("['name', 'date', 'schema']", "('name', 'date', 'schema')", "{'name', 'date', 'schema'}"):
                    for i in range(8):
                        if cand == re.sub(r"\b[kv]\b", "V", _norm_expr(tmpl.format(lst=lst, i=i))):
                            found = (kind, i)
            if i1 is not None and found is not None:
                slot(i1, "md", "fixed-metadata")
                slot(found[1], "md", "fixed-metadata")
                if found[0].startswith("helper:"):
                    check_same_metadata(found[0].split(":")[1])
                if found[0] == "loose":
                    raise TranslatorError("should_sign: the fixed-metadata guard compares with Python `!=`, under which "
                                          "True == 1 == 1.0: metadata {\"a\": true} passes a registration fixing {\"a\": 1}")
                guards.append("fixedMetadata")
                return
        if c == _norm_expr("metadata.get_hash() in self.attested_metadata"):
            guards.append("notAttestedMem")
            return
        anyform = re.sub(r"\bv\d+\b", "V", c)
        if anyform in (re.sub(r"\bv\d+\b", "V", _norm_expr(
                f"any(pseudonym.database.get_authority(V) == {MINE} for V in pseudonym.database.get_attestations_over(metadata))")),):
            guards.append("notAttestedDb")
            return
        raise TranslatorError("should_sign: unrecognised guard `if " + c + ": return False`")

    seen_final = False
    for st in b:
        t = ast.unparse(st)
        if seen_final:
            raise TranslatorError("should_sign: statements after `return True`")
        if t == "return True":
            seen_final = True
            continue
        if isinstance(st, ast.Assign) and len(st.targets) == 1 and isinstance(st.targets[0], ast.Name):
            # a local that could not be inlined (assigned once but impure, or re-assigned): only harmless ones pass
            raise TranslatorError("should_sign: local that cannot be inlined\n" + t)
        if _returns_false(st):
            for d in _disjuncts(st.test):
                one_guard(d)
            continue
        if isinstance(st, ast.For) and not st.orelse and isinstance(st.target, ast.Name) and \
                ast.unparse(st.iter) == "pseudonym.database.get_attestations_over(metadata)":
            v = st.target.id
            fb = st.body
            if len(fb) == 1 and _returns_false(fb[0]):
                c = ast.unparse(fb[0].test)
                if c == _norm_expr(f"pseudonym.database.get_authority({v}) == {MINE}"):
                    guards.append("notAttestedDb")
                    continue
                if re.fullmatch(re.escape(f"any(({MINE} == ") + r"(\w+)" + re.escape(" for ") + r"\1"
                                + re.escape(f" in pseudonym.database.get_authority({v})))"), c) or \
                        re.fullmatch(re.escape("any((") + r"(\w+)" + re.escape(f" == {MINE} for ") + r"\1"
                                     + re.escape(f" in pseudonym.database.get_authority({v})))"), c):
                    # get_authority returns ONE key (bytes); iterating it yields integers, which never equal a key:
                    # this loop can never return False.  Mirrored as: no guard.
                    notes.append("the `any(authority == ... for authority in get_authority(...))` loop iterates the "
                                 "bytes of one key and can never fire: translated to no guard")
                    continue
            raise TranslatorError("should_sign: unrecognised loop\n" + t)
        raise TranslatorError("should_sign: unrecognised statement\n" + t)
    if not seen_final:
        raise TranslatorError("should_sign does not end in `return True`")
    order = [f for f in ("name", "date", "schema") if f in fields_seen] + \
            [f for f in fields_seen if f not in ("name", "date", "schema")]
    guards = [(".fields [" + ", ".join("." + n for n in dict.fromkeys(order)) + "]") if g == "FIELDS" else g
              for g in guards]
    # canonical order of the guard list (the model's evaluation does not depend on it; dependencies were checked above)
    canon = ["tokenKnown", ".fields", "registered", "subjectKey", ".fresh", "nameMatches", "fixedMetadata",
             "notAttestedMem", "notAttestedDb"]
    guards.sort(key=lambda g: next(i for i, c_ in enumerate(canon) if g == c_ or g.startswith(c_)))

    # ---- on_request_missing ----------------------------------------------------------------------------------------
    txt = _text(normalise(fns["on_request_missing"], ["self", "peer", "request"], sigs))
    m = re.fullmatch(
        r"v0 = b''\n"
        r"for v1, v2 in enumerate\(self\.token_chain\[:self\.permissions\.get\(peer, (\d+)\)\]\):\n"
        r"    if v1 >= request\.known:\n"
        r"        if len\(v0\) \+ len\(v2\.get_plaintext_signed\(\)\) > SAFE_UDP_PACKET_LENGTH:\n"
        r"            break\n"
        r"        v0 \+= v2\.get_plaintext_signed\(\)\n"
        r"self\.ez_send\(peer, MissingResponsePayload\(v0\)\)", txt) or re.fullmatch(
        r"v0 = b''\n"
        r"for v1, v2 in enumerate\(self\.token_chain\[:self\.permissions\.get\(peer, (\d+)\)\]\):\n"
        r"    if v1 >= request\.known:\n"
        r"        v3 = v2\.get_plaintext_signed\(\)\n"
        r"        if len\(v0\) \+ len\(v3\) > SAFE_UDP_PACKET_LENGTH:\n"
        r"            break\n"
        r"        v0 \+= v3\n"
        r"self\.ez_send\(peer, MissingResponsePayload\(v0\)\)", txt)
    if not m:
        raise TranslatorError("on_request_missing has an unexpected shape:\n" + txt)
    perm_default = int(m.group(1))

    # ---- request_attestation_advertisement ---------------------------------------------------------------------------
    b = normalise(fns["request_attestation_advertisement"],
                  ["self", "peer", "attribute_hash", "name", "block_type", "metadata"], sigs)
    ok = False
    if len(b) >= 2 and ast.unparse(b[0]) == "v0 = self.self_advertise(attribute_hash, name, block_type, metadata)" \
            and isinstance(b[1], ast.If):
        test = ast.unparse(b[1].test)
        run = None
        if test == "v0 is None":
            if len(b) == 2 and not b[1].body:
                run = b[1].orelse
            elif len(b[1].body) == 1 and ast.unparse(b[1].body[0]) in ("return", "return None") and not b[1].orelse:
                run = b[2:]
        elif test in ("v0 is not None", "v0") and not b[1].orelse and len(b) == 2:
            run = b[1].body
        want_run = ("self.permissions[peer] = len(self.token_chain)\n"
                    "self.ez_send(peer, DisclosePayload(*self._fit_disclosure("
                    "self.pseudonym_manager.disclose_credentials([v0], set()))))")
        if run is not None:
            rt = _text(_inline(list(run)))
            rt = re.sub(r"\bv[1-9]\b", "vX", rt)
            alt = ("self.permissions[peer] = len(self.token_chain)\n"
                   "vX = self.pseudonym_manager.disclose_credentials([v0], set())\n"
                   "self.ez_send(peer, DisclosePayload(*self._fit_disclosure(vX)))")
            ok = rt in (want_run, alt)
    if not ok:
        raise TranslatorError("request_attestation_advertisement has an unexpected shape:\n" + _text(b))
    # the permissions table may be written nowhere else
    writes = []
    for f in fns.values():
        for n in ast.walk(f):
            if isinstance(n, (ast.Assign, ast.AugAssign, ast.Delete, ast.AnnAssign)):
                tg = n.targets if isinstance(n, (ast.Assign, ast.Delete)) else [n.target]
                for t_ in tg:
                    if "self.permissions" in ast.unparse(t_):
                        writes.append((f.name, ast.unparse(n)))
            if isinstance(n, ast.Call) and re.match(r"self\.permissions\.(update|setdefault|pop|clear|popitem|__setitem__)$",
                                                    ast.unparse(n.func)):
                writes.append((f.name, ast.unparse(n)))
    extra = [w for w in writes if w[0] not in ("request_attestation_advertisement", "__init__")]
    extra += [w for w in writes if w[0] == "__init__" and not re.fullmatch(r"self\.permissions(: [^=]+)? = \{\}", w[1])]
    extra += [w for w in writes if w[0] == "request_attestation_advertisement"
              and not re.fullmatch(r"self\.permissions\[\w+\] = len\(self\.token_chain\)", w[1])]
    if extra:
        raise TranslatorError(f"the permissions table is written outside request_attestation_advertisement: {extra}")

    # ---- does the node record what it attests to? ---------------------------------------------------------------------
    records = False
    for n in ast.walk(fns["_received_disclosure_for_attest"]):
        if isinstance(n, ast.If) and re.fullmatch(r"self\.should_sign\(\w+, (\w+)\.metadata\)", ast.unparse(n.test)):
            cred = re.fullmatch(r"self\.should_sign\(\w+, (\w+)\.metadata\)", ast.unparse(n.test)).group(1)
            direct = [ast.unparse(x) for x in _clean(n.body)]
            add = f"self.attested_metadata.add({cred}.metadata.get_hash())"
            sends = [i for i, x in enumerate(direct) if x.startswith("self.ez_send(") and "AttestPayload(" in x]
            if add in direct:
                records = True          # unconditionally, in the same block that sends the AttestPayload
            elif any("attested_metadata" in x for x in direct):
                raise TranslatorError("_received_disclosure_for_attest: attested_metadata is updated, but not by the "
                                      "plain statement `" + add + "` next to the send")
            if not sends:
                raise TranslatorError("_received_disclosure_for_attest: no AttestPayload send under `if self.should_sign`")
    if ("notAttestedMem" in guards) != records:
        notes.append("attested_metadata is %s but %s" % ("recorded" if records else "not recorded",
                                                          "not consulted" if records else "consulted"))

    g = ", ".join(x if x.startswith(".") else "." + x for x in guards)
    out = [
        "/- GENERATED by tools/gen_c17.py from " + SRC + " — do not edit. -/",
        "import Ipv8.C17.Types",
        "",
        "namespace Ipv8.C17.Gen",
        "",
        f"/-- add_known_hash: hashes of this length are SHA-1 padded (prefix {pad_prefix!r}) -/",
        f"def padLen : Nat := {pad_len}",
        "",
        "/-- tuple stored per hash: " + ", ".join(slots) + " -/",
        f"def regSlots : List String := [{', '.join(chr(34) + s + chr(34) for s in slots)}]",
        "",
        "/-- should_sign: its guards (canonical order; data dependencies between guards are checked by the translator)"
        + ("".join("\n    NOTE: " + n for n in notes)) + " -/",
        f"def guards : List Guard := [{g}]",
        "",
        "/-- the age guard rejects `time() >= t + window` (true) or only `time() > t + window` (false) -/",
        "def windowStrict : Bool := " + ("true" if any(x.startswith(".fresh") and x.endswith("true") for x in guards) else "false"),
        "",
        "/-- _received_disclosure_for_attest adds every metadata hash it attests to `attested_metadata` -/",
        f"def recordsOwn : Bool := {'true' if records else 'false'}",
        "",
        "/-- on_request_missing / _fit_disclosure -/",
        f"def handout : Handout := {{ permDefault := {perm_default}, packetLimit := {limit} }}",
        "",
        "end Ipv8.C17.Gen",
        "",
    ]
    return "\n".join(out)


if __name__ == "__main__":
    print(translate())
