"""
Translator for C17: ipv8/attestation/identity/community.py  ->  lean/Ipv8/C17/Gen.lean

What is translated:

  * add_known_hash / pad_hash : the length that triggers SHA-1 padding, the order of the stored tuple
  * should_sign               : every guard `if <test>: return False` -> one `Guard` constructor; the tuple indices used
                                by the guards are resolved against the tuple add_known_hash stores (a guard that compares
                                the subject key with the *name* slot is an error, not a different guard); the window
                                constant of the age guard; the dependency order between guards
  * on_request_missing        : whole body, with the default of `permissions.get(peer, <default>)` as a hole
  * request_attestation_advertisement : whole body (permission := len(token_chain) for exactly that peer)
  * SAFE_UDP_PACKET_LENGTH, and that `self.permissions` is written nowhere else
  * whether _received_disclosure_for_attest records the metadata it attests to (`self.attested_metadata.add(...)`)

Every function is NORMALISED before its shape is compared, so that equivalent rewrites translate to the same Lean:
  - docstrings, logging calls and `pass` are dropped;
  - parameters are renamed positionally to the names used here; other locals are alpha-renamed in binding order;
  - a local that is assigned once is inlined into its uses when its value is side-effect free, or when it is used once in
    the directly following statement (so introducing or removing helper variables, tuple unpacking of the stored
    registration, renaming locals do not matter);
  - keyword arguments of calls to methods of this class and to the four identity payload classes become positional;
  - the fixed-metadata comparison may be inline (`json.dumps(..., sort_keys=True) != json.dumps(...)`) or go through the
    helper `_same_metadata`, whose body is checked (canonical JSON texts equal; TypeError/ValueError -> no match);
  - comparisons are oriented (`a != b` / `b != a`, `a > b` / `b < a`, `not x in y`, `not a == b`), `if A or B: return False`
    is split into one guard per disjunct, independent guards may appear in any order that respects their data
    dependencies, `if x is None: <log> else: BODY`, `if x is not None: BODY` and `if x is None: <log>; return` + BODY
    are the same.
Anything outside these shapes raises TranslatorError (treated by the runner like a proof that no longer checks).
"""
from __future__ import annotations

import ast
import copy
import re

from vlib import REPO, TranslatorError

SRC = "ipv8/attestation/identity/community.py"
PAYLOAD_SRC = "ipv8/attestation/identity/payload.py"
KNOWN = "self.known_attestation_hashes"
ATTR_HASH = "pseudonym.tree.elements[metadata.token_pointer].content_hash"
K = f"{KNOWN}[{ATTR_HASH}]"
MINE = "self.my_peer.public_key.key_to_bin()"
TRANSACTION = "json.loads(metadata.serialized_json_dict)"
IMPURE_PREFIXES = ("self.self_advertise", "self.ez_send", "self.pseudonym_manager.", "self.identity_manager.",
                   "pseudonym.create_attestation", "pseudonym.add_attestation", "self._received_disclosure_for_attest",
                   "self.add_known_hash", "self.request_attestation_advertisement", "self.get_pseudonym",
                   "self.database.", "self.tree.")


# ---- normalisation -----------------------------------------------------------------------------------------------
LOG_METHODS = ("debug", "info", "warning", "warn", "error", "exception", "critical", "log")


def _is_log(st) -> bool:
    if not (isinstance(st, ast.Expr) and isinstance(st.value, ast.Call) and isinstance(st.value.func, ast.Attribute)):
        return False
    f = st.value.func
    return f.attr in LOG_METHODS and bool(re.fullmatch(r"(self\.)?_?(logger|log)|logging(\.getLogger\(.*\))?",
                                                       ast.unparse(f.value)))


def _is_doc(st) -> bool:
    return isinstance(st, ast.Expr) and isinstance(st.value, ast.Constant) and isinstance(st.value.value, str)


def _clean(stmts):
    """drop docstrings, logging, pass — recursively"""
    out = []
    for st in stmts:
        if _is_log(st) or _is_doc(st) or isinstance(st, ast.Pass):
            continue
        st = copy.deepcopy(st)
        for field in ("body", "orelse"):
            if hasattr(st, field) and isinstance(getattr(st, field), list):
                setattr(st, field, _clean(getattr(st, field)))
        if isinstance(st, ast.If) and not st.body and not st.orelse:
            st = ast.Expr(value=st.test)          # `if call(): log else: log`  ==  `call()`
        out.append(st)
    return out


class _Rename(ast.NodeTransformer):
    def __init__(self, mapping):
        self.m = mapping

    def visit_Name(self, node):
        if node.id in self.m:
            return ast.copy_location(ast.Name(id=self.m[node.id], ctx=node.ctx), node)
        return node

    def visit_arg(self, node):
        if node.arg in self.m:
            node.arg = self.m[node.arg]
        return node


class _Subst(ast.NodeTransformer):
    def __init__(self, name, expr):
        self.name, self.expr = name, expr

    def visit_Name(self, node):
        if node.id == self.name and isinstance(node.ctx, ast.Load):
            return copy.deepcopy(self.expr)
        return node


def _stores(stmts):
    """names bound anywhere in the statements, in order of first binding"""
    seen = []
    for st in stmts:
        for n in ast.walk(st):
            if isinstance(n, ast.Name) and isinstance(n.ctx, (ast.Store, ast.Del)) and n.id not in seen:
                seen.append(n.id)
            if isinstance(n, ast.comprehension):
                pass
    return seen


def _n_stores(stmts, name):
    return sum(1 for st in stmts for n in ast.walk(st)
               if isinstance(n, ast.Name) and n.id == name and isinstance(n.ctx, ast.Store)) + \
        sum(1 for st in stmts for n in ast.walk(st) if isinstance(n, ast.AugAssign)
            and isinstance(n.target, ast.Name) and n.target.id == name)


def _n_loads(stmts, name):
    return sum(1 for st in stmts for n in ast.walk(st)
               if isinstance(n, ast.Name) and n.id == name and isinstance(n.ctx, ast.Load))


PURE_CALLS = re.compile(
    r"(len|set|list|dict|tuple|any|all|str|int|bytes|enumerate|sorted|cast|time|json\.loads|json\.dumps|struct\.unpack_from"
    r"|self\.pad_hash|self\._same_json|self\._same_metadata|.*\.database\.get_\w+|.*\.(keys|values|items|get|key_to_bin|get_hash|get_plaintext_signed|get_signature_length|verify|pub))$")


def _pure(expr) -> bool:
    """no call other than a whitelisted read-only one"""
    for n in ast.walk(expr):
        if isinstance(n, ast.Call) and not PURE_CALLS.match(ast.unparse(n.func)):
            return False
        if isinstance(n, (ast.Await, ast.Yield, ast.YieldFrom, ast.NamedExpr)):
            return False
    return True


STABLE_CALLS = re.compile(r"(cast|.*\.(key_to_bin|get_hash|get_plaintext_signed|get_signature_length|pub))$")


def _stable(expr) -> bool:
    """a value that cannot change during the function: getters of immutable objects reached from plain names"""
    for n in ast.walk(expr):
        if isinstance(n, ast.Call) and not STABLE_CALLS.match(ast.unparse(n.func)):
            return False
        if isinstance(n, (ast.Subscript, ast.Await, ast.Yield, ast.YieldFrom, ast.NamedExpr)):
            return False
    return True


def _quiet(st) -> bool:
    """a statement that changes nothing but locals: guards that return/raise, pure assignments to plain names"""
    if isinstance(st, ast.If):
        return _pure(st.test) and all(_quiet(x) for x in st.body + st.orelse)
    if isinstance(st, (ast.Return, ast.Raise)):
        return st.__dict__.get("value") is None or _pure(st.value) if isinstance(st, ast.Return) else True
    if isinstance(st, ast.Assign):
        return all(isinstance(t, (ast.Name, ast.Tuple)) for t in st.targets) and _pure(st.value)
    if isinstance(st, ast.For):
        return _pure(st.iter) and all(_quiet(x) for x in st.body + st.orelse)
    return False


def _comp_targets(stmts):
    out = set()
    for st in stmts:
        for n in ast.walk(st):
            if isinstance(n, ast.comprehension):
                for m in ast.walk(n.target):
                    if isinstance(m, ast.Name):
                        out.add(m.id)
    return out


def _inline(stmts):
    """inline single-assignment locals (top level of the function body only)"""
    stmts = list(stmts)
    changed = True
    while changed:
        changed = False
        comp = _comp_targets(stmts)
        for i, st in enumerate(stmts):
            if not (isinstance(st, ast.Assign) and len(st.targets) == 1):
                continue
            tgt = st.targets[0]
            rest = stmts[i + 1:]
            pairs = None
            if isinstance(tgt, ast.Name):
                pairs = [(tgt.id, st.value)]
            elif isinstance(tgt, ast.Tuple) and all(isinstance(e, ast.Name) for e in tgt.elts) and _pure(st.value):
                pairs = [(e.id, ast.Subscript(value=copy.deepcopy(st.value), slice=ast.Constant(value=j), ctx=ast.Load()))
                         for j, e in enumerate(tgt.elts)]
            if not pairs:
                continue
            if any(_n_stores(stmts, n) != 1 or n in comp for n, _ in pairs):
                continue
            ok = all(_pure(v) for _, v in pairs)
            if ok:
                # the value may only move past statements that change nothing it could read
                uses = [k for k, r_ in enumerate(rest) if any(_n_loads([r_], n) for n, _ in pairs)]
                last = uses[-1] if uses else -1
                ok = all(_quiet(x) for x in rest[:last]) or all(_stable(v) for _, v in pairs)
            if not ok and len(pairs) == 1 and rest and _n_loads(rest, pairs[0][0]) == 1 \
                    and _n_loads(rest[:1], pairs[0][0]) == 1 and not isinstance(rest[0], (ast.For, ast.While)):
                ok = True
            if not ok:
                continue
            new_rest = rest
            for n, v in pairs:
                new_rest = [ast.fix_missing_locations(_Subst(n, v).visit(copy.deepcopy(s))) for s in new_rest]
            stmts = stmts[:i] + new_rest
            changed = True
            break
    return stmts


class _Orient(ast.NodeTransformer):
    """orient comparisons; push `not` into comparisons"""

    def visit_UnaryOp(self, node):
        self.generic_visit(node)
        if isinstance(node.op, ast.Not) and isinstance(node.operand, ast.Compare) and len(node.operand.ops) == 1 \
                and not (isinstance(node.operand.ops[0], (ast.Lt, ast.LtE, ast.Gt, ast.GtE)) and
                         any(isinstance(x, (ast.Set, ast.SetComp)) or ast.unparse(x).startswith(("set(", "frozenset("))
                             for x in [node.operand.left] + node.operand.comparators)):
            neg = {ast.Eq: ast.NotEq, ast.NotEq: ast.Eq, ast.In: ast.NotIn, ast.NotIn: ast.In, ast.Is: ast.IsNot,
                   ast.IsNot: ast.Is, ast.Lt: ast.GtE, ast.GtE: ast.Lt, ast.Gt: ast.LtE, ast.LtE: ast.Gt}
            c = node.operand
            return self.visit_Compare(ast.Compare(left=c.left, ops=[neg[type(c.ops[0])]()], comparators=c.comparators))
        return node

    def visit_Compare(self, node):
        self.generic_visit(node)
        if len(node.ops) != 1:
            return node
        op, a, b = node.ops[0], node.left, node.comparators[0]
        if isinstance(op, (ast.Eq, ast.NotEq)) and ast.unparse(a) > ast.unparse(b):
            return ast.Compare(left=b, ops=[op], comparators=[a])
        if isinstance(op, ast.Lt):
            return ast.Compare(left=b, ops=[ast.Gt()], comparators=[a])
        if isinstance(op, ast.LtE):
            return ast.Compare(left=b, ops=[ast.GtE()], comparators=[a])
        return node


class _TimeCall(ast.NodeTransformer):
    """`time.time()` -> `time()`"""

    def visit_Call(self, node):
        self.generic_visit(node)
        if ast.unparse(node.func) == "time.time" and not node.args and not node.keywords:
            return ast.Call(func=ast.Name(id="time", ctx=ast.Load()), args=[], keywords=[])
        return node


class _Positional(ast.NodeTransformer):
    """keyword arguments -> positional, for calls whose parameter list is known"""

    def __init__(self, sigs):
        self.sigs = sigs

    def visit_Call(self, node):
        self.generic_visit(node)
        f = ast.unparse(node.func)
        params = self.sigs.get(f)
        if params and node.keywords and all(k.arg for k in node.keywords):
            args = list(node.args)
            kw = {k.arg: k.value for k in node.keywords}
            for name in params[len(args):]:
                if name in kw:
                    args.append(kw.pop(name))
                else:
                    break
            if not kw:
                return ast.Call(func=node.func, args=args, keywords=[])
        return node


def _is_plain_return(st) -> bool:
    return isinstance(st, ast.Return) and (st.value is None or (isinstance(st.value, ast.Constant) and st.value.value is None))


def _fold_continue(stmts):
    """inside a loop body: `if C: continue` followed by REST   ==   `if not C: REST`; a trailing `continue` is dropped"""
    stmts = list(stmts)
    for i, st in enumerate(stmts):
        if isinstance(st, ast.If) and not st.orelse and len(st.body) == 1 and isinstance(st.body[0], ast.Continue) \
                and i + 1 < len(stmts):
            neg = st.test.operand if isinstance(st.test, ast.UnaryOp) and isinstance(st.test.op, ast.Not) \
                else ast.UnaryOp(op=ast.Not(), operand=st.test)
            return stmts[:i] + [ast.If(test=neg, body=_fold_continue(stmts[i + 1:]), orelse=[])]
    if stmts and isinstance(stmts[-1], ast.Continue):
        stmts = stmts[:-1]
    return stmts


def _inline_helpers(fn: ast.FunctionDef, fns: dict) -> ast.FunctionDef:
    """`self._helper(a, b)` as a statement, where `_helper` is a private method of the class that is called at exactly
    one place in the class, takes plain names as arguments and never returns a value: replaced by the helper's body"""
    calls = {}
    for f in fns.values():
        for n in ast.walk(f):
            if isinstance(n, ast.Call) and isinstance(n.func, ast.Attribute) and isinstance(n.func.value, ast.Name) \
                    and n.func.value.id == "self" and n.func.attr in fns:
                calls[n.func.attr] = calls.get(n.func.attr, 0) + 1

    def expand(stmts, depth=0):
        out = []
        for st in stmts:
            if isinstance(st, ast.Expr) and isinstance(st.value, ast.Call) and isinstance(st.value.func, ast.Attribute) \
                    and isinstance(st.value.func.value, ast.Name) and st.value.func.value.id == "self":
                name = st.value.func.attr
                h = fns.get(name)
                if h is not None and name.startswith("_") and not name.startswith("__") and calls.get(name) == 1 \
                        and depth < 3 and not h.decorator_list and not st.value.keywords \
                        and all(isinstance(a, ast.Name) for a in st.value.args) \
                        and len(st.value.args) == len(h.args.args) - 1 \
                        and not any(isinstance(n, (ast.Return, ast.Yield, ast.YieldFrom, ast.Await)) and
                                    getattr(n, "value", None) is not None for n in ast.walk(h)) \
                        and not any(isinstance(n, ast.Return) for n in ast.walk(h)):
                    body = [copy.deepcopy(x) for x in _clean(h.body)]
                    ren = {p_.arg: a.id for p_, a in zip(h.args.args[1:], st.value.args) if p_.arg != a.id}
                    bound = set(_stores(body))
                    if not (set(ren.values()) & bound) and not (set(ren) & bound):
                        tmp = {k: f"__h{i}" for i, k in enumerate(ren)}
                        body = [_Rename(tmp).visit(x) for x in body]
                        body = [_Rename({f"__h{i}": v for i, (k, v) in enumerate(ren.items())}).visit(x) for x in body]
                        out += expand(body, depth + 1)
                        continue
            st = copy.deepcopy(st)
            for field in ("body", "orelse"):
                if hasattr(st, field) and isinstance(getattr(st, field), list):
                    setattr(st, field, expand(getattr(st, field), depth))
            out.append(st)
        return out
    new = copy.deepcopy(fn)
    new.body = expand(new.body)
    return new


def _fold_early_returns(stmts, top=True):
    """`if C: A...; return` followed by B...   ==   `if C: A... else: B...`   (statement level, recursively);
    `if not X: A else: B`  ==  `if X: B else: A`; a trailing bare `return` is dropped"""
    out = []
    stmts = list(stmts)
    for i, st in enumerate(stmts):
        if isinstance(st, ast.If):
            st.body = _fold_early_returns(st.body, False)
            st.orelse = _fold_early_returns(st.orelse, False)
            if not st.orelse and st.body and isinstance(st.body[-1], (ast.Return, ast.Raise)) and i + 1 < len(stmts):
                if _is_plain_return(st.body[-1]) and top:
                    st.body = st.body[:-1]
                st.orelse = _fold_early_returns(stmts[i + 1:], top)
                if isinstance(st.test, ast.UnaryOp) and isinstance(st.test.op, ast.Not):
                    st.test, st.body, st.orelse = st.test.operand, st.orelse, st.body
                out.append(st)
                return out
            if isinstance(st.test, ast.UnaryOp) and isinstance(st.test.op, ast.Not) and st.orelse:
                st.test, st.body, st.orelse = st.test.operand, st.orelse, st.body
        elif isinstance(st, (ast.For, ast.While)):
            st.body = _fold_continue(_fold_early_returns(st.body, False))
        out.append(st)
    if top and out and _is_plain_return(out[-1]):
        out = out[:-1]
    return out


def normalise(fn: ast.FunctionDef, params: list[str], sigs, consts=None, fold_returns=False) -> list[ast.stmt]:
    got = [a.arg for a in fn.args.args]
    if len(got) != len(params) or fn.args.vararg or fn.args.kwarg or fn.args.kwonlyargs:
        raise TranslatorError(f"{fn.name}: parameter list {got} does not match {params}")
    fn = copy.deepcopy(fn)
    body = _clean(fn.body)
    if fold_returns:
        body = _clean(_fold_early_returns(body))
    # two-step renaming so that swapped parameter names cannot collide
    tmp = {a: f"__p{i}" for i, a in enumerate(got)}
    body = [_Rename(tmp).visit(s) for s in body]
    body = [_Rename({f"__p{i}": p for i, p in enumerate(params)}).visit(s) for s in body]
    body = [_TimeCall().visit(_Positional(sigs).visit(s)) for s in body]
    for cname, cval in (consts or {}).items():
        body = [ast.fix_missing_locations(_Subst(cname, ast.Constant(value=cval)).visit(s)) for s in body]
    body = _inline(body)
    locs = [n for n in _stores(body) if n not in params]
    tmp = {n: f"__l{i}" for i, n in enumerate(locs)}
    body = [_Rename(tmp).visit(s) for s in body]
    body = [_Rename({f"__l{i}": f"v{i}" for i in range(len(locs))}).visit(s) for s in body]
    body = [ast.fix_missing_locations(_Orient().visit(s)) for s in body]
    return body


def _text(stmts) -> str:
    return "\n".join(ast.unparse(s) for s in stmts)


def _norm_expr(src: str) -> str:
    return ast.unparse(_Orient().visit(ast.parse(src, mode="eval").body))


def _returns_false(st) -> bool:
    return (isinstance(st, ast.If) and not st.orelse and len(st.body) == 1 and isinstance(st.body[0], ast.Return)
            and isinstance(st.body[0].value, ast.Constant) and st.body[0].value.value is False)


def _disjuncts(test):
    if isinstance(test, ast.BoolOp) and isinstance(test.op, ast.Or):
        out = []
        for v in test.values:
            out += _disjuncts(v)
        return out
    return [test]


# ---- the translation ----------------------------------------------------------------------------------------------
def translate(path=None) -> str:
    p = path or (REPO / SRC)
    tree = ast.parse(p.read_text())
    consts = {}
    cls = None
    for node in tree.body:
        if isinstance(node, ast.Assign) and len(node.targets) == 1 and isinstance(node.targets[0], ast.Name) \
                and isinstance(node.value, ast.Constant):
            consts[node.targets[0].id] = node.value.value
        if isinstance(node, ast.ClassDef) and node.name == "IdentityCommunity":
            cls = node
    if cls is None:
        raise TranslatorError("class IdentityCommunity not found")
    fns = {n.name: n for n in cls.body if isinstance(n, ast.FunctionDef)}
    for need in ("add_known_hash", "pad_hash", "should_sign", "on_request_missing",
                 "request_attestation_advertisement", "_received_disclosure_for_attest", "self_advertise"):
        if need not in fns:
            raise TranslatorError(f"IdentityCommunity.{need} not found")
    limit = consts.get("SAFE_UDP_PACKET_LENGTH")
    if not isinstance(limit, int):
        raise TranslatorError("SAFE_UDP_PACKET_LENGTH is not an integer constant")
    # call signatures used to make keyword arguments positional
    sigs = {"self." + n: [a.arg for a in f.args.args][1:] for n, f in fns.items()}
    ppath = (REPO / PAYLOAD_SRC) if path is None else p.parent / "payload.py"
    if ppath.exists():
        for node in ast.parse(ppath.read_text()).body:
            if isinstance(node, ast.ClassDef):
                for st in node.body:
                    if isinstance(st, ast.Assign) and ast.unparse(st.targets[0]) == "names":
                        try:
                            sigs[node.name] = list(ast.literal_eval(st.value))
                        except Exception:
                            pass

    # ---- add_known_hash ---------------------------------------------------------------------------------------
    b = normalise(fns["add_known_hash"], ["self", "attribute_hash", "name", "public_key", "metadata"], sigs)
    txt = _text(b)
    m = re.fullmatch(r"if len\(attribute_hash\) == (\d+):\n    attribute_hash = self\.pad_hash\(attribute_hash\)\n"
                     r"self\.known_attestation_hashes\[attribute_hash\] = \((.*)\)", txt) or \
        re.fullmatch(r"if (\d+) == len\(attribute_hash\):\n    attribute_hash = self\.pad_hash\(attribute_hash\)\n"
                     r"self\.known_attestation_hashes\[attribute_hash\] = \((.*)\)", txt)
    if not m:
        # the `len == N -> pad_hash` step extracted into a helper that returns the normalised hash
        m2 = re.fullmatch(r"attribute_hash = self\.(\w+)\(attribute_hash\)\n"
                          r"self\.known_attestation_hashes\[attribute_hash\] = \((.*)\)", txt) or \
            re.fullmatch(r"self\.known_attestation_hashes\[self\.(\w+)\(attribute_hash\)\] = \((.*)\)", txt)
        h_ = fns.get(m2.group(1)) if m2 else None
        if h_ is not None and not h_.decorator_list and len(h_.args.args) == 2:
            ic = {k: v for k, v in consts.items() if isinstance(v, int) and not isinstance(v, bool)}
            htxt = _text(normalise(h_, ["self", "attribute_hash"], sigs, ic, fold_returns=True))
            mh = re.fullmatch(r"if len\(attribute_hash\) == (\d+):\n    return self\.pad_hash\(attribute_hash\)\n"
                              r"else:\n    return attribute_hash", htxt) or \
                re.fullmatch(r"if (\d+) == len\(attribute_hash\):\n    return self\.pad_hash\(attribute_hash\)\n"
                             r"else:\n    return attribute_hash", htxt)
            if mh:
                class _M:      # same interface as the direct match: group(1) = length, group(2) = stored tuple
                    def __init__(self, a, b): self.g = (a, b)
                    def group(self, i): return self.g[i - 1]
                m = _M(mh.group(1), m2.group(2))
    if not m:
        raise TranslatorError("add_known_hash has an unexpected shape:\n" + txt)
    pad_len = int(m.group(1))
    slots = [x.strip() for x in m.group(2).split(",")]
    want = {"name": "name", "time()": "time", "public_key": "key", "metadata": "md"}
    if sorted(slots) != sorted(want):
        raise TranslatorError(f"add_known_hash stores {slots}, expected a permutation of {list(want)}")
    idx = {want[s]: i for i, s in enumerate(slots)}      # field -> tuple index
    pb = normalise(fns["pad_hash"], ["self", "attribute_hash"], sigs)
    pm = re.fullmatch(r"return (b'.*') \+ attribute_hash", _text(pb))
    if not pm:
        raise TranslatorError("pad_hash has an unexpected shape:\n" + _text(pb))
    pad_prefix = ast.literal_eval(pm.group(1))

    # ---- should_sign ---------------------------------------------------------------------------------------------
    guards, notes = [], []
    fields_seen: list[str] = []
    int_consts = {k: v for k, v in consts.items() if isinstance(v, int) and not isinstance(v, bool)
                  and k != "SAFE_UDP_PACKET_LENGTH"}
    b = normalise(fns["should_sign"], ["self", "pseudonym", "metadata"], sigs, int_consts)

    def slot(i: int, field: str, guard: str):
        if i != idx[field]:
            other = [f for f, j in idx.items() if j == i]
            raise TranslatorError(f"should_sign: the {guard} guard reads tuple slot {i} "
                                  f"({other[0] if other else 'out of range'}), the {field} is stored in slot {idx[field]}")

    def find_slot(c: str, template: str):
        """template contains {i}; returns the matching index or None"""
        for i in range(8):
            if c == _norm_expr(template.format(i=i)):
                return i
        return None

    def deps_ok(text: str, where: str):
        if "pseudonym.tree.elements[" in text and "tokenKnown" not in guards:
            raise TranslatorError(f"should_sign: {where} reads the token before the token-known guard")
        if KNOWN + "[" in text and "registered" not in guards:
            raise TranslatorError(f"should_sign: {where} reads the registration before it is known to exist")
        if TRANSACTION + "['name']" in text and "name" not in fields_seen:
            raise TranslatorError(f"should_sign: {where} reads transaction['name'] before its presence is checked")

    def check_same_metadata(hname="_same_metadata"):
        """`<helper>(a, b)`: equality of the canonical JSON texts, total (anything unserialisable matches nothing)"""
        f = fns.get(hname)
        if f is None:
            raise TranslatorError(f"should_sign calls self.{hname}, which is not defined in the class")
        deco = [ast.unparse(d) for d in f.decorator_list]
        params = [a.arg for a in f.args.args]
        if deco == ["staticmethod"]:
            params = ["self"] + params
        elif deco:
            raise TranslatorError(f"{hname} has unexpected decorators {deco}")
        if len(params) != 3:
            raise TranslatorError(f"{hname} takes {params}")
        fb = copy.deepcopy(f)
        if deco:
            fb.args.args.insert(0, ast.arg(arg="self"))
        txt_ = _text(normalise(fb, ["self", "a", "b"], sigs))
        want_ = ("try:\n    return json.dumps(a, sort_keys=True) == json.dumps(b, sort_keys=True)\n"
                 "except (TypeError, ValueError):\n    return False")
        alt_ = want_.replace("json.dumps(a, sort_keys=True) == json.dumps(b, sort_keys=True)",
                             "json.dumps(b, sort_keys=True) == json.dumps(a, sort_keys=True)")
        if txt_ not in (want_, alt_, want_.replace("(TypeError, ValueError)", "(ValueError, TypeError)")):
            raise TranslatorError(hname + " has an unexpected shape:\n" + txt_)

    def one_guard(c_node):
        c = ast.unparse(c_node)
        if c == _norm_expr("metadata.token_pointer not in pseudonym.tree.elements"):
            guards.append("tokenKnown")
            return
        if isinstance(c_node, ast.UnaryOp) and isinstance(c_node.op, ast.Not) and isinstance(c_node.operand, ast.Compare) \
                and len(c_node.operand.ops) == 1:
            cmp_ = c_node.operand
            lo, hi = (cmp_.left, cmp_.comparators[0]) if isinstance(cmp_.ops[0], ast.LtE) else \
                (cmp_.comparators[0], cmp_.left) if isinstance(cmp_.ops[0], ast.GtE) else (None, None)
            if isinstance(lo, ast.Set) and all(isinstance(e, ast.Constant) and isinstance(e.value, str) for e in lo.elts) \
                    and ast.unparse(hi) in (f"set({TRANSACTION}.keys())", f"{TRANSACTION}.keys()", f"set({TRANSACTION})"):
                # `not {"name", "date", "schema"} <= requested_keys`: some required field is missing
                for e in lo.elts:
                    if e.value not in ("name", "date", "schema"):
                        raise TranslatorError(f"should_sign: required field outside name/date/schema: {e.value}")
                    if not fields_seen:
                        guards.append("FIELDS")
                    fields_seen.append(e.value)
                return
        fm = re.fullmatch(r"'(\w+)' not in set\(" + re.escape(TRANSACTION) + r"\.keys\(\)\)", c) or \
            re.fullmatch(r"'(\w+)' not in " + re.escape(TRANSACTION) + r"(?:\.keys\(\))?", c)
        if fm:
            n = fm.group(1)
            if n not in ("name", "date", "schema"):
                raise TranslatorError(f"should_sign: required field outside name/date/schema: {n}")
            if not fields_seen:
                guards.append("FIELDS")
            fields_seen.append(n)
            return
        deps_ok(c, f"`{c[:80]}`")
        if c == _norm_expr(f"{ATTR_HASH} not in {KNOWN}"):
            guards.append("registered")
            return
        i = find_slot(c, "pseudonym.public_key.key_to_bin() != " + K + "[{i}]")
        if i is not None:
            slot(i, "key", "subject-key")
            guards.append("subjectKey")
            return
        for op, strict in ((">", "false"), (">=", "true")):
            for tmpl in ("time() OP " + K + "[{i}] + {n}", "time() OP {n} + " + K + "[{i}]", "time() - " + K + "[{i}] OP {n}"):
                tmpl = tmpl.replace("OP", op)
                mm = re.fullmatch(re.escape(_norm_expr(tmpl.format(i=7, n=987654321))).replace("7", r"(\d+)", 1)
                                  .replace("987654321", r"(\d+)"), c)
                if mm:
                    g = mm.groups()
                    i, n = (int(g[0]), int(g[1])) if tmpl.index("{i}") < tmpl.index("{n}") else (int(g[1]), int(g[0]))
                    slot(i, "time", "age")
                    guards.append(f".fresh {n} {strict}")
                    return
        for hname in ("_same_json", "_same_metadata"):
            for tmpl in ("not self." + hname + "(" + TRANSACTION + "['name'], " + K + "[{i}])",
                         "not self." + hname + "(" + K + "[{i}], " + TRANSACTION + "['name'])",
                         "json.dumps(" + TRANSACTION + "['name'], sort_keys=True) != json.dumps(" + K + "[{i}], sort_keys=True)"):
                i = find_slot(c, tmpl)
                if i is not None:
                    slot(i, "name", "name")
                    if "self." in tmpl:
                        check_same_metadata(hname)
                    guards.append("nameMatches")
                    return
        i = find_slot(c, TRANSACTION + "['name'] != " + K + "[{i}]")
        if i is not None:
            slot(i, "name", "name")
            raise TranslatorError("should_sign: the name guard compares with Python `!=`, under which True == 1 == 1.0: "
                                  "a credential named 1 passes a registration for the name True")
        if isinstance(c_node, ast.BoolOp) and isinstance(c_node.op, ast.And) and len(c_node.values) == 2:
            a_, b_ = (ast.unparse(v) for v in c_node.values)
            i1 = find_slot(a_, K + "[{i}] is not None")
            comp = "{{k: v for k, v in " + TRANSACTION + ".items() if k not in {lst}}}"
            strict_t = "json.dumps(" + comp + ", sort_keys=True) != json.dumps(" + K + "[{i}], sort_keys=True)"
            helper_t = "not self.HELPER(" + comp + ", " + K + "[{i}])"
            helper_r = "not self.HELPER(" + K + "[{i}], " + comp + ")"
            loose_t = comp + " != " + K + "[{i}]"
            found = None
            cand = re.sub(r"\bv\d+\b", "V", b_)
            variants = [("strict", strict_t), ("loose", loose_t)]
            for hn in ("_same_json", "_same_metadata"):
                variants += [("helper:" + hn, helper_t.replace("HELPER", hn)), ("helper:" + hn, helper_r.replace("HELPER", hn))]
            for kind, tmpl in variants:
                for lst in ("['name', 'date', 'schema']", "('name', 'date', 'schema')", "{'name', 'date', 'schema'}"):
                    for i in range(8):
                        if cand == re.sub(r"\b[kv]\b", "V", _norm_expr(tmpl.format(lst=lst, i=i))):
                            found = (kind, i)
            if i1 is not None and found is not None:
                slot(i1, "md", "fixed-metadata")
                slot(found[1], "md", "fixed-metadata")
                if found[0].startswith("helper:"):
                    check_same_metadata(found[0].split(":")[1])
                if found[0] == "loose":
                    raise TranslatorError("should_sign: the fixed-metadata guard compares with Python `!=`, under which "
                                          "True == 1 == 1.0: metadata {\"a\": true} passes a registration fixing {\"a\": 1}")
                guards.append("fixedMetadata")
                return
        if c == _norm_expr("metadata.get_hash() in self.attested_metadata"):
            guards.append("notAttestedMem")
            return
        anyform = re.sub(r"\bv\d+\b", "V", c)
        if anyform in (re.sub(r"\bv\d+\b", "V", _norm_expr(
                f"any(pseudonym.database.get_authority(V) == {MINE} for V in pseudonym.database.get_attestations_over(metadata))")),):
            guards.append("notAttestedDb")
            return
        raise TranslatorError("should_sign: unrecognised guard `if " + c + ": return False`")

    seen_final = False
    for st in b:
        t = ast.unparse(st)
        if seen_final:
            raise TranslatorError("should_sign: statements after `return True`")
        if t == "return True":
            seen_final = True
            continue
        if isinstance(st, ast.Assign) and len(st.targets) == 1 and isinstance(st.targets[0], ast.Name):
            # a local that could not be inlined (assigned once but impure, or re-assigned): only harmless ones pass
            raise TranslatorError("should_sign: local that cannot be inlined\n" + t)
        if _returns_false(st):
            for d in _disjuncts(st.test):
                one_guard(d)
            continue
        if isinstance(st, ast.For) and not st.orelse and isinstance(st.target, ast.Name) and \
                ast.unparse(st.iter) == "pseudonym.database.get_attestations_over(metadata)":
            v = st.target.id
            fb = st.body
            if len(fb) == 1 and _returns_false(fb[0]):
                c = ast.unparse(fb[0].test)
                if c == _norm_expr(f"pseudonym.database.get_authority({v}) == {MINE}"):
                    guards.append("notAttestedDb")
                    continue
                if re.fullmatch(re.escape(f"any(({MINE} == ") + r"(\w+)" + re.escape(" for ") + r"\1"
                                + re.escape(f" in pseudonym.database.get_authority({v})))"), c) or \
                        re.fullmatch(re.escape("any((") + r"(\w+)" + re.escape(f" == {MINE} for ") + r"\1"
                                     + re.escape(f" in pseudonym.database.get_authority({v})))"), c):
                    # get_authority returns ONE key (bytes); iterating it yields integers, which never equal a key:
                    # this loop can never return False.  Mirrored as: no guard.
                    notes.append("the `any(authority == ... for authority in get_authority(...))` loop iterates the "
                                 "bytes of one key and can never fire: translated to no guard")
                    continue
            raise TranslatorError("should_sign: unrecognised loop\n" + t)
        raise TranslatorError("should_sign: unrecognised statement\n" + t)
    if not seen_final:
        raise TranslatorError("should_sign does not end in `return True`")
    order = [f for f in ("name", "date", "schema") if f in fields_seen] + \
            [f for f in fields_seen if f not in ("name", "date", "schema")]
    guards = [(".fields [" + ", ".join("." + n for n in dict.fromkeys(order)) + "]") if g == "FIELDS" else g
              for g in guards]
    # canonical order of the guard list (the model's evaluation does not depend on it; dependencies were checked above)
    canon = ["tokenKnown", ".fields", "registered", "subjectKey", ".fresh", "nameMatches", "fixedMetadata",
             "notAttestedMem", "notAttestedDb"]
    guards.sort(key=lambda g: next(i for i, c_ in enumerate(canon) if g == c_ or g.startswith(c_)))

    # ---- on_request_missing ----------------------------------------------------------------------------------------
    txt = _text(normalise(fns["on_request_missing"], ["self", "peer", "request"], sigs, fold_returns=True))
    m = re.fullmatch(
        r"v0 = b''\n"
        r"for v1, v2 in enumerate\(self\.token_chain\[:self\.permissions\.get\(peer, (\d+)\)\]\):\n"
        r"    if v1 >= request\.known:\n"
        r"        if len\(v0\) \+ len\(v2\.get_plaintext_signed\(\)\) > SAFE_UDP_PACKET_LENGTH:\n"
        r"            break\n"
        r"        v0 \+= v2\.get_plaintext_signed\(\)\n"
        r"self\.ez_send\(peer, MissingResponsePayload\(v0\)\)", txt) or re.fullmatch(
        r"v0 = b''\n"
        r"for v1, v2 in enumerate\(self\.token_chain\[:self\.permissions\.get\(peer, (\d+)\)\]\):\n"
        r"    if v1 >= request\.known:\n"
        r"        v3 = v2\.get_plaintext_signed\(\)\n"
        r"        if len\(v0\) \+ len\(v3\) > SAFE_UDP_PACKET_LENGTH:\n"
        r"            break\n"
        r"        v0 \+= v3\n"
        r"self\.ez_send\(peer, MissingResponsePayload\(v0\)\)", txt)
    if not m:
        raise TranslatorError("on_request_missing has an unexpected shape:\n" + txt)
    perm_default = int(m.group(1))

    # ---- request_attestation_advertisement ---------------------------------------------------------------------------
    b = normalise(fns["request_attestation_advertisement"],
                  ["self", "peer", "attribute_hash", "name", "block_type", "metadata"], sigs)
    ok = False
    if len(b) >= 2 and ast.unparse(b[0]) == "v0 = self.self_advertise(attribute_hash, name, block_type, metadata)" \
            and isinstance(b[1], ast.If):
        test = ast.unparse(b[1].test)
        run = None
        if test == "v0 is None":
            if len(b) == 2 and not b[1].body:
                run = b[1].orelse
            elif len(b[1].body) == 1 and ast.unparse(b[1].body[0]) in ("return", "return None") and not b[1].orelse:
                run = b[2:]
        elif test in ("v0 is not None", "v0") and not b[1].orelse and len(b) == 2:
            run = b[1].body
        want_run = ("self.permissions[peer] = len(self.token_chain)\n"
                    "self.ez_send(peer, DisclosePayload(*self._fit_disclosure("
                    "self.pseudonym_manager.disclose_credentials([v0], set()))))")
        if run is not None:
            rt = _text(_inline(list(run)))
            rt = re.sub(r"\bv[1-9]\b", "vX", rt)
            alt = ("self.permissions[peer] = len(self.token_chain)\n"
                   "vX = self.pseudonym_manager.disclose_credentials([v0], set())\n"
                   "self.ez_send(peer, DisclosePayload(*self._fit_disclosure(vX)))")
            ok = rt in (want_run, alt)
    if not ok:
        raise TranslatorError("request_attestation_advertisement has an unexpected shape:\n" + _text(b))
    # the permissions table may be written nowhere else
    writes = []
    for f in fns.values():
        for n in ast.walk(f):
            if isinstance(n, (ast.Assign, ast.AugAssign, ast.Delete, ast.AnnAssign)):
                tg = n.targets if isinstance(n, (ast.Assign, ast.Delete)) else [n.target]
                for t_ in tg:
                    if "self.permissions" in ast.unparse(t_):
                        writes.append((f.name, ast.unparse(n)))
            if isinstance(n, ast.Call) and re.match(r"self\.permissions\.(update|setdefault|pop|clear|popitem|__setitem__)$",
                                                    ast.unparse(n.func)):
                writes.append((f.name, ast.unparse(n)))
    extra = [w for w in writes if w[0] not in ("request_attestation_advertisement", "__init__")]
    extra += [w for w in writes if w[0] == "__init__" and not re.fullmatch(r"self\.permissions(: [^=]+)? = \{\}", w[1])]
    extra += [w for w in writes if w[0] == "request_attestation_advertisement"
              and not re.fullmatch(r"self\.permissions\[\w+\] = len\(self\.token_chain\)", w[1])]
    if extra:
        raise TranslatorError(f"the permissions table is written outside request_attestation_advertisement: {extra}")

    # ---- hand-modelled handlers: their normalised bodies are pinned, a few boolean facts are generated ----------------
    def pinned(fn, params, accepted, where, sg=None):
        txt_ = _text(normalise(fn, params, sigs if sg is None else sg, fold_returns=True))
        for label, want_ in accepted.items():
            if txt_ == want_:
                return label
        raise TranslatorError(f"{where} has an unexpected shape:\n" + txt_)

    RD = ("if any((peer.public_key.key_to_bin() == v6[2] for v6 in self.known_attestation_hashes.values())):\n"
          "    v3, v4 = self.identity_manager.substantiate(peer.public_key, *disclosure)\n"
          "    v0 = [v2 for v2 in self.known_attestation_hashes if peer.public_key.key_to_bin() == self.known_attestation_hashes[v2][2]]\n"
          "    v1 = [v7.content_hash for v7 in v4.tree.elements.values()]\n"
          "    if COND:\n"
          "        for v5 in v4.get_credentials():\n"
          "            if self.should_sign(v4, v5.metadata):\n"
          "                v8 = v4.create_attestation(v5.metadata, cast('PrivateKey', self.my_peer.key))\n"
          "                v4.add_attestation(self.my_peer.public_key, v8)\n"
          "RECORD"
          "                self.ez_send(peer, AttestPayload(v8.get_plaintext_signed()))\n"
          "    for v2 in v0:\n"
          "        if v2 not in v1:\n"
          "            self.ez_send(peer, RequestMissingPayload(len(v4.tree.elements)))")
    rec_line = "                self.attested_metadata.add(v5.metadata.get_hash())\n"
    key_slot = idx["key"]
    RD = RD.replace("v6[2]", f"v6[{key_slot}]").replace("[v2][2]", f"[v2][{key_slot}]")
    rd_variants = {}
    for cl, cond in (("correct", "v3 and any((v2 in v1 for v2 in v0))"), ("nocorrect", "any((v2 in v1 for v2 in v0))")):
        for rl, rec in (("rec", rec_line), ("norec", "")):
            rd_variants[cl + ":" + rl] = RD.replace("COND", cond).replace("RECORD", rec)
    rd_fn = _inline_helpers(fns["_received_disclosure_for_attest"], fns)
    rd = pinned(rd_fn, ["self", "peer", "disclosure"], rd_variants,
                "_received_disclosure_for_attest")
    sign_needs_correct = rd.startswith("correct")
    pinned(fns["on_attest"], ["self", "peer", "payload"],
           {"ok": "self.pseudonym_manager.add_attestation(peer.public_key, "
                  "Attestation.unserialize(payload.attestation, peer.public_key))"}, "on_attest")
    pinned(fns["on_disclosure"], ["self", "peer", "disclosure"],
           {"ok": "self._received_disclosure_for_attest(peer, (disclosure.metadata, disclosure.tokens, "
                  "disclosure.attestations, disclosure.authorities))"}, "on_disclosure")
    pinned(fns["on_missing_response"], ["self", "peer", "response"],
           {"ok": "self._received_disclosure_for_attest(peer, (b'', response.tokens, b'', b''))"}, "on_missing_response")
    for hname, msg_cls in (("on_attest", "AttestPayload"), ("on_disclosure", "DisclosePayload"),
                           ("on_missing_response", "MissingResponsePayload"), ("on_request_missing", "RequestMissingPayload")):
        deco = [ast.unparse(d) for d in fns[hname].decorator_list]
        if deco != [f"lazy_wrapper({msg_cls})"]:
            raise TranslatorError(f"{hname} is decorated {deco}, expected the authenticated lazy_wrapper({msg_cls})")

    # manager.py: add_attestation / add_metadata / substantiate / store_new_tokens
    mpath = (REPO / "ipv8/attestation/identity/manager.py") if path is None else p.parent / "manager.py"
    add_att_verifies = add_md_verifies = True
    if mpath.exists():
        mfns = {}
        for node in ast.parse(mpath.read_text()).body:
            if isinstance(node, ast.ClassDef):
                for st in node.body:
                    if isinstance(st, ast.FunctionDef):
                        mfns[(node.name, st.name)] = st
        def mp(cls_, name_):
            if (cls_, name_) not in mfns:
                raise TranslatorError(f"manager.py: {cls_}.{name_} not found")
            f_ = mfns[(cls_, name_)]
            return f_, [a.arg for a in f_.args.args]
        f_, pr = mp("PseudonymManager", "add_attestation")
        lab = pinned(f_, pr, {
            "verifies": "if attestation.verify(public_key):\n    self.database.insert_attestation(self.public_key, public_key, attestation)\n    return True\nelse:\n    return False",
            "unverified": "self.database.insert_attestation(self.public_key, public_key, attestation)\nreturn True"},
            "PseudonymManager.add_attestation", sg={})
        add_att_verifies = lab == "verifies"
        f_, pr = mp("PseudonymManager", "add_metadata")
        lab = pinned(f_, pr, {
            "verifies": "if metadata.verify(self.public_key):\n    self.database.insert_metadata(self.public_key, metadata)\n    return True\nelse:\n    return False",
            "unverified": "self.database.insert_metadata(self.public_key, metadata)\nreturn True"},
            "PseudonymManager.add_metadata", sg={})
        add_md_verifies = lab == "verifies"
        f_, pr = mp("PseudonymManager", "store_new_tokens")
        pinned(f_, pr, {"ok": "for v0, v1 in list(self.tree.elements.items()):\n    if v0 not in known_tokens:\n"
                              "        self.database.insert_token(self.public_key, v1)"},
               "PseudonymManager.store_new_tokens", sg={})
        f_, pr = mp("IdentityManager", "substantiate")
        stxt = _text(normalise(f_, pr, {}, fold_returns=True))
        msplit = re.fullmatch(
            r"v0 = self\.get_pseudonym\(public_key\)\n"
            r"v1 = set\(v0\.tree\.elements\)\n"
            r"v2 = v0\.tree\.unserialize_public\(serialized_tokens\)\n"
            r"v0\.store_new_tokens\(v1\)\n"
            r"self\.(\w+)\(v0, public_key, serialized_metadata\)\n"
            r"v2 &= self\.(\w+)\(v0, serialized_attestations, serialized_authorities\)\n"
            r"return \(v2, v0\)", stxt)
        if msplit:
            # the two loading loops extracted into helpers: the same loops, the second one folding into its own flag that
            # the caller `&=`s into `correct` - both helper bodies are pinned as well
            def hp(name_, params_, want_):
                hf = mfns.get(("IdentityManager", name_))
                if hf is None:
                    raise TranslatorError(f"manager.py: IdentityManager.{name_} not found")
                deco_ = [ast.unparse(d) for d in hf.decorator_list]
                got_ = [a.arg for a in hf.args.args]
                if deco_ == ["staticmethod"]:
                    hf = copy.deepcopy(hf)
                    hf.args.args.insert(0, ast.arg(arg="self"))
                    hf.decorator_list = []
                    got_ = ["self"] + got_
                elif deco_:
                    raise TranslatorError(f"IdentityManager.{name_} is decorated {deco_}")
                if len(got_) != len(params_):
                    raise TranslatorError(f"IdentityManager.{name_} takes {got_}")
                t_ = _text(normalise(hf, params_, {}, fold_returns=True))
                if t_ != want_:
                    raise TranslatorError(f"IdentityManager.{name_} has an unexpected shape:\n" + t_)
            hp(msplit.group(1), ["self", "pseudonym", "public_key", "serialized_metadata"],
               "v0 = 0\n"
               "while len(serialized_metadata) > v0:\n"
               "    v2, = struct.unpack_from('>I', serialized_metadata, v0)\n"
               "    v1 = Metadata.unserialize(serialized_metadata[v0 + 4:v0 + 4 + v2], public_key)\n"
               "    pseudonym.add_metadata(v1)\n"
               "    v0 += 4 + v2")
            hp(msplit.group(2), ["self", "pseudonym", "serialized_attestations", "serialized_authorities"],
               "v0 = True\n"
               "v1 = 0\n"
               "v2 = 0\n"
               "while len(serialized_authorities) > v2:\n"
               "    v4, = struct.unpack_from('>H', serialized_authorities, v2)\n"
               "    v3 = self.crypto.key_from_public_bin(serialized_authorities[v2 + 2:v2 + 2 + v4])\n"
               "    v2 += 2 + v4\n"
               "    v0 &= pseudonym.add_attestation(v3, Attestation.unserialize(serialized_attestations, v3, v1))\n"
               "    v1 += 32 + v3.get_signature_length()\n"
               "return v0")
        else:
          pinned(f_, pr, {"ok":
            "v0 = self.get_pseudonym(public_key)\n"
            "v1 = set(v0.tree.elements)\n"
            "v2 = v0.tree.unserialize_public(serialized_tokens)\n"
            "v0.store_new_tokens(v1)\n"
            "v3 = 0\n"
            "while len(serialized_metadata) > v3:\n"
            "    v5, = struct.unpack_from('>I', serialized_metadata, v3)\n"
            "    v4 = Metadata.unserialize(serialized_metadata[v3 + 4:v3 + 4 + v5], public_key)\n"
            "    v0.add_metadata(v4)\n"
            "    v3 += 4 + v5\n"
            "v6 = 0\n"
            "v7 = 0\n"
            "while len(serialized_authorities) > v7:\n"
            "    v9, = struct.unpack_from('>H', serialized_authorities, v7)\n"
            "    v8 = self.crypto.key_from_public_bin(serialized_authorities[v7 + 2:v7 + 2 + v9])\n"
            "    v7 += 2 + v9\n"
            "    v2 &= v0.add_attestation(v8, Attestation.unserialize(serialized_attestations, v8, v6))\n"
            "    v6 += 32 + v8.get_signature_length()\n"
            "return (v2, v0)"}, "IdentityManager.substantiate", sg={})

    # tokentree/tree.py (another property's file, pinned only structurally): a token is parked or appended only after
    # its signature verified, and woken tokens go through gather_token again
    tpath = (REPO / "ipv8/attestation/tokentree/tree.py") if path is None else p.parent / "tree.py"
    if tpath.exists():
        tfns = {}
        for node in ast.parse(tpath.read_text()).body:
            if isinstance(node, ast.ClassDef) and node.name == "TokenTree":
                tfns = {st.name: st for st in node.body if isinstance(st, ast.FunctionDef)}
        g = tfns.get("gather_token")
        if g is None or "_append_chain_reaction_token" not in tfns:
            raise TranslatorError("tree.py: TokenTree.gather_token / _append_chain_reaction_token not found")
        tok = g.args.args[1].arg

        def guarded(stmts, under):
            """every park (`self.unchained[...] = ...`) and every append call lies under `if <tok>.verify(self.public_key)`"""
            for st in stmts:
                here = under
                if isinstance(st, ast.If):
                    t_ = ast.unparse(st.test)
                    pos = t_ == f"{tok}.verify(self.public_key)"
                    neg = t_ == f"not {tok}.verify(self.public_key)"
                    if not guarded(st.body, under or pos):
                        return False
                    if not guarded(st.orelse, under or neg):
                        return False
                    if neg and st.body and isinstance(st.body[-1], ast.Return):
                        under = True            # early return on a bad signature: everything after it is guarded
                    continue
                for n in ast.walk(st):
                    if isinstance(n, (ast.Assign, ast.AugAssign)):
                        tg = n.targets if isinstance(n, ast.Assign) else [n.target]
                        if any(ast.unparse(x).startswith(("self.unchained[", "self.elements[")) for x in tg) and not here:
                            return False
                    if isinstance(n, ast.Call) and ast.unparse(n.func) in ("self._append_chain_reaction_token", "self._append") \
                            and not here:
                        return False
                if isinstance(st, (ast.For, ast.While, ast.With, ast.Try)):
                    for field in ("body", "orelse", "finalbody"):
                        if not guarded(getattr(st, field, []) or [], here):
                            return False
            return True
        if not guarded(g.body, False):
            raise TranslatorError("tree.py: gather_token parks or appends a token before `token.verify(self.public_key)`")
        u = tfns.get("unserialize_public")
        if u is None:
            raise TranslatorError("tree.py: TokenTree.unserialize_public not found")
        utxt = _text(normalise(u, [a.arg for a in u.args.args], {}, fold_returns=True))
        if utxt != ("v0 = True\n"
                    "for v1 in range(0, len(s), 64 + self.public_key.get_signature_length()):\n"
                    "    v0 &= self.gather_token(Token.unserialize(s, self.public_key, offset=v1)) is not None\n"
                    "return v0"):
            raise TranslatorError("tree.py: unserialize_public does not pass every serialized token to gather_token "
                                  "and fold the results:\n" + utxt)
        woken = [ast.unparse(n) for n in ast.walk(tfns["_append_chain_reaction_token"]) if isinstance(n, ast.Call)]
        if not any(w_.startswith("self.gather_token(") for w_ in woken) or \
                sum(1 for w_ in woken if w_.startswith(("self._append_chain_reaction_token(",))) > 0:
            raise TranslatorError("tree.py: _append_chain_reaction_token does not pass woken tokens through gather_token")

    # ---- does the node record what it attests to? ---------------------------------------------------------------------
    records = False
    for n in ast.walk(_inline_helpers(fns["_received_disclosure_for_attest"], fns)):
        if isinstance(n, ast.If) and re.fullmatch(r"self\.should_sign\(\w+, (\w+)\.metadata\)", ast.unparse(n.test)):
            cred = re.fullmatch(r"self\.should_sign\(\w+, (\w+)\.metadata\)", ast.unparse(n.test)).group(1)
            direct = [ast.unparse(x) for x in _clean(n.body)]
            add = f"self.attested_metadata.add({cred}.metadata.get_hash())"
            sends = [i for i, x in enumerate(direct) if x.startswith("self.ez_send(") and "AttestPayload(" in x]
            if add in direct:
                records = True          # unconditionally, in the same block that sends the AttestPayload
            elif any("attested_metadata" in x for x in direct):
                raise TranslatorError("_received_disclosure_for_attest: attested_metadata is updated, but not by the "
                                      "plain statement `" + add + "` next to the send")
            if not sends:
                raise TranslatorError("_received_disclosure_for_attest: no AttestPayload send under `if self.should_sign`")
    if ("notAttestedMem" in guards) != records:
        notes.append("attested_metadata is %s but %s" % ("recorded" if records else "not recorded",
                                                          "not consulted" if records else "consulted"))

    g = ", ".join(x if x.startswith(".") else "." + x for x in guards)
    out = [
        "/- GENERATED by tools/gen_c17.py from " + SRC + " — do not edit. -/",
        "import Ipv8.C17.Types",
        "",
        "namespace Ipv8.C17.Gen",
        "",
        f"/-- add_known_hash: hashes of this length are SHA-1 padded (prefix {pad_prefix!r}) -/",
        f"def padLen : Nat := {pad_len}",
        "",
        "/-- tuple stored per hash: " + ", ".join(slots) + " -/",
        f"def regSlots : List String := [{', '.join(chr(34) + s + chr(34) for s in slots)}]",
        "",
        "/-- should_sign: its guards (canonical order; data dependencies between guards are checked by the translator)"
        + ("".join("\n    NOTE: " + n for n in notes)) + " -/",
        f"def guards : List Guard := [{g}]",
        "",
        "/-- the age guard rejects `time() >= t + window` (true) or only `time() > t + window` (false) -/",
        "def windowStrict : Bool := " + ("true" if any(x.startswith(".fresh") and x.endswith("true") for x in guards) else "false"),
        "",
        "/-- _received_disclosure_for_attest adds every metadata hash it attests to `attested_metadata` -/",
        f"def recordsOwn : Bool := {'true' if records else 'false'}",
        "",
        "/-- _received_disclosure_for_attest signs only `if correct and any(...)`; PseudonymManager.add_attestation /",
        "    add_metadata store only what verifies (bodies of these functions, of substantiate, store_new_tokens, on_attest,",
        "    on_disclosure, on_missing_response are pinned by the translator) -/",
        f"def signNeedsCorrect : Bool := {'true' if sign_needs_correct else 'false'}",
        f"def addAttestationVerifies : Bool := {'true' if add_att_verifies else 'false'}",
        f"def addMetadataVerifies : Bool := {'true' if add_md_verifies else 'false'}",
        "",
        "/-- on_request_missing / _fit_disclosure -/",
        f"def handout : Handout := {{ permDefault := {perm_default}, packetLimit := {limit} }}",
        "",
        "end Ipv8.C17.Gen",
        "",
    ]
    return "\n".join(out)


if __name__ == "__main__":
    print(translate())
