"""
Translator for C17: ipv8/attestation/identity/community.py  ->  lean/Ipv8/C17/Gen.lean

What is translated (fixed statement shapes, compared on the normalised source text `ast.unparse` gives; logging calls
and docstrings are ignored; anything else raises TranslatorError):

  * add_known_hash / pad_hash : the length that triggers SHA-1 padding, the order of the stored tuple
  * should_sign               : every `if <test>: return False` guard -> one `Guard` constructor; the tuple indices used
                                by the guards are resolved against the tuple add_known_hash stores (a guard that compares
                                the subject key with the *name* slot is an error, not a different guard); the window
                                constant of the age guard; the order constraints between guards
  * on_request_missing        : whole body, with the default of `permissions.get(peer, <default>)` as a hole
  * request_attestation_advertisement : whole body (permission := len(token_chain) for exactly that peer)
  * SAFE_UDP_PACKET_LENGTH
  * whether _received_disclosure_for_attest records the metadata it attests to (`self.attested_metadata.add(...)`)
"""
from __future__ import annotations

import ast
import re

from vlib import REPO, TranslatorError

SRC = "ipv8/attestation/identity/community.py"
K = "self.known_attestation_hashes[attribute_hash]"


def _is_log(st) -> bool:
    return (isinstance(st, ast.Expr) and isinstance(st.value, ast.Call)
            and ast.unparse(st.value.func).startswith("self.logger."))


def _body(fn):
    body = list(fn.body)
    if body and isinstance(body[0], ast.Expr) and isinstance(body[0].value, ast.Constant) and isinstance(body[0].value.value, str):
        body = body[1:]
    return [s for s in body if not _is_log(s)]


def _strip(stmts):
    return [s for s in stmts if not _is_log(s)]


def _returns_false(st: ast.If) -> bool:
    b = _strip(st.body)
    return (not st.orelse and len(b) == 1 and isinstance(b[0], ast.Return)
            and isinstance(b[0].value, ast.Constant) and b[0].value.value is False)


def _text(stmts) -> str:
    return "\n".join(ast.unparse(s) for s in stmts)


def translate(path=None) -> str:
    p = path or (REPO / SRC)
    tree = ast.parse(p.read_text())
    consts = {}
    cls = None
    for node in tree.body:
        if isinstance(node, ast.Assign) and len(node.targets) == 1 and isinstance(node.targets[0], ast.Name) \
                and isinstance(node.value, ast.Constant):
            consts[node.targets[0].id] = node.value.value
        if isinstance(node, ast.ClassDef) and node.name == "IdentityCommunity":
            cls = node
    if cls is None:
        raise TranslatorError("class IdentityCommunity not found")
    fns = {n.name: n for n in cls.body if isinstance(n, ast.FunctionDef)}
    for need in ("add_known_hash", "pad_hash", "should_sign", "on_request_missing",
                 "request_attestation_advertisement", "_received_disclosure_for_attest"):
        if need not in fns:
            raise TranslatorError(f"IdentityCommunity.{need} not found")
    limit = consts.get("SAFE_UDP_PACKET_LENGTH")
    if not isinstance(limit, int):
        raise TranslatorError("SAFE_UDP_PACKET_LENGTH is not an integer constant")

    # ---- add_known_hash ---------------------------------------------------------------------------------------
    b = _body(fns["add_known_hash"])
    txt = _text(b)
    m = re.fullmatch(r"if len\(attribute_hash\) == (\d+):\n    attribute_hash = self\.pad_hash\(attribute_hash\)\n"
                     r"self\.known_attestation_hashes\[attribute_hash\] = \((.*)\)", txt)
    if not m:
        raise TranslatorError("add_known_hash has an unexpected shape:\n" + txt)
    pad_len = int(m.group(1))
    slots = [x.strip() for x in m.group(2).split(",")]
    want = {"name": "name", "time()": "time", "public_key": "key", "metadata": "md"}
    if sorted(slots) != sorted(want):
        raise TranslatorError(f"add_known_hash stores {slots}, expected a permutation of {list(want)}")
    idx = {want[s]: i for i, s in enumerate(slots)}      # field -> tuple index
    pb = _body(fns["pad_hash"])
    pm = re.fullmatch(r"return (b'.*') \+ attribute_hash", _text(pb))
    if not pm:
        raise TranslatorError("pad_hash has an unexpected shape:\n" + _text(pb))
    pad_prefix = ast.literal_eval(pm.group(1))

    # ---- should_sign ---------------------------------------------------------------------------------------------
    guards, notes = [], []
    b = _body(fns["should_sign"])
    if [a.arg for a in fns["should_sign"].args.args] != ["self", "pseudonym", "metadata"]:
        raise TranslatorError("should_sign signature changed")

    def slot(i: str, field: str, guard: str):
        if int(i) != idx[field]:
            other = [f for f, j in idx.items() if j == int(i)]
            raise TranslatorError(f"should_sign: the {guard} guard reads tuple slot {i} "
                                  f"({other[0] if other else 'out of range'}), the {field} is stored in slot {idx[field]}")

    seen_final = False
    for st in b:
        t = ast.unparse(st)
        if seen_final:
            raise TranslatorError("should_sign: statements after `return True`")
        if t == "transaction = json.loads(metadata.serialized_json_dict)":
            if guards:
                raise TranslatorError("should_sign: transaction is parsed after a guard")
            continue
        if t == "requested_keys = set(transaction.keys())":
            continue
        if t == "attribute_hash = pseudonym.tree.elements[metadata.token_pointer].content_hash":
            if "tokenKnown" not in guards:
                raise TranslatorError("should_sign: attribute_hash is read before the token-known guard")
            continue
        if t == "return True":
            seen_final = True
            continue
        if isinstance(st, ast.If) and _returns_false(st):
            c = ast.unparse(st.test)
            if c == "metadata.token_pointer not in pseudonym.tree.elements":
                guards.append("tokenKnown")
                continue
            parts = c.split(" or ")
            fm = [re.fullmatch(r"'(\w+)' not in requested_keys", x) for x in parts]
            if all(fm):
                names = [x.group(1) for x in fm]
                if any(n not in ("name", "date", "schema") for n in names):
                    raise TranslatorError(f"should_sign: required field outside name/date/schema: {names}")
                guards.append(".fields [" + ", ".join("." + n for n in names) + "]")
                continue
            if c == "attribute_hash not in self.known_attestation_hashes":
                guards.append("registered")
                continue
            mm = re.fullmatch(re.escape("pseudonym.public_key.key_to_bin() != " + K) + r"\[(\d+)\]", c)
            if mm:
                slot(mm.group(1), "key", "subject-key")
                guards.append("subjectKey")
                continue
            mm = re.fullmatch(re.escape("time() > " + K) + r"\[(\d+)\] \+ (\d+)", c)
            if mm:
                slot(mm.group(1), "time", "age")
                guards.append(f".fresh {int(mm.group(2))}")
                continue
            mm = re.fullmatch(re.escape("transaction['name'] != " + K) + r"\[(\d+)\]", c)
            if mm:
                slot(mm.group(1), "name", "name")
                guards.append("nameMatches")
                continue
            mm = re.fullmatch(re.escape(K) + r"\[(\d+)\] is not None and "
                              + re.escape("{k: v for k, v in transaction.items() if k not in ['name', 'date', 'schema']} != " + K)
                              + r"\[(\d+)\]", c)
            if mm:
                slot(mm.group(1), "md", "fixed-metadata")
                slot(mm.group(2), "md", "fixed-metadata")
                guards.append("fixedMetadata")
                continue
            if c == "metadata.get_hash() in self.attested_metadata":
                guards.append("notAttestedMem")
                continue
            raise TranslatorError("should_sign: unrecognised guard `if " + c + ": return False`")
        if isinstance(st, ast.For) and not st.orelse and \
                ast.unparse(st.target) == "attestation" and \
                ast.unparse(st.iter) == "pseudonym.database.get_attestations_over(metadata)":
            fb = _strip(st.body)
            if len(fb) == 1 and isinstance(fb[0], ast.If) and _returns_false(fb[0]):
                c = ast.unparse(fb[0].test)
                mine = "self.my_peer.public_key.key_to_bin()"
                if c in (f"pseudonym.database.get_authority(attestation) == {mine}",
                         f"{mine} == pseudonym.database.get_authority(attestation)"):
                    guards.append("notAttestedDb")
                    continue
                if c == f"any((authority == {mine} for authority in pseudonym.database.get_authority(attestation)))":
                    # get_authority returns ONE key (bytes); iterating it yields integers, which never equal a key:
                    # this loop can never return False.  Mirrored as: no guard.
                    notes.append("the `any(authority == ... for authority in get_authority(...))` loop iterates the "
                                 "bytes of one key and can never fire: translated to no guard")
                    continue
            raise TranslatorError("should_sign: unrecognised loop\n" + t)
        raise TranslatorError("should_sign: unrecognised statement\n" + t)
    if not seen_final:
        raise TranslatorError("should_sign does not end in `return True`")

    def pos(g):
        for i, x in enumerate(guards):
            if x == g or x.startswith(g):
                return i
        return None
    dependent = [g for g in ("subjectKey", ".fresh", "nameMatches", "fixedMetadata") if pos(g) is not None]
    if dependent and (pos("registered") is None or pos("tokenKnown") is None
                      or not pos("tokenKnown") < pos("registered") < min(pos(g) for g in dependent)):
        raise TranslatorError(f"should_sign: guards {dependent} read the registration before it is known to exist: {guards}")
    if pos("nameMatches") is not None:
        fpos = [i for i, x in enumerate(guards) if x.startswith(".fields") and ".name" in x]
        if not fpos or fpos[0] > pos("nameMatches"):
            raise TranslatorError("should_sign: transaction['name'] is read before its presence is checked")

    # ---- on_request_missing ----------------------------------------------------------------------------------------
    txt = _text(_body(fns["on_request_missing"]))
    m = re.fullmatch(
        r"out = b''\n"
        r"permitted = self\.token_chain\[:self\.permissions\.get\(peer, (\d+)\)\]\n"
        r"for index, token in enumerate\(permitted\):\n"
        r"    if index >= request\.known:\n"
        r"        serialized = token\.get_plaintext_signed\(\)\n"
        r"        if len\(out\) \+ len\(serialized\) > SAFE_UDP_PACKET_LENGTH:\n"
        r"            break\n"
        r"        out \+= serialized\n"
        r"self\.ez_send\(peer, MissingResponsePayload\(out\)\)", txt)
    if not m:
        raise TranslatorError("on_request_missing has an unexpected shape:\n" + txt)
    perm_default = int(m.group(1))

    # ---- request_attestation_advertisement ---------------------------------------------------------------------------
    fn = fns["request_attestation_advertisement"]
    b = _body(fn)
    ok = (len(b) == 2 and ast.unparse(b[0]) == "credential = self.self_advertise(attribute_hash, name, block_type, metadata)"
          and isinstance(b[1], ast.If) and ast.unparse(b[1].test) == "credential is None"
          and _strip(b[1].body) == []
          and _text(_strip(b[1].orelse)) ==
          "self.permissions[peer] = len(self.token_chain)\n"
          "disclosure = self.pseudonym_manager.disclose_credentials([credential], set())\n"
          "self.ez_send(peer, DisclosePayload(*self._fit_disclosure(disclosure)))")
    if not ok:
        raise TranslatorError("request_attestation_advertisement has an unexpected shape:\n" + _text(b))
    # the permissions table may be written nowhere else
    writes = []
    for f in fns.values():
        for n in ast.walk(f):
            if isinstance(n, (ast.Assign, ast.AugAssign, ast.Delete)):
                tg = n.targets if not isinstance(n, ast.AugAssign) else [n.target]
                for t_ in tg:
                    if "self.permissions" in ast.unparse(t_):
                        writes.append((f.name, ast.unparse(n)))
            if isinstance(n, ast.Call) and re.match(r"self\.permissions\.(update|setdefault|pop|clear|popitem)$",
                                                    ast.unparse(n.func)):
                writes.append((f.name, ast.unparse(n)))
    extra = [w for w in writes if w != ("request_attestation_advertisement", "self.permissions[peer] = len(self.token_chain)")
             and w != ("__init__", "self.permissions: dict[Peer, int] = {}")]
    if extra:
        raise TranslatorError(f"the permissions table is written outside request_attestation_advertisement: {extra}")

    # ---- does the node record what it attests to? ---------------------------------------------------------------------
    rtxt = ast.unparse(fns["_received_disclosure_for_attest"])
    records = "self.attested_metadata.add(credential.metadata.get_hash())" in rtxt
    if ("notAttestedMem" in guards) != records:
        notes.append("attested_metadata is %s but %s" % ("recorded" if records else "not recorded",
                                                          "not consulted" if records else "consulted"))

    g = ", ".join(x if x.startswith(".") else "." + x for x in guards)
    out = [
        "/- GENERATED by tools/gen_c17.py from " + SRC + " — do not edit. -/",
        "import Ipv8.C17.Types",
        "",
        "namespace Ipv8.C17.Gen",
        "",
        f"/-- add_known_hash: hashes of this length are SHA-1 padded (prefix {pad_prefix!r}) -/",
        f"def padLen : Nat := {pad_len}",
        "",
        "/-- tuple stored per hash: " + ", ".join(slots) + " -/",
        f"def regSlots : List String := [{', '.join(chr(34) + s + chr(34) for s in slots)}]",
        "",
        "/-- should_sign: the guards in source order" + ("".join("\n    NOTE: " + n for n in notes)) + " -/",
        f"def guards : List Guard := [{g}]",
        "",
        "/-- _received_disclosure_for_attest adds every metadata hash it attests to `attested_metadata` -/",
        f"def recordsOwn : Bool := {'true' if records else 'false'}",
        "",
        "/-- on_request_missing / _fit_disclosure -/",
        f"def handout : Handout := {{ permDefault := {perm_default}, packetLimit := {limit} }}",
        "",
        "end Ipv8.C17.Gen",
        "",
    ]
    return "\n".join(out)


if __name__ == "__main__":
    print(translate())
