"""
Virtual-clock asyncio loop for running real ipv8 objects deterministically and fast.

    loop = vclock.VLoop(); asyncio.set_event_loop(loop); vclock.install(loop)
    loop.run_until_complete(coro())          # 3600 s timers elapse in microseconds
    vclock.uninstall()

When no callback is ready the clock jumps to the next scheduled timer.  `install` redirects `time.time` and the
`from time import time` references held by already-imported ipv8 modules to the loop's clock (call it after importing
the ipv8 modules you use, or call `install` again later).  `loop.advance(dt)` moves the clock without running timers.
"""
import asyncio
import heapq
import selectors
import sys
import time as _time

_REAL = _time.time


class VLoop(asyncio.SelectorEventLoop):
    def __init__(self, start: float = 1_000_000.0):
        super().__init__(selectors.SelectSelector())
        self._vnow = start
        self.jumps = 0

    def time(self):
        return self._vnow

    def advance(self, dt: float):
        self._vnow += dt

    def _run_once(self):
        while self._scheduled and self._scheduled[0]._cancelled:
            h = heapq.heappop(self._scheduled)
            h._scheduled = False
        if not self._ready and self._scheduled:
            when = self._scheduled[0]._when
            if when > self._vnow:
                self._vnow = when
                self.jumps += 1
        super()._run_once()


_patched = []


def install(loop: VLoop):
    _time.time = loop.time
    for name, mod in list(sys.modules.items()):
        if name.startswith("ipv8") and mod is not None:
            cur = getattr(mod, "time", None)
            if cur is _REAL or (callable(cur) and getattr(cur, "__self__", None).__class__ is VLoop):
                setattr(mod, "time", loop.time)
                _patched.append(mod)


def uninstall():
    _time.time = _REAL
    for mod in _patched:
        setattr(mod, "time", _REAL)
    _patched.clear()


def new_loop() -> VLoop:
    loop = VLoop()
    asyncio.set_event_loop(loop)
    install(loop)
    return loop
