"""
Import sub-agent produced breaking changes from /tmp/mut_out/<PID>/m<k>/ into /verif/seeded/<PID>_m<k>/ and confirm them:
  * patch applies to a clean scratch worktree of /repo HEAD,
  * demo.py PASSes on the clean tree and FAILs with the patch,
  * the complete unit-test suite still passes with the patch (602 passed).
Results are recorded in meta.json under "confirmed".  Usage: python3 tools/confirm_mut.py C03 C08 ...
"""
import json
import os
import re
import shutil
import subprocess
import sys
from concurrent.futures import ThreadPoolExecutor
from pathlib import Path

V = Path(__file__).resolve().parent.parent
OUT = Path(os.environ.get("MUT_OUT", "/tmp/mut_out"))


def sh(cmd, timeout=1800):
    try:
        return subprocess.run(cmd, shell=True, capture_output=True, text=True, timeout=timeout)
    except subprocess.TimeoutExpired:
        class R:  # noqa
            returncode, stdout, stderr = 124, "", "timeout"
        return R()


def confirm(item):
    pid, k = item
    src = OUT / pid / k
    name = f"{pid}_{k}"
    dst = V / "seeded" / name
    if not (src / "patch.diff").exists():
        return name, "no patch"
    dst.mkdir(parents=True, exist_ok=True)
    for f in ("patch.diff", "demo.py", "meta.json"):
        if (src / f).exists():
            shutil.copy(src / f, dst / f)
    try:
        meta = json.loads((dst / "meta.json").read_text())
    except Exception:
        meta = {"property": pid}
    meta["property"] = pid
    meta["origin"] = "written by an independent sub-agent that saw only the property text and a scratch worktree (nothing from /verif)"
    wt = f"/tmp/confwt_{name}_{os.getpid()}"
    conf = {}
    try:
        r = sh(f"git -C /repo worktree add --detach {wt} HEAD")
        conf["base_commit"] = sh("git -C /repo rev-parse --short HEAD").stdout.strip()
        r = sh(f"cd {wt} && PYTHONPATH={wt} timeout 900 /venv/bin/python {dst / 'demo.py'}")
        conf["demo_clean_rc"] = r.returncode
        r = sh(f"git -C {wt} apply {dst / 'patch.diff'}")
        conf["patch_applies"] = r.returncode == 0
        if r.returncode == 0:
            r = sh(f"cd {wt} && PYTHONPATH={wt} timeout 900 /venv/bin/python {dst / 'demo.py'}")
            conf["demo_mutated_rc"] = r.returncode
            r = sh(f"cd {wt} && PYTHONPATH={wt} timeout 1500 /venv/bin/python -m pytest -q -p no:cacheprovider --timeout=900 2>&1 | tail -5")
            m = re.search(r"(\d+) passed", r.stdout)
            f = re.search(r"(\d+) failed", r.stdout)
            conf["tests_passed"] = int(m.group(1)) if m else 0
            conf["tests_failed"] = int(f.group(1)) if f else 0
            if conf["tests_failed"]:
                conf["tests_tail"] = r.stdout[-400:]
        conf["ok"] = bool(conf.get("patch_applies") and conf.get("demo_clean_rc") == 0 and conf.get("demo_mutated_rc") not in (0, None)
                          and conf.get("tests_passed", 0) >= 602 and not conf.get("tests_failed"))
    finally:
        sh(f"git -C /repo worktree remove --force {wt}")
        shutil.rmtree(wt, ignore_errors=True)
    meta["confirmed"] = conf
    meta["ran"] = "tools/confirm_mut.py (clean demo, patched demo, full test suite with the patch), then tools/seeded.py (the property's quick check against the patched tree)"
    (dst / "meta.json").write_text(json.dumps(meta, indent=1))
    return name, conf


if __name__ == "__main__":
    items = []
    for pid in sys.argv[1:]:
        for d in sorted((OUT / pid).glob("m*")):
            items.append((pid, d.name))
    with ThreadPoolExecutor(int(os.environ.get("JOBS", "3"))) as ex:
        for name, conf in ex.map(confirm, items):
            print(name, json.dumps(conf))
