"""
Run the registered checks against the behaviour-preserving refactorings under /verif/benign/<name>/ (patch.diff, meta.json),
written by independent sub-agents that saw only the property text: the check is expected to stay green (exit 0); a red run
"with_failing_input" would mean the refactoring is not harmless after all (or the oracle is wrong), a red run without one is
the prescribed `no-failing-input-found` for an obligation that no longer checks.  Same mechanics as tools/seeded.py:

    python3 tools/benign.py [name ...]       # default: all

For each seeded change: a scratch copy of /verif (with its Lean build) and a scratch worktree of /repo with the patch
applied are created under /tmp, the property's quick check is run there with VERIF_REPO pointing at the patched tree,
and the outcome is written to seeded/<name>/result.json.  Nothing is left behind in /tmp and /repo is never modified.
(The brief's alternative - `git -C /repo apply` / `git -C /repo checkout -- .` - gives the same verdicts; the scratch
route is used so that concurrent work on /repo and /verif is not disturbed.)
"""
import json
import os
import shutil
import subprocess
import sys
import time
from concurrent.futures import ThreadPoolExecutor
from pathlib import Path

V = Path(__file__).resolve().parent.parent
REPO = "/repo"


def sh(cmd, **kw):
    return subprocess.run(cmd, shell=True, capture_output=True, text=True, **kw)


def run_one(name: str, tier: str = "quick") -> dict:
    d = V / "benign" / name
    meta = json.loads((d / "meta.json").read_text())
    prop = meta["property"]
    tag = f"{name}_{os.getpid()}"
    wt = f"/tmp/benwt_{tag}"
    vc = f"/tmp/benverif_{tag}"
    res = {"name": name, "property": prop, "tier": tier}
    try:
        r = sh(f"git -C {REPO} worktree add --detach {wt} HEAD")
        if r.returncode:
            res["error"] = "worktree: " + r.stderr[-300:]
            return res
        r = sh(f"git -C {wt} apply {d / 'patch.diff'}")
        if r.returncode:
            r = sh(f"git -C {wt} apply -3 {d / 'patch.diff'}")
        if r.returncode:
            res["error"] = "patch does not apply: " + r.stderr[-300:]
            return res
        # demo on the patched tree (should FAIL) — informational
        if (d / "demo.py").exists():
            dr = sh(f"cd {wt} && PYTHONPATH={wt} timeout 600 /venv/bin/python {d / 'demo.py'}")
            res["demo_mutated_rc"] = dr.returncode
        sh(f"rsync -a --exclude .git --exclude replays --exclude seeded --exclude benign {V}/ {vc}/")
        t = time.time()
        cr = sh(f"cd {vc} && VERIF_REPO={wt} VERIF_SEED={os.environ.get('VERIF_SEED', '0')} timeout 3000 ./check {prop} {tier}")
        res["wall_s"] = round(time.time() - t, 1)
        res["exit"] = cr.returncode
        out = cr.stdout
        res["violation_lines"] = [ln for ln in out.splitlines() if ln.startswith("VIOLATION")]
        res["summary"] = [ln for ln in out.splitlines() if ln.startswith(prop + " ")][-1:] or out.splitlines()[-3:]
        res["broken"] = [ln.strip() for ln in out.splitlines() if ln.strip().startswith(("broken:", "disagreement:"))][:4]
        res["stderr_tail"] = cr.stderr[-400:] if cr.returncode not in (0, 1) else ""
        res["detected"] = cr.returncode == 1 and bool(res["violation_lines"])
        res["with_failing_input"] = any("no-failing-input-found" not in ln for ln in res["violation_lines"])
        # keep the first replay for the record
        for ln in res["violation_lines"][:1]:
            rp = ln.split("replay=")[1].split()[0]
            src = Path(vc) / rp
            if src.exists():
                txt = src.read_text()
                (d / "replay_found.json").write_text(txt[:20000])
    finally:
        sh(f"git -C {REPO} worktree remove --force {wt}")
        shutil.rmtree(vc, ignore_errors=True)
        shutil.rmtree(wt, ignore_errors=True)
        sh(f"git -C {REPO} worktree prune")
    (d / "result.json").write_text(json.dumps(res, indent=1))
    return res


def main():
    args = [a for a in sys.argv[1:] if not a.startswith("-")]
    names = args or sorted(p.name for p in (V / "benign").iterdir() if (p / "patch.diff").exists())
    jobs = int(os.environ.get("SEEDED_JOBS", "4"))
    with ThreadPoolExecutor(jobs) as ex:
        for res in ex.map(run_one, names):
            print(f"{res['name']:28s} {res['property']} detected={res.get('detected')} failing_input={res.get('with_failing_input')} "
                  f"exit={res.get('exit')} {res.get('wall_s')}s {res.get('error', '')}")


if __name__ == "__main__":
    main()
