"""
Translator for C04: the decision logic of the cell path  ->  lean/Ipv8/C04/GenCrypto.lean   (regenerated on every run)

Sources (the working tree named by VERIF_REPO):
  ipv8/messaging/anonymization/crypto.py      PythonCryptoEndpoint.send_cell / process_cell / relay_cell / outgoing_crypto /
                                              incoming_crypto / encrypt_cell / decrypt_cell
  ipv8/messaging/anonymization/community.py   TunnelCommunity.on_data (own-circuit guard, e2e decision, re-dispatch guard),
                                              add_cell_handler(..., from_exit=True) registrations
  ipv8/messaging/anonymization/hidden_services.py   from_exit registrations
  ipv8/messaging/anonymization/payload.py     NO_CRYPTO_PACKETS, message ids, CellPayload header layout
  ipv8/messaging/anonymization/tunnel.py      FORWARD / BACKWARD, CIRCUIT_TYPE_*

What is generated (consumed by Model.lean; the theorems of Props.lean are therefore re-proved against it):
  guards (Bool functions over a fixed vocabulary)
      genNoKeyToSend      outgoing_crypto: the `raise CryptoException` guard at the top of the try block
      genUnknownCircuit   incoming_crypto: first `return None` guard
      genNoKeysYet        incoming_crypto: second `return None` guard
      genEndpointEarlyDrop / genEndpointPlaintextDrop   process_cell: the two drops after incoming_crypto
      genRelayPlaintextDrop / genRelayEarlyDrop         relay_cell: the two drops before the crypto
      genSendEarly        send_cell: value assigned to cell.relay_early for own circuits
      genKdfUsesWholeSecret   TunnelCrypto.generate_session_keys passes the whole shared secret to the KDF
      genTepDirect        TunnelEndpoint.send (endpoint.py): when a packet is handed straight to the socket
      genCreateInUse      on_create: the "circuit id is already in use" guard over the three tables
      genOwnCircuitData   on_data: guard of the own-circuit branch (vocabulary has BOTH `fromFirstHop` = full address equality
                          and `sameIp` = equality of the IP only)
      genDivert / genRedispatch   on_data: IPv8-looking-and-not-e2e test; `data[22] in self.exit_msg_ids`
  directions and operations
      genDirOutHs ct, genDirOutCircuit, genDirOutExit, genDirOutRdv, genOutOtherFollowsOtherDirection
      genDirInExit, genDirInCircuit, genDirInHs ct
      genDirRdvDec, genDirRdvEnc, genRdvClearsEarly, genRelayOp (direction -> decrypt / encrypt)
      genOutOrder / genInOrder      order in which outgoing_crypto / incoming_crypto consult the three tables
      genEncryptOutermostIsFirstHop (encrypt_cell iterates `reversed(hops)`), genDecryptStartsAtFirstHop (`hops`),
      genEncryptSkipsPlaintext / genDecryptSkipsPlaintext (leading `if cell.plaintext: return`)
  tables / constants
      genNoCryptoIds, genE2ETypes, genBaseExitIds, genHiddenExitIds, genCellMsgId, genCellHeader (format, offsets)

Accepted subset (anything else raises vlib.TranslatorError, which the runner treats like a broken proof):
  * boolean expressions: and / or / not, `a if c else b`, comparison chains of length 1 with ==, !=, <, <=, >, >= between integer
    atoms and non-negative integer literals, `x in NAME` / `x not in NAME` for NAME in {NO_CRYPTO_PACKETS, self.exit_msg_ids},
    `<circuit>.ctype == CIRCUIT_TYPE_*`, `<circuit>.ctype in [CIRCUIT_TYPE_*, ...]`, truthiness of the atoms below;
  * atoms are recognised AFTER substituting local variables by their defining expression and the cell parameter by `cell`, so renaming
    locals / the parameter, `.get(k)` vs `.get(k, None)` are accepted; operands of and/or are flattened and SORTED in the output, so
    reordering conjuncts / disjuncts and re-associating produce the identical Lean term:
      self.circuits.get(cell.circuit_id) [.hops | .hs_session_keys | .ctype | .relay_early_count], self.exit_sockets.get(..),
      self.relays.get(..) / self.relays[..] [.rendezvous_relay | .relay_early_count | .direction], cell.plaintext, cell.relay_early,
      cell.message[0], self.max_relay_early; in on_data: circuit, origin, sock_addr == circuit.hop.address,
      sock_addr[0] == circuit.hop.address[0], DataChecker.could_be_ipv8(data), self._prefix == data[:22], data[22];
  * also accepted: module-level named integer constants (`NAME = 4`, `NAME = ExtendPayload.msg_id`) and `<Payload>.msg_id` in comparisons;
    hoisted locals / aliases; `enumerate(x, start=k)`; guard clauses written flat or nested (the translator computes the condition of
    every `return`/`raise` PATH, including the negations of earlier guards that returned, and identifies the two incoming guards by
    meaning); a private helper method of the same class called as a statement with positional arguments is inlined (parameters renamed,
    `if c: ...; return` + rest read as if/else);
  * also accepted: a local bound to a boolean expression (translated through its definition), `if c: x = a else: x = b` (read as a conditional
    expression), `bool(x)`, the no-session-keys guard of outgoing_crypto before the try block (`return None`) or first inside it (`raise`), on_data
    written exit-branch first (`if not <own-circuit guard>: ...; return` + the own-circuit code); negation is pushed through conditional
    expressions and `or` when rendering;
  * statement shapes: the functions must keep their overall shape (guard-if with `return`/`raise`; the if/elif chain over the three
    tables; `direction = A if <ctype test> else B`; `self.encrypt_cell(cell, <dir>, <hops>)` / `self.decrypt_cell(...)` calls with
    positional arguments; logging calls, statistics (`bytes_up`, `beat_heart`) and f-string messages are ignored).
"""
from __future__ import annotations

import ast
import copy
import re

from vlib import REPO, TranslatorError

CRYPTO = "ipv8/messaging/anonymization/crypto.py"
COMMUNITY = "ipv8/messaging/anonymization/community.py"
HIDDEN = "ipv8/messaging/anonymization/hidden_services.py"
PAYLOAD = "ipv8/messaging/anonymization/payload.py"
TUNNEL = "ipv8/messaging/anonymization/tunnel.py"

CTYPES = {"CIRCUIT_TYPE_DATA": ".data", "CIRCUIT_TYPE_IP_SEEDER": ".ipSeeder", "CIRCUIT_TYPE_RP_SEEDER": ".rpSeeder",
          "CIRCUIT_TYPE_RP_DOWNLOADER": ".rpDownloader"}


def fail(where, msg):
    raise TranslatorError(f"{where}: {msg}")



# ---------------------------------------------------------------------------------------------------------------------
# boolean terms are built as small trees and rendered in a canonical form: and/or flattened and sorted, double negation removed
def t_not(t):
    if t[0] == "not":
        return t[1]
    if t[0] == "ite":                                   # not (a if c else b)  =  (not a) if c else (not b)
        return ("ite", t[1], t_not(t[2]), t_not(t[3]))
    if t[0] == "or":                                    # not (a or b)  =  not a and not b
        return t_and([t_not(x) for x in t[1]])
    return ("not", t)


def t_and(ts):
    out = []
    for t in ts:
        out += t[1] if t[0] == "and" else [t]
    return out[0] if len(out) == 1 else ("and", out)


def t_or(ts):
    out = []
    for t in ts:
        out += t[1] if t[0] == "or" else [t]
    return out[0] if len(out) == 1 else ("or", out)


def t_atoms(t, acc):
    if t[0] == "atom":
        acc.add(t[1])
    elif t[0] == "not":
        t_atoms(t[1], acc)
    elif t[0] in ("and", "or"):
        for x in t[1]:
            t_atoms(x, acc)
    else:
        for x in t[1:]:
            t_atoms(x, acc)
    return acc


def t_eval(t, env) -> bool:
    k = t[0]
    if k == "atom":
        return env[t[1]]
    if k == "not":
        return not t_eval(t[1], env)
    if k == "and":
        return all(t_eval(x, env) for x in t[1])
    if k == "or":
        return any(t_eval(x, env) for x in t[1])
    return t_eval(t[2], env) if t_eval(t[1], env) else t_eval(t[3], env)


def t_implies(a, b) -> bool:
    """a => b for every assignment of the atoms (atoms are treated as independent booleans; at most a dozen of them)"""
    names = sorted(t_atoms(b, t_atoms(a, set())))
    if len(names) > 14:
        return False
    for bits in range(1 << len(names)):
        env = {n: bool(bits >> i & 1) for i, n in enumerate(names)}
        if t_eval(a, env) and not t_eval(b, env):
            return False
    return True


def render(t) -> str:
    k = t[0]
    if k == "atom":
        return t[1]
    if k == "not":
        return f"(!{render(t[1])})"
    if k in ("and", "or"):
        return "(" + (" && " if k == "and" else " || ").join(sorted(render(x) for x in t[1])) + ")"
    if k == "ite":
        return f"(if {render(t[1])} then {render(t[2])} else {render(t[3])})"
    raise AssertionError(k)


# ---------------------------------------------------------------------------------------------------------------------
class Func:
    """one Python function: local definitions, canonicalisation of atoms, boolean expressions -> Lean"""

    def __init__(self, path: str, cls: str, name: str, cell_param: int | None = 1):
        self.where = f"{path}:{cls}.{name}"
        tree = ast.parse((REPO / path).read_text())
        c = next((n for n in tree.body if isinstance(n, ast.ClassDef) and n.name == cls), None)
        if c is None:
            fail(self.where, "class not found")
        f = next((n for n in c.body if isinstance(n, (ast.FunctionDef, ast.AsyncFunctionDef)) and n.name == name), None)
        if f is None:
            fail(self.where, "function not found")
        self.fn = f
        self.methods = {n.name: n for n in c.body if isinstance(n, (ast.FunctionDef, ast.AsyncFunctionDef))}
        self.consts = module_consts(path, tree)
        self.body = [s for s in f.body if not (isinstance(s, ast.Expr) and isinstance(s.value, ast.Constant))]
        self.locals: dict[str, ast.expr] = {}
        if cell_param is not None:
            params = [a.arg for a in f.args.args]
            if len(params) <= cell_param:
                fail(self.where, "cell parameter missing")
            self.locals[params[cell_param]] = ast.Name(id="cell")
        cond_defs = {}
        counts: dict[str, int] = {}
        for st in ast.walk(f):
            if isinstance(st, ast.Assign) and len(st.targets) == 1 and isinstance(st.targets[0], ast.Name):
                counts[st.targets[0].id] = counts.get(st.targets[0].id, 0) + 1
            if isinstance(st, ast.If) and len(st.body) == 1 and len(st.orelse) == 1 \
                    and all(isinstance(x, ast.Assign) and len(x.targets) == 1 and isinstance(x.targets[0], ast.Name) for x in (st.body[0], st.orelse[0])) \
                    and st.body[0].targets[0].id == st.orelse[0].targets[0].id:
                cond_defs[st.body[0].targets[0].id] = ast.IfExp(test=st.test, body=st.body[0].value, orelse=st.orelse[0].value)
        for name, val in cond_defs.items():
            if counts.get(name) == 2:
                self.locals[name] = val          # `if c: x = a else: x = b`  is read as  x = a if c else b
        self.multi = {n for n, k in counts.items() if k > 1 and n not in self.locals}
        for st in ast.walk(f):
            tgt = None
            if isinstance(st, ast.Assign) and len(st.targets) == 1 and isinstance(st.targets[0], ast.Name):
                tgt, val = st.targets[0].id, st.value
            elif isinstance(st, ast.AnnAssign) and isinstance(st.target, ast.Name) and st.value is not None:
                tgt, val = st.target.id, st.value
            if tgt and tgt not in self.locals and tgt != "cell" and tgt not in self.multi:
                self.locals[tgt] = val
        self.atoms: dict[str, tuple[str, str]] = {}

    def canon(self, node) -> str:
        """source text of `node` with locals replaced by their definitions"""
        node = copy.deepcopy(node)
        for _ in range(6):
            changed = False

            class T(ast.NodeTransformer):
                def visit_Name(s, n):  # noqa: N802, N805
                    nonlocal changed
                    if n.id in self.locals and not (isinstance(self.locals[n.id], ast.Name) and self.locals[n.id].id == n.id):
                        changed = True
                        return copy.deepcopy(self.locals[n.id])
                    return n
            node = T().visit(node)
            if not changed:
                break
        s = ast.unparse(node)
        return re.sub(r"\.get\(([^()]*?), None\)", r".get(\1)", s)

    def atom(self, node, want=None):
        c = self.canon(node)
        if c in self.atoms:
            ln, ty = self.atoms[c]
            if want and ty != want:
                fail(self.where, f"`{c}` is a {ty}, a {want} is needed")
            return ln, ty
        fail(self.where, f"expression `{c}` is outside the translated vocabulary")

    def nat(self, node) -> str:
        if isinstance(node, ast.Constant) and type(node.value) is int and node.value >= 0:
            return str(node.value)
        if isinstance(node, ast.Name) and node.id in self.consts and node.id not in self.locals:
            return str(self.consts[node.id])        # a module-level named constant, resolved to its literal value
        m = re.fullmatch(r"(\w+)\.msg_id", ast.unparse(node))
        if m and m.group(1) in MSG_IDS:
            return str(MSG_IDS[m.group(1)])
        return self.atom(node, "nat")[0]

    def bexpr(self, n) -> str:
        return render(self.bt(n))

    def bt(self, n):
        """boolean expression -> term tree"""
        if isinstance(n, ast.BoolOp):
            parts = [self.bt(v) for v in n.values]
            return t_and(parts) if isinstance(n.op, ast.And) else t_or(parts)
        if isinstance(n, ast.UnaryOp) and isinstance(n.op, ast.Not):
            return t_not(self.bt(n.operand))
        if isinstance(n, ast.IfExp):
            return ("ite", self.bt(n.test), self.bt(n.body), self.bt(n.orelse))
        if isinstance(n, ast.Compare):
            if len(n.ops) != 1:
                fail(self.where, "comparison chains are outside the subset")
            op, lhs, rhs = n.ops[0], n.left, n.comparators[0]
            whole = self.canon(n)
            if whole in self.atoms:                 # a comparison that is itself an atom (address equality, `x in self.table`, `is None`)
                return ("atom", self.atoms[whole][0])
            if isinstance(op, (ast.In, ast.NotIn)):
                rc = self.canon(rhs)
                if rc == "NO_CRYPTO_PACKETS":
                    t = ("atom", f"(genNoCryptoIds.contains {self.nat(lhs)})")
                elif rc == "self.exit_msg_ids":
                    self.atom(lhs, "nat")
                    t = ("atom", "registered")
                elif isinstance(rhs, (ast.List, ast.Tuple)) and all(isinstance(e, ast.Name) and e.id in CTYPES for e in rhs.elts):
                    self.atom(lhs, "ctype")
                    t = t_or([("atom", f"(ct == {CTYPES[e.id]})") for e in rhs.elts])
                else:
                    fail(self.where, f"`in {rc}` is outside the subset")
                return t_not(t) if isinstance(op, ast.NotIn) else t
            lc = self.canon(lhs)
            if lc in self.atoms and self.atoms[lc][1] == "ctype" and isinstance(rhs, ast.Name) and rhs.id in CTYPES \
                    and isinstance(op, (ast.Eq, ast.NotEq)):
                t = ("atom", f"(ct == {CTYPES[rhs.id]})")
                return t_not(t) if isinstance(op, ast.NotEq) else t
            tab = {ast.Eq: "==", ast.NotEq: "!=", ast.Lt: "<", ast.LtE: "≤", ast.Gt: ">", ast.GtE: "≥"}
            if type(op) not in tab:
                fail(self.where, f"operator {type(op).__name__} is outside the subset")
            x, y = self.nat(lhs), self.nat(rhs)
            if isinstance(op, (ast.Eq, ast.NotEq)):
                return ("atom", f"({x} {tab[type(op)]} {y})")
            return ("atom", f"(decide ({x} {tab[type(op)]} {y}))")
        if isinstance(n, ast.Call):
            c = self.canon(n)
            if c in self.atoms:
                return ("atom", self.atoms[c][0])
            if isinstance(n.func, ast.Name) and n.func.id == "bool" and len(n.args) == 1 and not n.keywords:
                return self.bt(n.args[0])           # bool(x): the truth value of x
        if isinstance(n, ast.Name) and n.id in self.locals and not isinstance(self.locals[n.id], ast.Name):
            d = self.locals[n.id]
            if isinstance(d, (ast.BoolOp, ast.IfExp, ast.Compare, ast.UnaryOp)) or \
                    (isinstance(d, ast.Call) and isinstance(d.func, ast.Name) and d.func.id == "bool"):
                return self.bt(d)                   # a named boolean: translate its definition
        return ("atom", self.atom(n, "bool")[0])

    # ---- helpers for statement shapes -------------------------------------------------------------------------------------
    def inline(self, stmts):
        """replace `self._helper(args)` statements by the body of the private helper method of the same class (positional arguments,
        parameters renamed to the argument expressions) and turn `if c: ...; return` + rest into if/else"""
        out = []
        for st in stmts:
            call = st.value if isinstance(st, ast.Expr) and isinstance(st.value, ast.Call) else None
            if call is not None and isinstance(call.func, ast.Attribute) and ast.unparse(call.func.value) == "self" \
                    and call.func.attr.startswith("_") and not call.keywords and call.func.attr in self.methods:
                m = self.methods[call.func.attr]
                params = [a.arg for a in m.args.args][1:]
                if len(params) != len(call.args) or m.args.vararg or m.args.kwarg:
                    fail(self.where, f"cannot inline {call.func.attr}: argument shape")
                sub = dict(zip(params, call.args))

                class R(ast.NodeTransformer):
                    def visit_Name(s, n):  # noqa: N802, N805
                        return copy.deepcopy(sub[n.id]) if n.id in sub else n
                body = [R().visit(copy.deepcopy(b)) for b in m.body
                        if not (isinstance(b, ast.Expr) and isinstance(b.value, ast.Constant))]
                for b in body:
                    for x in ast.walk(b):
                        if isinstance(x, ast.Assign) and len(x.targets) == 1 and isinstance(x.targets[0], ast.Name) \
                                and x.targets[0].id not in self.locals:
                            self.locals[x.targets[0].id] = x.value
                out += self.inline(normalize_returns(body))
            else:
                out.append(st)
        return out

    def path_guards(self, stmts):
        """conditions (term trees) under which a `return` / `raise` in `stmts` is reached, in source order; nested guard-ifs are
        followed, and a guard that has returned contributes its negation to everything after it on the same level"""
        out = []

        def walk(sts, conds):
            negs = []
            for st in sts:
                if ignorable(st) or not isinstance(st, ast.If) or st.orelse:
                    continue
                body = [b for b in st.body if not ignorable(b)]
                g = self.bt(st.test)
                if len(body) == 1 and isinstance(body[0], (ast.Return, ast.Raise)):
                    here = t_and(conds + [g])
                    # "no earlier guard on this level has fired": only the negations that `here` does not already imply are kept
                    out.append(t_and(conds + [n for n in negs if not t_implies(here, n)] + [g]))
                    negs.append(t_not(g))
                elif body and all(isinstance(b, ast.If) for b in body):
                    here = t_and(conds + [g])
                    walk(body, conds + [n for n in negs if not t_implies(here, n)] + [g])
        walk(stmts, [])
        return out

    def direction(self, n) -> str:
        """FORWARD / BACKWARD / a local defined as `A if <test> else B`"""
        if isinstance(n, ast.Name) and n.id in ("FORWARD", "BACKWARD"):
            return ".fwd" if n.id == "FORWARD" else ".bwd"
        if isinstance(n, ast.Name) and n.id in self.locals:
            return self.direction(self.locals[n.id])
        if isinstance(n, ast.IfExp):
            return f"(if {self.bexpr(n.test)} then {self.direction(n.body)} else {self.direction(n.orelse)})"
        fail(self.where, f"direction expression `{ast.unparse(n)}` is outside the subset")

MSG_IDS: dict[str, int] = {}


def load_msg_ids():
    if not MSG_IDS:
        for c in ast.parse((REPO / PAYLOAD).read_text()).body:
            if isinstance(c, ast.ClassDef):
                for st in c.body:
                    if isinstance(st, ast.Assign) and isinstance(st.targets[0], ast.Name) and st.targets[0].id == "msg_id" \
                            and isinstance(st.value, ast.Constant) and type(st.value.value) is int:
                        MSG_IDS[c.name] = st.value.value
    return MSG_IDS


def module_consts(path, tree) -> dict[str, int]:
    """module-level `NAME = <non-negative int>` and `NAME = <PayloadClass>.msg_id`"""
    load_msg_ids()
    out = {}
    for st in tree.body:
        if isinstance(st, ast.Assign) and len(st.targets) == 1 and isinstance(st.targets[0], ast.Name):
            v = st.value
            m = re.fullmatch(r"(\w+)\.msg_id", ast.unparse(v))
            if isinstance(v, ast.Constant) and type(v.value) is int and v.value >= 0:
                out[st.targets[0].id] = v.value
            elif m and m.group(1) in MSG_IDS:
                out[st.targets[0].id] = MSG_IDS[m.group(1)]
    return out


def normalize_returns(stmts):
    """`if c: A; return` followed by B   ->   `if c: A else: B`;  a trailing bare `return` is dropped"""
    out = []
    for i, st in enumerate(stmts):
        if isinstance(st, ast.If) and not st.orelse and st.body and isinstance(st.body[-1], ast.Return) and st.body[-1].value is None \
                and i + 1 < len(stmts):
            new = ast.If(test=st.test, body=st.body[:-1] or [ast.Pass()], orelse=normalize_returns(stmts[i + 1:]))
            return out + [new]
        if isinstance(st, ast.Return) and st.value is None and i == len(stmts) - 1:
            continue
        out.append(st)
    return out


def ignorable(st) -> bool:
    """logging, statistics, message strings"""
    s = ast.unparse(st)
    if isinstance(st, ast.Pass):
        return True
    if isinstance(st, ast.Assign) and len(st.targets) == 1 and isinstance(st.targets[0], ast.Name) and "(" not in ast.unparse(st.value).replace("len(", ""):
        return True         # a plain local alias / hoisted sub-expression (its uses are resolved through Func.locals)
    return (s.startswith("self.logger.") or ".bytes_up" in s or ".bytes_down" in s or ".beat_heart()" in s
            or (isinstance(st, ast.Assign) and isinstance(st.value, ast.JoinedStr)))


def guard_ifs(stmts):
    """[(test, kind)] for `if t: ...; return/raise` statements in a statement list, in order"""
    out = []
    for st in stmts:
        if isinstance(st, ast.If) and not st.orelse:
            body = [b for b in st.body if not ignorable(b)]
            if len(body) == 1 and isinstance(body[0], (ast.Return, ast.Raise)):
                out.append(st.test)
    return out


def crypto_calls(stmts, f: Func):
    """('enc'|'dec', direction node, canonical hops argument) of the self.encrypt_cell / decrypt_cell calls directly in `stmts`"""
    out = []
    for st in stmts:
        if isinstance(st, ast.Expr) and isinstance(st.value, ast.Call) and isinstance(st.value.func, ast.Attribute) \
                and st.value.func.attr in ("encrypt_cell", "decrypt_cell") and ast.unparse(st.value.func.value) == "self":
            c = st.value
            if c.keywords or len(c.args) != 3 or f.canon(c.args[0]) != "cell":
                fail(f.where, f"`{ast.unparse(c)}`: positional (cell, direction, hops) expected")
            out.append(("enc" if c.func.attr == "encrypt_cell" else "dec", c.args[1], f.canon(c.args[2])))
    return out


def chain(st):
    """[(test, body)] of an if / elif / elif chain without a final else"""
    out = []
    while True:
        out.append((st.test, st.body))
        if len(st.orelse) == 1 and isinstance(st.orelse[0], ast.If):
            st = st.orelse[0]
        elif not st.orelse:
            return out
        else:
            return out + [(None, st.orelse)]


CIRC, EXIT, RELAY = ("self.circuits.get(cell.circuit_id)", "self.exit_sockets.get(cell.circuit_id)",
                     "self.relays.get(cell.circuit_id)")
TABLE = {CIRC: ".circuit", EXIT: ".exit", RELAY: ".relay"}


def base_atoms(f: Func):
    f.atoms.update({
        "cell.plaintext": ("pt", "bool"), "cell.relay_early": ("re", "bool"), "cell.message[0]": ("msg0", "nat"),
        "self.max_relay_early": ("maxEarly", "nat"),
        CIRC: ("hasCircuit", "bool"), EXIT: ("hasExit", "bool"), RELAY: ("hasRelay", "bool"),
        CIRC + ".hops": ("hopsNonEmpty", "bool"), CIRC + ".hs_session_keys": ("hasHs", "bool"), CIRC + ".ctype": ("ct", "ctype"),
        CIRC + ".relay_early_count": ("early", "nat"),
        "self.relays[cell.circuit_id].relay_early_count": ("early", "nat"),
        "self.relays[cell.circuit_id].rendezvous_relay": ("rdv", "bool"),
        RELAY + ".rendezvous_relay": ("rdv", "bool"),
    })


# ---------------------------------------------------------------------------------------------------------------------
def translate() -> tuple[str, dict]:
    info = {}
    # ---- constants ---------------------------------------------------------------------------------------------------
    ttree = ast.parse((REPO / TUNNEL).read_text())
    consts = {}
    for st in ttree.body:
        if isinstance(st, ast.Assign) and isinstance(st.targets[0], ast.Name) and isinstance(st.value, ast.Constant):
            consts[st.targets[0].id] = st.value.value
    if consts.get("FORWARD") != 0 or consts.get("BACKWARD") != 1:
        fail(TUNNEL, f"FORWARD/BACKWARD = {consts.get('FORWARD')}/{consts.get('BACKWARD')}: the Rust AEAD and the model assume 0/1")
    for k in CTYPES:
        if k not in consts:
            fail(TUNNEL, f"{k} missing")
    ptree = ast.parse((REPO / PAYLOAD).read_text())
    msg_ids = {}
    header = None
    for c in ptree.body:
        if isinstance(c, ast.ClassDef):
            for st in c.body:
                if isinstance(st, ast.Assign) and isinstance(st.targets[0], ast.Name) and st.targets[0].id == "msg_id" \
                        and isinstance(st.value, ast.Constant):
                    msg_ids[c.name] = st.value.value
            if c.name == "CellPayload":
                src = ast.unparse(c)
                m1 = re.search(r"unpack_from\('(![I?]+)', packet, (\d+)\)", src)
                m2 = re.search(r"packet\[(\d+):\]", src)
                m3 = re.search(r"pack\('(![I?]+)', self\.circuit_id, self\.plaintext, self\.relay_early\)", src)
                if not (m1 and m2 and m3) or m1.group(1) != m3.group(1):
                    fail(PAYLOAD, "CellPayload.to_bin / from_bin do not have the expected header layout")
                header = (m1.group(1), int(m1.group(2)), int(m2.group(1)))
    if header != ("!I??", 23, 29):
        fail(PAYLOAD, f"cell header {header}: harness and model assume format !I?? at offset 23, body from 29")
    nocrypto = None
    for st in ptree.body:
        if isinstance(st, ast.Assign) and isinstance(st.targets[0], ast.Name) and st.targets[0].id == "NO_CRYPTO_PACKETS":
            nocrypto = []
            if not isinstance(st.value, ast.List):
                fail(PAYLOAD, "NO_CRYPTO_PACKETS is not a list literal")
            for e in st.value.elts:
                s = ast.unparse(e)
                m = re.fullmatch(r"(\w+)\.msg_id", s)
                if isinstance(e, ast.Constant) and type(e.value) is int:
                    nocrypto.append(e.value)
                elif m and m.group(1) in msg_ids:
                    nocrypto.append(msg_ids[m.group(1)])
                else:
                    fail(PAYLOAD, f"NO_CRYPTO_PACKETS element `{s}`")
    if nocrypto is None:
        fail(PAYLOAD, "NO_CRYPTO_PACKETS not found")

    def exit_ids(path):
        ids = []
        for n in ast.walk(ast.parse((REPO / path).read_text())):
            if isinstance(n, ast.Call) and isinstance(n.func, ast.Attribute) and n.func.attr == "add_cell_handler":
                fe = [k.value for k in n.keywords if k.arg == "from_exit"] + list(n.args[2:3])
                if fe:
                    if not (isinstance(fe[0], ast.Constant) and type(fe[0].value) is bool):
                        fail(path, f"`{ast.unparse(n)}`: from_exit must be a literal")
                    if fe[0].value:
                        cls = ast.unparse(n.args[0])
                        if cls not in msg_ids:
                            fail(path, f"payload class {cls} without a literal msg_id")
                        ids.append(msg_ids[cls])
        return sorted(ids)
    base_ids, hidden_ids = exit_ids(COMMUNITY), exit_ids(HIDDEN)

    # ---- outgoing_crypto ---------------------------------------------------------------------------------------------
    f = Func(CRYPTO, "PythonCryptoEndpoint", "outgoing_crypto")
    base_atoms(f)
    tries = [s for s in f.body if isinstance(s, ast.Try)]
    if len(tries) != 1:
        fail(f.where, "exactly one try block expected")
    tb = f.inline([s for s in tries[0].body if not ignorable(s)])
    before = f.path_guards([s for s in f.body if not isinstance(s, ast.Try) and not (isinstance(s, ast.If) and s.orelse)])
    g = before + f.path_guards(tb[:1])
    if len(g) != 1:
        fail(f.where, "exactly one no-session-keys guard (return None before the try block, or raise CryptoException first in it) expected")
    no_key = render(g[0])
    rest = tb if before else tb[1:]
    if len(rest) != 1 or not isinstance(rest[0], ast.If):
        fail(f.where, "after the guard one if/elif chain over the tables is expected")
    out_order, out = [], {}
    for test, body in chain(rest[0]):
        if test is None:
            fail(f.where, "unexpected else branch")
        t = f.canon(test)
        if t not in TABLE:
            fail(f.where, f"branch test `{t}`")
        out_order.append(TABLE[t])
        body = [b for b in body if not ignorable(b)]
        if t == CIRC:
            hs = [b for b in body if isinstance(b, ast.If)]
            if len(hs) != 1 or f.canon(hs[0].test) != CIRC + ".hs_session_keys" or hs[0].orelse:
                fail(f.where, "circuit branch: `if circuit.hs_session_keys:` expected")
            hc = crypto_calls(hs[0].body, f)
            cc = crypto_calls(body, f)
            if len(hc) != 1 or hc[0][0] != "enc" or "hs_session_keys" not in hc[0][2] or len(cc) != 1 or cc[0][0] != "enc" \
                    or cc[0][2] != "*" + CIRC + ".hops" or body.index(hs[0]) > [i for i, b in enumerate(body) if isinstance(b, ast.Expr)][0]:
                fail(f.where, "circuit branch: encrypt with the e2e keys first, then with *circuit.hops")
            out["hs"], out["circuit"] = f.direction(hc[0][1]), f.direction(cc[0][1])
        elif t == EXIT:
            cc = crypto_calls(body, f)
            if len(cc) != 1 or cc[0][0] != "enc" or cc[0][2] != EXIT + ".hop":
                fail(f.where, "exit branch: one encrypt_cell with exit_socket.hop expected")
            out["exit"] = f.direction(cc[0][1])
        else:
            if len(body) != 1 or not isinstance(body[0], ast.If) or f.canon(body[0].test) != RELAY + ".rendezvous_relay":
                fail(f.where, "relay branch: `if relay.rendezvous_relay:` expected")
            c1 = crypto_calls(body[0].body, f)
            c2 = crypto_calls([b for b in body[0].orelse if not ignorable(b)], f)
            if len(c1) != 1 or c1[0][0] != "enc" or c1[0][2] != RELAY + ".hop":
                fail(f.where, "rendezvous branch: one encrypt_cell with relay.hop expected")
            other = f"self.relays[{RELAY}.circuit_id]"
            if len(c2) != 1 or c2[0][0] != "enc" or c2[0][2] != other + ".hop" or f.canon(c2[0][1]) != other + ".direction":
                fail(f.where, "relay branch: encrypt_cell(cell, other.direction, other.hop) with other = self.relays[relay.circuit_id] expected")
            out["rdv"] = f.direction(c1[0][1])
    if set(out_order) != {".circuit", ".exit", ".relay"}:
        fail(f.where, f"branches {out_order}")

    # ---- incoming_crypto ---------------------------------------------------------------------------------------------
    f = Func(CRYPTO, "PythonCryptoEndpoint", "incoming_crypto")
    base_atoms(f)
    g = f.path_guards([s for s in f.body if not isinstance(s, ast.Try)])
    if len(g) != 2:
        fail(f.where, f"two `return None` paths before the try block expected, found {len(g)}")
    # told apart by meaning, not by position: the "no keys yet" path is the one that looks at circuit.hops
    a, b = render(g[0]), render(g[1])
    if "hopsNonEmpty" in b and "hopsNonEmpty" not in a:
        unknown, nokeys = a, b
    elif "hopsNonEmpty" in a and "hopsNonEmpty" not in b:
        unknown, nokeys = b, a
    else:
        fail(f.where, "cannot tell the unknown-circuit guard from the no-keys guard")
    tries = [s for s in f.body if isinstance(s, ast.Try)]
    tb = f.inline([s for s in tries[0].body if not ignorable(s)]) if len(tries) == 1 else []
    if len(tb) != 1 or not isinstance(tb[0], ast.If):
        fail(f.where, "one if/elif chain in the try block expected")
    in_order, inn = [], {}
    for test, body in chain(tb[0]):
        if test is None:
            fail(f.where, "unexpected else branch")
        t = f.canon(test)
        if t not in (CIRC, EXIT):
            fail(f.where, f"branch test `{t}`")
        in_order.append(TABLE[t])
        body = [b for b in body if not ignorable(b)]
        if t == EXIT:
            cc = crypto_calls(body, f)
            if len(cc) != 1 or cc[0][0] != "dec" or cc[0][2] != EXIT + ".hop":
                fail(f.where, "exit branch: one decrypt_cell with exit_socket.hop expected")
            inn["exit"] = f.direction(cc[0][1])
        else:
            cc = crypto_calls(body, f)
            hs = [b for b in body if isinstance(b, ast.If)]
            if len(cc) != 1 or cc[0][0] != "dec" or cc[0][2] != "*" + CIRC + ".hops" or len(hs) != 1 \
                    or f.canon(hs[0].test) != CIRC + ".hs_session_keys" or hs[0].orelse or body.index(hs[0]) == 0:
                fail(f.where, "circuit branch: decrypt with *circuit.hops first, then `if circuit.hs_session_keys:`")
            hc = crypto_calls(hs[0].body, f)
            if len(hc) != 1 or hc[0][0] != "dec" or "hs_session_keys" not in hc[0][2]:
                fail(f.where, "circuit branch: one decrypt_cell with the e2e keys expected")
            inn["circuit"], inn["hs"] = f.direction(cc[0][1]), f.direction(hc[0][1])
    if set(in_order) != {".circuit", ".exit"}:
        fail(f.where, f"branches {in_order}")

    # ---- process_cell ------------------------------------------------------------------------------------------------
    f = Func(CRYPTO, "PythonCryptoEndpoint", "process_cell", cell_param=None)
    base_atoms(f)
    calls = [i for i, s in enumerate(f.body) if "self.incoming_crypto(" in ast.unparse(s)]
    deliver = [i for i, s in enumerate(f.body) if "self.tunnel_community.on_packet(" in ast.unparse(s)]
    if len(calls) != 1 or len(deliver) != 1 or deliver[0] < calls[0]:
        fail(f.where, "incoming_crypto(...) followed by tunnel_community.on_packet(...) expected")
    g = [t for t in guard_ifs(f.body[calls[0] + 1:deliver[0]]) if f.canon(t) != "not self.tunnel_community"]
    if len(g) != 2:
        fail(f.where, f"two drop guards between incoming_crypto and the delivery expected, found {len(g)}")
    a, b = f.bexpr(g[0]), f.bexpr(g[1])
    if "pt" in b and "pt" not in a:
        ep_early, ep_plain = a, b
    elif "pt" in a and "pt" not in b:
        ep_early, ep_plain = b, a
    else:
        fail(f.where, "cannot tell the relay_early guard from the plaintext guard")

    # ---- relay_cell --------------------------------------------------------------------------------------------------
    f = Func(CRYPTO, "PythonCryptoEndpoint", "relay_cell")
    base_atoms(f)
    nr = "self.relays[cell.circuit_id]"
    f.atoms[nr + ".rendezvous_relay"] = ("rdv", "bool")
    tries = [i for i, s in enumerate(f.body) if isinstance(s, ast.Try)]
    if len(tries) != 1:
        fail(f.where, "one try block expected")
    g = guard_ifs(f.body[:tries[0]])
    if len(g) != 2:
        fail(f.where, f"two drop guards before the try block expected, found {len(g)}")
    a, b = f.bexpr(g[0]), f.bexpr(g[1])
    if "early" in b and "early" not in a:
        rl_plain, rl_early = a, b
    elif "early" in a and "early" not in b:
        rl_plain, rl_early = b, a
    else:
        fail(f.where, "cannot tell the plaintext guard from the relay_early guard")
    tb = [s for s in f.inline([s for s in f.body[tries[0]].body if not ignorable(s)]) if not ignorable(s)]
    if len(tb) != 1 or not isinstance(tb[0], ast.If) or f.canon(tb[0].test) != nr + ".rendezvous_relay":
        fail(f.where, "try block: `if next_relay.rendezvous_relay:` expected")
    rb = [s for s in tb[0].body if not ignorable(s)]
    rc = crypto_calls(rb, f)
    this = f"self.relays[{nr}.circuit_id]"
    if [c[0] for c in rc] != ["dec", "enc"] or rc[0][2] != nr + ".hop" or rc[1][2] != this + ".hop":
        fail(f.where, "rendezvous branch: decrypt with next_relay.hop, then encrypt with this_relay.hop expected")
    rdv_dec, rdv_enc = f.direction(rc[0][1]), f.direction(rc[1][1])
    clears = any(ast.unparse(s) == "cell.relay_early = False" for s in rb)
    eb = [s for s in tb[0].orelse if not ignorable(s) and not isinstance(s, ast.Assign)]
    if len(eb) != 1 or not isinstance(eb[0], ast.If):
        fail(f.where, "plain relay branch: if direction == FORWARD ... elif direction == BACKWARD ... expected")
    relay_op = {}
    for test, body in chain(eb[0]):
        if test is None:
            fail(f.where, "unexpected else in the direction chain")
        t = f.canon(test)
        m = re.fullmatch(re.escape(nr) + r"\.direction == (FORWARD|BACKWARD)", t)
        cc = crypto_calls(body, f)
        if not m or len(cc) != 1 or cc[0][2] != nr + ".hop" or f.canon(cc[0][1]) != nr + ".direction":
            fail(f.where, f"direction branch `{t}`")
        relay_op[m.group(1)] = ".dec" if cc[0][0] == "dec" else ".enc"

    # ---- send_cell ---------------------------------------------------------------------------------------------------
    f = Func(CRYPTO, "PythonCryptoEndpoint", "send_cell", cell_param=2)
    base_atoms(f)
    early_assign = [s for s in ast.walk(f.fn) if isinstance(s, ast.Assign) and f.canon(s.targets[0]) == "cell.relay_early"]
    own = [s for s in f.body if isinstance(s, ast.If) and f.canon(s.test) == CIRC]
    if len(early_assign) != 1 or len(own) != 1 or early_assign[0] not in own[0].body:
        fail(f.where, "`if circuit: cell.relay_early = ...` expected")
    send_early = f.bexpr(early_assign[0].value)

    # ---- encrypt_cell / decrypt_cell ---------------------------------------------------------------------------------
    orders = {}
    for name in ("encrypt_cell", "decrypt_cell"):
        f = Func(CRYPTO, "PythonCryptoEndpoint", name)
        skip = bool(f.body) and isinstance(f.body[0], ast.If) and f.canon(f.body[0].test) == "cell.plaintext" \
            and len(f.body[0].body) == 1 and isinstance(f.body[0].body[0], ast.Return)
        loops = [s for s in f.body if isinstance(s, ast.For)]
        if len(loops) != 1:
            fail(f.where, "one for loop over the hops expected")
        itn = loops[0].iter
        if isinstance(itn, ast.Call) and ast.unparse(itn.func) == "enumerate" and itn.args:
            itn = itn.args[0]           # enumerate(x) / enumerate(x, start=k): the counter only numbers the layers in messages
        it = ast.unparse(itn)
        hops = f.fn.args.vararg.arg if f.fn.args.vararg else None
        if it == f"reversed({hops})":
            rev = True
        elif it == hops:
            rev = False
        else:
            fail(f.where, f"loop over `{it}`")
        meth = "encrypt_str" if name == "encrypt_cell" else "decrypt_str"
        if not re.search(r"cell\.message = \w+\.keys\." + meth + r"\(cell\.message, " + f.fn.args.args[2].arg + r"\)", ast.unparse(loops[0])):
            fail(f.where, f"`cell.message = hop.keys.{meth}(cell.message, direction)` expected in the loop")
        orders[name] = (skip, rev)

    # ---- on_data -----------------------------------------------------------------------------------------------------
    f = Func(COMMUNITY, "TunnelCommunity", "on_data", cell_param=None)
    circ = "self.circuits.get(self.serializer.unpack_serializable(DataPayload, data, offset=23)[0].circuit_id)"
    top = [s for s in normalize_returns(f.body) if isinstance(s, ast.If) and s.orelse]
    if len(top) != 1:
        fail(f.where, "one if/else (own circuit / exit) expected")
    # vocabulary of the own-circuit guard: resolve `circuit`, `origin`, `sock_addr` textually
    cname = next((k for k, v in f.locals.items() if ast.unparse(v).startswith("self.circuits.get(")), None)
    oname = next((k for k, v in f.locals.items() if ast.unparse(v).endswith(".org_address")), None)
    sname = f.fn.args.args[1].arg
    if not cname or not oname:
        fail(f.where, "locals for the circuit and the origin not found")
    f.locals = {k: v for k, v in f.locals.items() if k not in (cname, oname, "data")}
    f.atoms = {cname: ("hasCircuit", "bool"), oname: ("originSet", "bool"),
               f"{sname} == {cname}.hop.address": ("fromFirstHop", "bool"), f"{cname}.hop.address == {sname}": ("fromFirstHop", "bool"),
               f"{sname}[0] == {cname}.hop.address[0]": ("sameIp", "bool"), f"{cname}.hop.address[0] == {sname}[0]": ("sameIp", "bool"),
               f"{cname}.ctype": ("ct", "ctype"), "DataChecker.could_be_ipv8(data)": ("isIpv8", "bool"),
               "self._prefix == data[:22]": ("ownPrefix", "bool"), "data[:22] == self._prefix": ("ownPrefix", "bool"),
               "data[22]": ("msgId", "nat")}
    gt = f.bt(top[0].test)
    own_body = top[0].body
    if gt[0] == "not":                      # written exit-branch first: `if not <own circuit>: ... return` + the own-circuit code
        gt, own_body = gt[1], top[0].orelse
    own_guard = render(gt)
    e2e_def = next((v for k, v in f.locals.items() if ast.unparse(v).startswith(f"{cname}.ctype in")), None)
    if e2e_def is None or not isinstance(e2e_def, ast.Compare) or not isinstance(e2e_def.comparators[0], (ast.List, ast.Tuple)):
        fail(f.where, "`e2e_data = circuit.ctype in [...]` expected")
    e2e_types = []
    for e in e2e_def.comparators[0].elts:
        if not (isinstance(e, ast.Name) and e.id in CTYPES):
            fail(f.where, f"e2e type `{ast.unparse(e)}`")
        e2e_types.append(CTYPES[e.id])
    ename = next(k for k, v in f.locals.items() if v is e2e_def)
    f.atoms[ename] = ("e2e", "bool")
    del f.locals[ename]
    div = [s for s in own_body if isinstance(s, ast.If)]
    if len(div) != 1:
        fail(f.where, "own-circuit branch: one `if could_be_ipv8 and not e2e` expected")
    divert = f.bexpr(div[0].test)
    own_pfx = [s for s in div[0].body if isinstance(s, ast.If)]
    if not own_pfx or f.bexpr(own_pfx[0].test) != "ownPrefix":
        fail(f.where, "`if self._prefix == data[:22]:` expected")
    rg = guard_ifs(own_pfx[0].body)
    if len(rg) != 1:
        fail(f.where, "the re-dispatch guard (`if data[22] not in self.exit_msg_ids: return`) expected")
    redispatch = f"(!{f.bexpr(rg[0])})"


    # ---- TunnelCrypto.generate_session_keys: the WHOLE shared secret (ephemeral and static half) must feed the KDF ---------------
    f = Func(CRYPTO, "TunnelCrypto", "generate_session_keys", cell_param=None)
    par = f.fn.args.args[0].arg
    rets = [s for s in f.body if isinstance(s, ast.Return)]
    if len(f.body) != 1 or len(rets) != 1:
        fail(f.where, "a single `return _generate_session_keys(<secret>)` expected")
    arg = re.fullmatch(r"_generate_session_keys\((.*)\)", ast.unparse(rets[0].value))
    if not arg:
        fail(f.where, f"`{ast.unparse(rets[0].value)}`")
    if arg.group(1) == par:
        kdf_whole = True
    elif re.fullmatch(re.escape(par) + r"\[.*\]", arg.group(1)):
        kdf_whole = False        # a slice of the secret: part of the key agreement no longer reaches the session keys
    else:
        fail(f.where, f"KDF input `{arg.group(1)}` is outside the subset")

    # ---- TunnelEndpoint.send: when does a packet go straight to the socket ------------------------------------------------------
    ENDPOINT = "ipv8/messaging/anonymization/endpoint.py"
    f = Func(ENDPOINT, "TunnelEndpoint", "send", cell_param=None)
    pk = f.fn.args.args[2].arg
    f.atoms = {f"self.settings.get({pk}[:22], False)": ("anonymized", "bool"), f"self.settings.get({pk}[:22])": ("anonymized", "bool"),
               "self.tunnel_community is None": ("(!attached)", "bool"), "self.tunnel_community is not None": ("attached", "bool"),
               "self.tunnel_community": ("attached", "bool")}
    first = [s for s in f.body if isinstance(s, ast.If)][:1]
    fb = [b for b in first[0].body if not ignorable(b)] if first else []
    if not first or first[0].orelse or len(fb) != 2 or not ast.unparse(fb[0]).startswith("self.endpoint.send(") \
            or not isinstance(fb[1], ast.Return):
        fail(f.where, "`if <not anonymized>: self.endpoint.send(address, packet); return` expected first")
    tep_direct = f.bexpr(first[0].test)
    later_direct = [s for s in ast.walk(f.fn) if isinstance(s, ast.Call) and ast.unparse(s.func) == "self.endpoint.send"]
    if len(later_direct) != 1:
        fail(f.where, "self.endpoint.send(...) outside the first guard")

    # ---- on_create: which circuit ids are refused because they are in use ------------------------------------------------------
    f = Func(COMMUNITY, "TunnelCommunity", "on_create", cell_param=None)
    pl = f.fn.args.args[2].arg
    f.atoms = {f"{pl}.circuit_id in self.circuits": ("inCircuits", "bool"), f"{pl}.circuit_id in self.relay_from_to": ("inRelays", "bool"),
               f"{pl}.circuit_id in self.exit_sockets": ("inExits", "bool")}
    in_use = None
    for t in guard_ifs(f.body):
        c = f.canon(t)
        if ".circuit_id in self." in c and "request_cache" not in c:
            in_use = f.bexpr(t)
    if in_use is None:
        fail(f.where, "the `circuit id is already in use` guard over self.circuits / relay_from_to / exit_sockets was not found")

    lst = lambda xs: "[" + ", ".join(map(str, xs)) + "]"  # noqa: E731
    src = f"""/-
  GENERATED by tools/gen_c04.py from {CRYPTO}, {COMMUNITY}, {HIDDEN}, {PAYLOAD}, {TUNNEL} — do not edit.
  The decision logic of the cell path as Lean definitions; Ipv8/C04/Model.lean is built on them.
-/
import Ipv8.C04.Base

namespace Ipv8.C04

/-! constants and tables -/
def genNoCryptoIds : List Nat := {lst(nocrypto)}
def genCellMsgId : Nat := {msg_ids.get("CellPayload")}
def genBaseExitIds : List Nat := {lst(base_ids)}
def genHiddenExitIds : List Nat := {lst(hidden_ids)}
def genE2ETypes : List CType := [{", ".join(e2e_types)}]
def genOutOrder : List Table := [{", ".join(out_order)}]
def genInOrder : List Table := [{", ".join(in_order)}]

/-! outgoing_crypto -/
@[simp] def genNoKeyToSend (pt hasCircuit hopsNonEmpty hasExit hasRelay : Bool) : Bool := {no_key}
abbrev genDirOutHs (ct : CType) : Dir := {out["hs"]}
abbrev genDirOutCircuit : Dir := {out["circuit"]}
abbrev genDirOutExit : Dir := {out["exit"]}
abbrev genDirOutRdv : Dir := {out["rdv"]}

/-! incoming_crypto -/
@[simp] def genUnknownCircuit (pt hasCircuit hasExit : Bool) : Bool := {unknown}
@[simp] def genNoKeysYet (pt hasCircuit hopsNonEmpty hasExit : Bool) : Bool := {nokeys}
abbrev genDirInExit : Dir := {inn["exit"]}
abbrev genDirInCircuit : Dir := {inn["circuit"]}
abbrev genDirInHs (ct : CType) : Dir := {inn["hs"]}

/-! process_cell -/
@[simp] def genEndpointEarlyDrop (re : Bool) (msg0 maxEarly : Nat) : Bool := {ep_early}
@[simp] def genEndpointPlaintextDrop (pt : Bool) (msg0 : Nat) : Bool := {ep_plain}

/-! relay_cell -/
@[simp] def genRelayPlaintextDrop (pt : Bool) : Bool := {rl_plain}
@[simp] def genRelayEarlyDrop (re : Bool) (early maxEarly : Nat) : Bool := {rl_early}
abbrev genDirRdvDec : Dir := {rdv_dec}
abbrev genDirRdvEnc : Dir := {rdv_enc}
abbrev genRdvClearsEarly : Bool := {"true" if clears else "false"}
abbrev genRelayOp : Dir → RelayOp
  | .fwd => {relay_op.get("FORWARD", ".nothing")}
  | .bwd => {relay_op.get("BACKWARD", ".nothing")}

/-! send_cell -/
@[simp] def genSendEarly (msg0 early maxEarly : Nat) : Bool := {send_early}

/-! encrypt_cell / decrypt_cell -/
abbrev genEncryptSkipsPlaintext : Bool := {"true" if orders["encrypt_cell"][0] else "false"}
abbrev genEncryptOutermostIsFirstHop : Bool := {"true" if orders["encrypt_cell"][1] else "false"}
abbrev genDecryptSkipsPlaintext : Bool := {"true" if orders["decrypt_cell"][0] else "false"}
abbrev genDecryptStartsAtFirstHop : Bool := {"false" if orders["decrypt_cell"][1] else "true"}

/-! on_data -/
@[simp] def genOwnCircuitData (hasCircuit originSet fromFirstHop sameIp : Bool) : Bool := {own_guard}
@[simp] def genDivert (isIpv8 e2e : Bool) : Bool := {divert}
@[simp] def genRedispatch (registered : Bool) : Bool := {redispatch}

/-! key agreement, anonymizing endpoint, circuit-id reuse -/
abbrev genKdfUsesWholeSecret : Bool := {"true" if kdf_whole else "false"}
@[simp] def genTepDirect (anonymized attached : Bool) : Bool := {tep_direct}
@[simp] def genCreateInUse (inCircuits inRelays inExits : Bool) : Bool := {in_use}

end Ipv8.C04
"""
    info.update({"no_crypto_ids": nocrypto, "base_exit_ids": base_ids, "hidden_exit_ids": hidden_ids, "out_order": out_order,
                 "in_order": in_order})
    return src, info


if __name__ == "__main__":
    print(translate()[0])
