"""
Translator: ipv8/messaging/anonymization/crypto.py (TunnelCrypto key agreement)  ->  lean/Ipv8/C08/GenCrypto.lean

Translated on every run (Python AST -> Lean terms over the symbolic crypto interface of Ipv8/C08/Crypto.lean):

  TunnelCrypto.generate_diffie_shared_secret(self, dh_received, key=None)      -> genSharedSecret
  TunnelCrypto.verify_and_generate_shared_secret(dh_secret, dh_received, auth, b) -> genVerify

Supported subset (anything else raises TranslatorError and is handled like a broken proof):
  * an optional docstring;
  * the two default-key guards `if key is None: key = self.key` / `if key is None: raise CryptoException` (dropped: the
    model always passes the node's own key);
  * `name = OpenSSLSK.generate("curve25519")`            -> the fresh ephemeral becomes a parameter of the Lean function;
  * `name = <expr>` with <expr> built from
        a.diffie_hellman(b)      -> dhOf a b           (one 32-byte block; the harness checks the 32 at run time)
        a + b                    -> (a ++ b)           (bytes concatenation)
        a[:32]                   -> first32 a
        a.get_crypt_pk()         -> pubOf a
        crypto_auth(k, m)        -> C.mac k m
        crypto_auth_verify(t,k,m)-> decide (t = C.mac k m)       (HMAC verification = recompute and compare)
        parenthesised expressions, local names, parameters;
  * `if not <expr>: raise CryptoException`               -> `if !(<expr>) then none else …`
  * a final `return <expr>` or `return a, b, c`.

Also extracted (checked constants): the field names/formats of Create/Created/Extend/Extended payloads, NO_CRYPTO_PACKETS,
and circuit_timeout // next_hop_timeout (the initial number of tries).
"""
from __future__ import annotations

import ast

from vlib import REPO, TranslatorError

SRC = "ipv8/messaging/anonymization/crypto.py"
PAYLOAD_SRC = "ipv8/messaging/anonymization/payload.py"
COMMUNITY_SRC = "ipv8/messaging/anonymization/community.py"


def camel(name: str) -> str:
    parts = name.split("_")
    return parts[0] + "".join(p.capitalize() for p in parts[1:])


def _expr(e, env: set[str]) -> str:
    if isinstance(e, ast.Name):
        if e.id not in env:
            raise TranslatorError(f"unknown name {e.id}")
        return camel(e.id)
    if isinstance(e, ast.BinOp) and isinstance(e.op, ast.Add):
        return f"({_expr(e.left, env)} ++ {_expr(e.right, env)})"
    if isinstance(e, ast.Subscript):
        s = e.slice
        if isinstance(s, ast.Slice) and s.lower is None and s.step is None and isinstance(s.upper, ast.Constant) \
                and s.upper.value == 32:
            return f"(first32 {_expr(e.value, env)})"
        raise TranslatorError(f"unsupported subscript: {ast.unparse(e)}")
    if isinstance(e, ast.Call):
        f = e.func
        if e.keywords:
            raise TranslatorError(f"keyword arguments in {ast.unparse(e)}")
        if isinstance(f, ast.Attribute) and f.attr == "diffie_hellman" and len(e.args) == 1:
            return f"(dhOf {_expr(f.value, env)} {_expr(e.args[0], env)})"
        if isinstance(f, ast.Attribute) and f.attr == "get_crypt_pk" and not e.args:
            return f"(pubOf {_expr(f.value, env)})"
        if isinstance(f, ast.Name) and f.id == "crypto_auth" and len(e.args) == 2:
            return f"(C.mac {_expr(e.args[0], env)} {_expr(e.args[1], env)})"
        if isinstance(f, ast.Name) and f.id == "crypto_auth_verify" and len(e.args) == 3:
            return f"(decide ({_expr(e.args[0], env)} = C.mac {_expr(e.args[1], env)} {_expr(e.args[2], env)}))"
    raise TranslatorError(f"unsupported expression: {ast.unparse(e)[:120]}")


def _is_none_guard(st) -> str | None:
    """`if key is None: key = self.key`  or  `if key is None: raise CryptoException`"""
    if isinstance(st, ast.If) and not st.orelse and isinstance(st.test, ast.Compare) and len(st.test.ops) == 1 \
            and isinstance(st.test.ops[0], ast.Is) and isinstance(st.test.left, ast.Name) \
            and isinstance(st.test.comparators[0], ast.Constant) and st.test.comparators[0].value is None \
            and len(st.body) == 1:
        b = st.body[0]
        if isinstance(b, ast.Assign) and ast.unparse(b) == f"{st.test.left.id} = self.{st.test.left.id}":
            return "default"
        if isinstance(b, ast.Raise):
            return "raise"
    return None


def _body(fn: ast.FunctionDef, params: list[str], fallible: bool) -> tuple[str, list[str]]:
    """returns (lean term, fresh-ephemeral parameter names)"""
    env = set(params)
    fresh: list[str] = []
    stmts = list(fn.body)
    if stmts and isinstance(stmts[0], ast.Expr) and isinstance(stmts[0].value, ast.Constant):
        stmts = stmts[1:]
    lines: list[str] = []
    closed = False
    for st in stmts:
        if closed:
            raise TranslatorError(f"{fn.name}: statement after return")
        if _is_none_guard(st):
            continue
        if isinstance(st, ast.Assign) and len(st.targets) == 1 and isinstance(st.targets[0], ast.Name):
            tgt = st.targets[0].id
            if ast.unparse(st.value) in ("OpenSSLSK.generate('curve25519')",):
                fresh.append(tgt)
                env.add(tgt)
                continue
            lines.append(f"  let {camel(tgt)} := {_expr(st.value, env)}")
            env.add(tgt)
            continue
        if isinstance(st, ast.If) and not st.orelse and len(st.body) == 1 and isinstance(st.body[0], ast.Raise) \
                and isinstance(st.test, ast.UnaryOp) and isinstance(st.test.op, ast.Not):
            if not fallible:
                raise TranslatorError(f"{fn.name}: unexpected raise")
            exc = ast.unparse(st.body[0])
            if exc != "raise CryptoException":
                raise TranslatorError(f"{fn.name}: unexpected exception `{exc}`")
            lines.append(f"  if !{_expr(st.test.operand, env)} then none else")
            continue
        if isinstance(st, ast.Return) and st.value is not None:
            if isinstance(st.value, ast.Tuple):
                r = "(" + ", ".join(_expr(x, env) for x in st.value.elts) + ")"
            else:
                r = _expr(st.value, env)
            lines.append(f"  some {r}" if fallible else f"  {r}")
            closed = True
            continue
        raise TranslatorError(f"{fn.name}: unsupported statement `{ast.unparse(st)[:100]}`")
    if not closed:
        raise TranslatorError(f"{fn.name}: no return")
    return "\n".join(lines), fresh


# ---- acceptance guards of on_created / on_extended (community.py) ---------------------------------------------------
# Supported: the handlers' statement lists with `if` statements whose tests are built from and / or / not and the atoms
#   <cache var> | <cache var> is [not] None                       -> hasCache      (cache var = RetryRequestCache lookup)
#   <request var> | <request var> is [not] None                   -> hasRequest    (request var = CreateRequestCache lookup)
#   <cache var>.packet_identifier ==/!= payload.identifier        -> identEq       (either operand order)
#   <request var>.to_circuit_id ==/!= circuit_id|payload.circuit_id -> toCidEq
# Control flow is normalised: `if c: A; return` + B, `if c: A else: B`, and the De-Morgan-inverted guard clause
# `if not c: B; return` + A all yield the same path conditions; the relay branch is located by the statement that pops the
# CreateRequestCache.
# The path condition under which `self._ours_on_created_extended(...)` is reached (and, for on_created, the test of the
# `if` that builds the RelayRoutes) is emitted as a Lean Bool function.  Anything else in a test -> TranslatorError.
def _lookup_vars(fn: ast.FunctionDef) -> dict[str, str]:
    """local names bound to request_cache.get/pop(RetryRequestCache|CreateRequestCache, ...)"""
    out = {}
    for st in ast.walk(fn):
        if isinstance(st, ast.Assign) and len(st.targets) == 1 and isinstance(st.targets[0], ast.Name) \
                and isinstance(st.value, ast.Call) and isinstance(st.value.func, ast.Attribute) \
                and st.value.func.attr in ("get", "pop") and "request_cache" in ast.unparse(st.value.func.value) \
                and st.value.args and isinstance(st.value.args[0], ast.Name):
            kind = {"RetryRequestCache": "cache", "CreateRequestCache": "request"}.get(st.value.args[0].id)
            if kind:
                out.setdefault(st.targets[0].id, kind)
    return out


def _guard(e, vars_: dict[str, str]) -> str:
    if isinstance(e, ast.BoolOp):
        op = " && " if isinstance(e.op, ast.And) else " || "
        return "(" + op.join(_guard(v, vars_) for v in e.values) + ")"
    if isinstance(e, ast.UnaryOp) and isinstance(e.op, ast.Not):
        return f"(!{_guard(e.operand, vars_)})"
    has = {"cache": "hasCache", "request": "hasRequest"}
    if isinstance(e, ast.Name) and e.id in vars_:
        return has[vars_[e.id]]
    if isinstance(e, ast.Compare) and len(e.ops) == 1:
        l, r, op = e.left, e.comparators[0], e.ops[0]
        if isinstance(l, ast.Name) and l.id in vars_ and isinstance(r, ast.Constant) and r.value is None \
                and isinstance(op, (ast.Is, ast.IsNot)):
            return has[vars_[l.id]] if isinstance(op, ast.IsNot) else f"(!{has[vars_[l.id]]})"
        if isinstance(op, (ast.Eq, ast.NotEq)):
            def norm(x):
                u = ast.unparse(x)
                if isinstance(x, ast.Attribute) and isinstance(x.value, ast.Name) and x.value.id in vars_:
                    return f"<{vars_[x.value.id]}>.{x.attr}"
                return {"payload.circuit_id": "circuit_id"}.get(u, u)
            pair = {norm(l), norm(r)}
            atom = {frozenset({"<cache>.packet_identifier", "payload.identifier"}): "identEq",
                    frozenset({"<request>.to_circuit_id", "circuit_id"}): "toCidEq"}.get(frozenset(pair))
            if atom:
                return atom if isinstance(op, ast.Eq) else f"(!{atom})"
    raise TranslatorError(f"unsupported guard expression: {ast.unparse(e)[:120]}")


def _contains_call(stmts, pred) -> bool:
    return any(isinstance(n, ast.Call) and pred(n) for st in stmts for n in ast.walk(st))


def _path_condition(stmts, pred, vars_) -> list[str] | None:
    """conjuncts under which a call satisfying `pred` is reached (None if it is not in `stmts`)"""
    pre: list[str] = []
    for st in stmts:
        if isinstance(st, ast.If):
            if _contains_call(st.body, pred):
                inner = _path_condition(st.body, pred, vars_)
                return pre + [_guard(st.test, vars_)] + (inner or [])
            if _contains_call(st.orelse, pred):
                inner = _path_condition(st.orelse, pred, vars_)
                return pre + [f"(!{_guard(st.test, vars_)})"] + (inner or [])
            if st.body and isinstance(st.body[-1], ast.Return) and not st.orelse:
                try:
                    pre.append(f"(!{_guard(st.test, vars_)})")
                except TranslatorError:
                    # an early return on something the model does not look at (none exists today)
                    raise
            continue
        if _contains_call([st], pred):
            return pre
    return None


def _is_ours(n: ast.Call) -> bool:
    return isinstance(n.func, ast.Attribute) and n.func.attr == "_ours_on_created_extended"


def _is_pop_create(n: ast.Call) -> bool:
    return isinstance(n.func, ast.Attribute) and n.func.attr == "pop" and "request_cache" in ast.unparse(n.func.value) \
        and bool(n.args) and isinstance(n.args[0], ast.Name) and n.args[0].id == "CreateRequestCache"


def _is_relayroute(n: ast.Call) -> bool:
    return isinstance(n.func, ast.Name) and n.func.id == "RelayRoute"


def translate_guards(ctree) -> str:
    cls = next((n for n in ctree.body if isinstance(n, ast.ClassDef) and n.name == "TunnelCommunity"), None)
    if cls is None:
        raise TranslatorError("class TunnelCommunity not found")
    fns = {n.name: n for n in cls.body if isinstance(n, (ast.FunctionDef, ast.AsyncFunctionDef))}
    for name in ("on_created", "on_extended", "_ours_on_created_extended"):
        if name not in fns:
            raise TranslatorError(f"TunnelCommunity.{name} not found")
    cr, ex = fns["on_created"], fns["on_extended"]
    vcr, vex = _lookup_vars(cr), _lookup_vars(ex)
    if sorted(vcr.values()) != ["cache", "request"] or list(vex.values()) != ["cache"]:
        raise TranslatorError(f"unexpected request-cache lookups in on_created/on_extended: {vcr} / {vex}")
    created_accepts = _path_condition(cr.body, _is_ours, vcr)
    extended_accepts = _path_condition(ex.body, _is_ours, vex)
    if created_accepts is None or extended_accepts is None:
        raise TranslatorError("_ours_on_created_extended is not called from on_created / on_extended")
    # entry of the relay branch = the statement that consumes the pending extend (`request_cache.pop(CreateRequestCache, …)`);
    # its path condition is the pairing test whether the branch is written as `if pairs: RELAY; return` followed by OURS
    # or, De-Morgan-inverted, as the guard clause `if not pairs: OURS; return` followed by RELAY at the top level
    if not _contains_call(cr.body, _is_relayroute):
        raise TranslatorError("relay branch (RelayRoute construction) not found in on_created")
    pconj = _path_condition(cr.body, _is_pop_create, vcr)
    if pconj is None:
        # no explicit pop: fall back to the test of the `if` that builds the RelayRoutes
        for st in cr.body:
            if isinstance(st, ast.If) and _contains_call(st.body, _is_relayroute):
                pconj = [_guard(st.test, vcr)]
    if not pconj:
        raise TranslatorError("relay branch of on_created: pairing test not found (no guarded pop of the "
                              "CreateRequestCache and no `if` around the RelayRoute construction)")
    pairs = " && ".join(pconj)
    # which static key the originator binds: the arguments of the verify call in _ours_on_created_extended
    ours = fns["_ours_on_created_extended"]
    alias = {}
    for st in ours.body:
        if isinstance(st, ast.Assign) and len(st.targets) == 1 and isinstance(st.targets[0], ast.Name):
            alias[st.targets[0].id] = ast.unparse(st.value)
    calls = [n for n in ast.walk(ours) if isinstance(n, ast.Call) and isinstance(n.func, ast.Attribute)
             and n.func.attr == "verify_and_generate_shared_secret"]
    if len(calls) != 1 or len(calls[0].args) != 4 or calls[0].keywords:
        raise TranslatorError("_ours_on_created_extended: expected one positional call of verify_and_generate_shared_secret")

    def resolve(a):
        u = ast.unparse(a)
        for _ in range(8):                      # follow local aliases: hop -> pending_hop -> circuit.unverified_hop -> ...
            root = u.split(".", 1)
            if root[0] not in alias:
                break
            u = alias[root[0]] + ("." + root[1] if len(root) > 1 else "")
        return u
    got = [resolve(a) for a in calls[0].args]
    want = ["self.circuits[circuit_id].unverified_hop.dh_secret", "payload.key", "payload.auth",
            "self.circuits[circuit_id].unverified_hop.peer.public_key.get_crypt_pk()"]
    if got != want:
        raise TranslatorError(f"_ours_on_created_extended verifies with {got}; the model binds {want}")

    def conj(cs):
        return " && ".join(cs) if cs else "true"
    return f"""
/-! ### acceptance guards, translated from community.py (on_created / on_extended) -/

/-- on_created: test of the relay branch (the CREATED completes a pending extend of this node) -/
def genCreatedPairs (hasRequest toCidEq : Bool) : Bool :=
  {pairs}

/-- on_created: path condition under which `_ours_on_created_extended` is called -/
def genCreatedAccepts (hasRequest toCidEq hasCache identEq : Bool) : Bool :=
  {conj(created_accepts)}

/-- on_extended: path condition under which `_ours_on_created_extended` is called -/
def genExtendedAccepts (hasCache identEq : Bool) : Bool :=
  {conj(extended_accepts)}
"""


def _class_list(tree, cls_name: str, attr: str):
    cls = next((n for n in tree.body if isinstance(n, ast.ClassDef) and n.name == cls_name), None)
    if cls is None:
        raise TranslatorError(f"class {cls_name} not found")
    for st in cls.body:
        if isinstance(st, ast.Assign) and isinstance(st.targets[0], ast.Name) and st.targets[0].id == attr:
            return ast.literal_eval(st.value)
    raise TranslatorError(f"{cls_name}.{attr} not found")


def translate() -> tuple[str, dict]:
    tree = ast.parse((REPO / SRC).read_text())
    cls = next((n for n in tree.body if isinstance(n, ast.ClassDef) and n.name == "TunnelCrypto"), None)
    if cls is None:
        raise TranslatorError("class TunnelCrypto not found")
    fns = {n.name: n for n in cls.body if isinstance(n, ast.FunctionDef)}
    gen = fns.get("generate_diffie_shared_secret")
    ver = fns.get("verify_and_generate_shared_secret")
    if gen is None or ver is None:
        raise TranslatorError("key agreement functions not found")
    gparams = [a.arg for a in gen.args.args]
    if gparams != ["self", "dh_received", "key"]:
        raise TranslatorError(f"generate_diffie_shared_secret parameters {gparams}")
    vparams = [a.arg for a in ver.args.args]
    if vparams != ["dh_secret", "dh_received", "auth", "b"]:
        raise TranslatorError(f"verify_and_generate_shared_secret parameters {vparams}")
    gbody, gfresh = _body(gen, ["dh_received", "key"], fallible=False)
    if len(gfresh) != 1:
        raise TranslatorError(f"generate_diffie_shared_secret: expected one fresh ephemeral, found {gfresh}")
    vbody, vfresh = _body(ver, vparams, fallible=True)
    if vfresh:
        raise TranslatorError("verify_and_generate_shared_secret generates a key")
    # return arity of the responder function: (shared_secret, crypt_pk, auth)
    ret = [s for s in ast.walk(gen) if isinstance(s, ast.Return)]
    if len(ret) != 1 or not isinstance(ret[0].value, ast.Tuple) or len(ret[0].value.elts) != 3:
        raise TranslatorError("generate_diffie_shared_secret must return a 3-tuple")

    # payload layouts + constants
    ptree = ast.parse((REPO / PAYLOAD_SRC).read_text())
    layouts = {}
    for name in ("CreatePayload", "CreatedPayload", "ExtendPayload", "ExtendedPayload"):
        layouts[name] = (_class_list(ptree, name, "msg_id"), _class_list(ptree, name, "names"),
                         _class_list(ptree, name, "format_list"))
    expect = {
        "CreatePayload": (2, ["circuit_id", "identifier", "node_public_key", "key"], ["I", "H", "varlenH", "varlenH"]),
        "CreatedPayload": (3, ["circuit_id", "identifier", "key", "auth", "candidates_enc"],
                           ["I", "H", "varlenH", "32s", "raw"]),
        "ExtendPayload": (4, ["circuit_id", "identifier", "node_public_key", "key", "node_addr"],
                          ["I", "H", "varlenH", "varlenH", "ip_address"]),
        "ExtendedPayload": (5, ["circuit_id", "identifier", "key", "auth", "candidates_enc"],
                            ["I", "H", "varlenH", "32s", "raw"]),
    }
    for k, v in expect.items():
        if layouts[k] != v:
            raise TranslatorError(f"{k} layout changed: {layouts[k]} (model and harness assume {v})")
    ctree = ast.parse((REPO / COMMUNITY_SRC).read_text())
    ct = _class_list(ctree, "TunnelSettings", "circuit_timeout")
    nh = _class_list(ctree, "TunnelSettings", "next_hop_timeout")
    if not (isinstance(ct, int) and isinstance(nh, int) and nh > 0):
        raise TranslatorError("circuit_timeout / next_hop_timeout are not positive integer literals")

    guards = translate_guards(ctree)
    # NO_CRYPTO_PACKETS: the message ids that may travel as plaintext cells (everything else must arrive onion-encrypted)
    nocrypto = None
    for st in ptree.body:
        if isinstance(st, ast.Assign) and isinstance(st.targets[0], ast.Name) and st.targets[0].id == "NO_CRYPTO_PACKETS":
            if not isinstance(st.value, ast.List):
                raise TranslatorError("NO_CRYPTO_PACKETS is not a list literal")
            ids = []
            for el in st.value.elts:
                u = ast.unparse(el)
                if isinstance(el, ast.Constant) and isinstance(el.value, int):
                    ids.append(el.value)
                elif u.endswith(".msg_id") and u[:-7] in layouts:
                    ids.append(layouts[u[:-7]][0])
                else:
                    raise TranslatorError(f"NO_CRYPTO_PACKETS entry not understood: {u}")
            nocrypto = ids
    if nocrypto is None:
        raise TranslatorError("NO_CRYPTO_PACKETS not found in payload.py")
    msgids = {k: v[0] for k, v in layouts.items()}
    fresh = camel(gfresh[0])
    out = f"""/-
  GENERATED by tools/gen_c08.py from {SRC} — do not edit.
  TunnelCrypto.generate_diffie_shared_secret / verify_and_generate_shared_secret as Lean terms over the
  symbolic crypto interface (Ipv8/C08/Crypto.lean).
-/
import Ipv8.C08.Crypto

namespace Ipv8.C08

variable {{Tag Sess Blob : Type}}

/-- responder side: `{fresh}` is the fresh ephemeral (`OpenSSLSK.generate`), `key` the node's static key;
    returns (shared_secret, crypt_pk, auth) -/
def genSharedSecret (C : Crypto Tag Sess Blob) ({fresh} : Key) (key : Key) (dhReceived : Wire) :
    Secret × Wire × Tag :=
{gbody}

/-- originator side: `none` = CryptoException -/
def genVerify [DecidableEq Tag] (C : Crypto Tag Sess Blob) (dhSecret : Key) (dhReceived : Wire) (auth : Tag)
    (b : Wire) : Option Secret :=
{vbody}

/-- settings.circuit_timeout // settings.next_hop_timeout : tries for a new circuit -/
def genInitialTries : Int := {ct // nh}

/-- payload.NO_CRYPTO_PACKETS: message ids that are allowed to arrive as plaintext cells -/
def genNoCryptoPackets : List Nat := {nocrypto}

/-- msg_id of Create / Created / Extend / Extended payloads -/
def genMsgIdCreate : Nat := {msgids["CreatePayload"]}
def genMsgIdCreated : Nat := {msgids["CreatedPayload"]}
def genMsgIdExtend : Nat := {msgids["ExtendPayload"]}
def genMsgIdExtended : Nat := {msgids["ExtendedPayload"]}
{guards}
end Ipv8.C08
"""
    return out, {"circuit_timeout": ct, "next_hop_timeout": nh}


if __name__ == "__main__":
    print(translate()[0])
