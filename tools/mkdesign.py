"""Splice design.d/*.md (per-property implementation notes written by the builders) into DESIGN.md between markers."""
from pathlib import Path

V = Path(__file__).resolve().parent.parent
BEGIN = "<!-- BEGIN per-property implementation notes (generated from design.d by tools/mkdesign.py) -->"
END = "<!-- END per-property implementation notes -->"
d = (V / "DESIGN.md").read_text()
parts = []
for f in sorted((V / "design.d").glob("C*.md")):
    body = f.read_text().strip()
    # demote headings by two levels so they nest under the appendix
    lines = []
    for ln in body.split("\n"):
        if ln.startswith("#"):
            ln = "##" + ln
        lines.append(ln)
    parts.append("\n".join(lines))
block = BEGIN + "\n\n" + "\n\n".join(parts) + "\n\n" + END
if BEGIN in d:
    pre = d[: d.index(BEGIN)]
    post = d[d.index(END) + len(END):]
    d = pre + block + post
else:
    d = d.rstrip() + "\n\n\n## Appendix F — implementation notes per property (as built)\n\n" + block + "\n"
(V / "DESIGN.md").write_text(d)
print("spliced", len(parts), "notes")
