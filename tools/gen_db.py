"""
Translator: the database layer  ->  lean/Ipv8/C19/GenDbOps.lean

Sources (read from vlib.REPO on every run):
  ipv8/attestation/identity/database.py   class IdentityDatabase   every method named insert_*
  ipv8/attestation/wallet/database.py     class AttestationsDB     every method named insert_*
  ipv8/database.py                        class Database           commit, _prepare_version, _connect
  ipv8/attestation/identity/manager.py    class PseudonymManager   __init__ (the loop that reloads the stored tokens)
  ipv8/attestation/tokentree/tree.py      class TokenTree          unchained_max_size (only if the loop uses gather_token)

Supported subset of an insert_* / commit body (anything else raises TranslatorError = broken obligation):
  docstring; `self._assert(...)`, `self._logger.<x>(...)`                      -> skipped
  assignment whose right-hand side does not mention `self.` except `self.db_name`  -> skipped (pure)
  `self.execute(<INSERT literal or f-string with {self.db_name}>, (<n bindings>))` -> exec table policy
  `self.commit()`                                                            -> callCommit
  `[cast(..., ] self._connection [)].commit()`                               -> connCommit   (Database.commit only)
  `self._pending_commits += 1`                                               -> incPending   (Database.commit only)
  `return [constant]`, falling off the end                                   -> ret
  `if <test>: ... [else: ...]`                                               -> one path per branch
        (in Database.commit the test must be `self._pending_commits`; in inserts it is opaque)
The INSERT text must be  INSERT [OR IGNORE|OR REPLACE|OR ABORT] INTO <table> (<cols>) VALUES(?,...,?)  with as many
placeholders and bindings as columns.

The schema is obtained by *running* get_schema(LATEST_DB_VERSION) of each class on an unopened instance
(string formatting only) and classifying each statement of the script; primary keys and columns are parsed from the
CREATE TABLE texts.  `_prepare_version`: the exception classes caught around the version-row read are listed.
"""
from __future__ import annotations

import ast
import re
import sqlite3
from pathlib import Path

from vlib import REPO, TranslatorError

SOURCES = [("ipv8/attestation/identity/database.py", "IdentityDatabase"),
           ("ipv8/attestation/wallet/database.py", "AttestationsDB")]
BASE = "ipv8/database.py"
WALLET_TABLE = "<db_name>"      # AttestationsDB's table is named by the constructor argument

INSERT_RE = re.compile(r"^\s*INSERT(?:\s+OR\s+(IGNORE|REPLACE|ABORT))?\s+INTO\s+(\S+)\s*\(([^)]*)\)\s*"
                       r"VALUES\s*\(([?,\s]*)\)\s*;?\s*$", re.I | re.S)
CREATE_RE = re.compile(r"^\s*CREATE\s+TABLE\s+IF\s+NOT\s+EXISTS\s+(\S+?)\s*\((.*)\)\s*;?\s*$", re.I | re.S)


def _is_self_attr(e, attr=None) -> bool:
    return (isinstance(e, ast.Attribute) and isinstance(e.value, ast.Name) and e.value.id == "self"
            and (attr is None or e.attr == attr))


def _mentions_self(e) -> bool:
    for n in ast.walk(e):
        if isinstance(n, ast.Name) and n.id == "self":
            return True
    return False


def _mentions_self_other_than_db_name(e) -> bool:
    for n in ast.walk(e):
        if isinstance(n, ast.Attribute) and isinstance(n.value, ast.Name) and n.value.id == "self" \
                and n.attr != "db_name":
            return True
        if isinstance(n, ast.Name) and n.id == "self":
            # bare `self` passed somewhere: only fine as the value of an Attribute handled above
            pass
    # a bare `self` (not as attribute base) is suspicious
    bases = {id(n.value) for n in ast.walk(e) if isinstance(n, ast.Attribute)}
    for n in ast.walk(e):
        if isinstance(n, ast.Name) and n.id == "self" and id(n) not in bases:
            return True
    return False


def _sql_text(e) -> str:
    """literal SQL of a Constant / implicit concatenation / f-string whose only hole is self.db_name"""
    if isinstance(e, ast.Constant) and isinstance(e.value, str):
        return e.value
    if isinstance(e, ast.JoinedStr):
        out = []
        for v in e.values:
            if isinstance(v, ast.Constant) and isinstance(v.value, str):
                out.append(v.value)
            elif isinstance(v, ast.FormattedValue) and _is_self_attr(v.value, "db_name") and v.format_spec is None \
                    and v.conversion == -1:
                out.append(WALLET_TABLE)
            else:
                raise TranslatorError(f"unsupported hole in SQL f-string: {ast.unparse(v)[:60]}")
        return "".join(out)
    if isinstance(e, ast.BinOp) and isinstance(e.op, ast.Add):
        return _sql_text(e.left) + _sql_text(e.right)
    raise TranslatorError(f"SQL statement is not a literal: {ast.unparse(e)[:80]}")


class Tr:
    """one translation run; interns table / column / class / method names as small numbers"""

    def __init__(self):
        self.tables: list[str] = []
        self.columns: list[str] = []
        self.classes: list[str] = []
        self.methods: list[str] = []
        self.helpers: dict = {}       # private methods (name -> FunctionDef) a translated body may call as self._x()
        self.inlining: list[str] = []

    def tid(self, name: str) -> int:
        if name not in self.tables:
            self.tables.append(name)
        return self.tables.index(name)

    def cid(self, name: str) -> int:
        if name not in self.columns:
            self.columns.append(name)
        return self.columns.index(name)

    # ---- statements -> paths -------------------------------------------------------------------------
    def stmt_paths(self, body: list, where: str, in_commit: bool, info: dict) -> list[tuple[list, bool]]:
        """returns [(ops, finished)] : all control-flow paths through `body`; finished = ended by return"""
        paths: list[tuple[list, bool]] = [([], False)]
        for st in body:
            new: list[tuple[list, bool]] = []
            live = [(ops, fin) for ops, fin in paths if not fin]
            done = [(ops, fin) for ops, fin in paths if fin]
            if not live:
                break
            alts = self.one_stmt(st, where, in_commit, info)      # list of (ops, finished)
            for ops, _ in live:
                for aops, afin in alts:
                    new.append((ops + aops, afin))
            paths = done + new
            if len(paths) > 16:
                raise TranslatorError(f"{where}: more than 16 control-flow paths")
        return paths

    def one_stmt(self, st, where: str, in_commit: bool, info: dict) -> list[tuple[list, bool]]:
        if isinstance(st, ast.Expr) and isinstance(st.value, ast.Constant) and isinstance(st.value.value, str):
            return [([], False)]
        if isinstance(st, ast.Pass):
            return [([], False)]
        if isinstance(st, ast.Return):
            if st.value is not None and not isinstance(st.value, ast.Constant):
                raise TranslatorError(f"{where}: return of a non-constant: {ast.unparse(st)[:60]}")
            return [([("ret",)], True)]
        if isinstance(st, (ast.Assign, ast.AnnAssign)):
            val = st.value
            if val is None or not _mentions_self_other_than_db_name(val):
                tg = st.targets if isinstance(st, ast.Assign) else [st.target]
                if any(_mentions_self(t) for t in tg):
                    raise TranslatorError(f"{where}: assignment to an attribute of self: {ast.unparse(st)[:60]}")
                if len(tg) == 1 and isinstance(tg[0], ast.Name):
                    info.setdefault("env", {})[tg[0].id] = val          # a local may hold the SQL text / the bindings
                else:
                    for t_ in tg:
                        for nm in ast.walk(t_):
                            if isinstance(nm, ast.Name):
                                info.get("env", {}).pop(nm.id, None)
                return [([], False)]
            raise TranslatorError(f"{where}: assignment using self: {ast.unparse(st)[:80]}")
        if isinstance(st, ast.AugAssign):
            if in_commit and _is_self_attr(st.target, "_pending_commits") and isinstance(st.op, ast.Add) \
                    and isinstance(st.value, ast.Constant) and st.value.value == 1:
                return [([("incPending",)], False)]
            raise TranslatorError(f"{where}: unsupported augmented assignment {ast.unparse(st)[:60]}")
        if isinstance(st, ast.If):
            test = ast.unparse(st.test)
            if in_commit:
                if test not in ("self._pending_commits", "self._pending_commits > 0", "self._pending_commits != 0",
                                "self._pending_commits >= 1"):
                    raise TranslatorError(f"{where}: unexpected test `{test}`")
                test = "self._pending_commits"
                info.setdefault("tests", []).append(test)
                thn = self.stmt_paths(st.body, where, in_commit, info)
                els = self.stmt_paths(st.orelse, where, in_commit, info)
                return [(ops, fin, "deferred") for ops, fin in thn] + [(ops, fin, "idle") for ops, fin in els]  # type: ignore
            if _mentions_self_other_than_db_name(st.test):
                raise TranslatorError(f"{where}: branch condition uses self: `{test}`")
            info.setdefault("tests", []).append(test)
            return self.stmt_paths(st.body, where, in_commit, info) + self.stmt_paths(st.orelse, where, in_commit, info)
        if isinstance(st, ast.Expr) and isinstance(st.value, ast.Call):
            call = st.value
            f = call.func
            if isinstance(f, ast.Attribute):
                # self._assert(...), self._logger.x(...)
                if _is_self_attr(f, "_assert"):
                    return [([], False)]
                # an extracted private helper, called without arguments: its body is translated in place (so a commit
                # or an INSERT moved into a helper is still seen); a `return` inside it only ends the helper
                if _is_self_attr(f) and f.attr in self.helpers and f.attr.startswith("_") and not f.attr.startswith("__") \
                        and not call.args and not call.keywords:
                    if f.attr in self.inlining or len(self.inlining) >= 3:
                        raise TranslatorError(f"{where}: helper {f.attr} is recursive or nested too deeply")
                    self.inlining.append(f.attr)
                    try:
                        inner = self.stmt_paths(self.helpers[f.attr].body, f"{where}/{f.attr}", in_commit, info)
                    finally:
                        self.inlining.pop()
                    return [((ops[:-1] if ops and ops[-1] == ("ret",) else ops), False) for ops, _fin in inner]
                if isinstance(f.value, ast.Attribute) and _is_self_attr(f.value, "_logger"):
                    return [([], False)]
                if _is_self_attr(f, "commit"):
                    if call.args or call.keywords:
                        raise TranslatorError(f"{where}: self.commit called with arguments")
                    if in_commit:
                        raise TranslatorError(f"{where}: recursive self.commit()")
                    return [([("callCommit",)], False)]
                if _is_self_attr(f, "execute") and not in_commit:
                    return [([self.exec_op(call, where, info)], False)]
                if f.attr == "commit" and in_commit:
                    base = ast.unparse(f.value)
                    if base in ("self._connection", "cast('Connection', self._connection)",
                                'cast("Connection", self._connection)'):
                        return [([("connCommit",)], False)]
            raise TranslatorError(f"{where}: unsupported call {ast.unparse(st)[:80]}")
        raise TranslatorError(f"{where}: unsupported statement {type(st).__name__}: {ast.unparse(st)[:80]}")

    def exec_op(self, call: ast.Call, where: str, info: dict):
        if call.keywords or len(call.args) != 2:
            raise TranslatorError(f"{where}: self.execute with unexpected arguments")
        env = info.get("env", {})
        args = [env.get(a.id, a) if isinstance(a, ast.Name) else a for a in call.args]
        call = ast.Call(func=call.func, args=args, keywords=[])
        sql = _sql_text(call.args[0])
        m = INSERT_RE.match(sql)
        if not m:
            raise TranslatorError(f"{where}: not a single-row INSERT: {sql[:80]!r}")
        pol = {None: "abort", "ABORT": "abort", "IGNORE": "orIgnore", "REPLACE": "replace"}[
            m.group(1).upper() if m.group(1) else None]
        table = m.group(2)
        cols = [c.strip() for c in m.group(3).split(",") if c.strip()]
        marks = m.group(4).count("?")
        b = call.args[1]
        if not isinstance(b, ast.Tuple):
            raise TranslatorError(f"{where}: bindings are not a tuple literal")
        if not (len(cols) == marks == len(b.elts)):
            raise TranslatorError(f"{where}: {len(cols)} columns, {marks} placeholders, {len(b.elts)} bindings")
        info.setdefault("execs", []).append({"table": table, "policy": pol, "cols": cols,
                                             "bindings": [ast.unparse(x) for x in b.elts]})
        return ("exec", self.tid(table), pol)


def _class(tree, name, path):
    c = next((n for n in tree.body if isinstance(n, ast.ClassDef) and n.name == name), None)
    if c is None:
        raise TranslatorError(f"class {name} not found in {path}")
    return c


def _schema_of(clsname: str):
    """run get_schema(LATEST_DB_VERSION) of the working tree's class without opening a database"""
    import importlib
    if clsname == "IdentityDatabase":
        mod = importlib.import_module("ipv8.attestation.identity.database")
        inst = mod.IdentityDatabase(":memory:")
        return inst.get_schema(inst.LATEST_DB_VERSION), None
    mod = importlib.import_module("ipv8.attestation.wallet.database")
    cls = mod.AttestationsDB
    inst = cls.__new__(cls)
    inst.db_name = WALLET_TABLE
    return inst.get_schema(cls.LATEST_DB_VERSION), WALLET_TABLE


def split_script(script: str) -> list[str]:
    out, cur = [], ""
    for ch in script:
        cur += ch
        if ch == ";" and sqlite3.complete_statement(cur):
            if cur.strip().strip(";").strip():
                out.append(cur.strip())
            cur = ""
    if cur.strip():
        out.append(cur.strip())
    return out


def classify_schema(tr: Tr, script: str, where: str):
    stmts = split_script(script)
    res, tinfo = [], {}
    for s in stmts:
        flat = " ".join(s.split())
        m = CREATE_RE.match(s)
        if m:
            name, body = m.group(1), m.group(2)
            if name.lower() == "option":
                res.append(("createOption",))
                continue
            pkm = re.search(r"PRIMARY\s+KEY\s*\(([^)]*)\)", body, re.I)
            if not pkm:
                raise TranslatorError(f"{where}: table {name} has no PRIMARY KEY clause")
            pk = [c.strip() for c in pkm.group(1).split(",")]
            cols = []
            for line in body[:pkm.start()].split(","):
                w = line.split()
                if w:
                    cols.append(w[0])
            tinfo[name] = {"pk": pk, "cols": cols}
            res.append(("createTable", tr.tid(name)))
        elif re.match(r"^DELETE FROM option WHERE key = 'database_version';?$", flat, re.I):
            res.append(("deleteVersion",))
        elif (m2 := re.match(r"^INSERT INTO option\s*\(key, value\) VALUES\s*\('database_version', '(\d+)'\);?$", flat,
                             re.I)):
            res.append(("insertVersion", int(m2.group(1))))
        elif (m2 := re.match(r"^INSERT OR REPLACE INTO option\s*\(key, value\) VALUES\s*\('database_version', '(\d+)'\);?$",
                             flat, re.I)):
            res.append(("upsertVersion", int(m2.group(1))))
        elif (m2 := re.match(r"^UPDATE option SET value\s*=\s*'(\d+)' WHERE key\s*=\s*'database_version';?$", flat, re.I)):
            res.append(("setVersion", int(m2.group(1))))
        elif re.match(r"^ALTER TABLE \S+ ADD (COLUMN )?\w+( \w+)?;?$", flat, re.I):
            res.append(("alterAddCol",))
        elif re.match(r"^UPDATE (?!option\b)\S+ SET \w+\s*=\s*'[^']*';?$", flat, re.I):
            res.append(("fillCol",))
        elif re.match(r"^BEGIN( TRANSACTION| IMMEDIATE| EXCLUSIVE)?;?$", flat, re.I):
            res.append(("begin",))
        elif re.match(r"^(COMMIT|END)( TRANSACTION)?;?$", flat, re.I):
            res.append(("commit",))
        elif re.match(r"^CREATE (UNIQUE )?INDEX IF NOT EXISTS ", flat, re.I):
            res.append(("other",))          # re-runnable, does not touch what open() depends on
        else:
            raise TranslatorError(f"{where}: unclassified schema statement: {flat[:80]}")
    return res, tinfo


def batch_shape(base_cls) -> dict:
    """Database.__enter__: the one assignment to self._pending_commits is `max(1, self._pending_commits)` (keeps the
    count of an enclosing block) or the constant 1 (forgets it).  Database.__exit__: the counter is taken to 0 (tuple
    swap or plain assignment) before / after the `self.commit()` of the no-exception path, which is guarded by
    `pending_commits > 1` (or `>= 2`)."""
    fns = {n.name: n for n in base_cls.body if isinstance(n, ast.FunctionDef)}
    ent, ext = fns.get("__enter__"), fns.get("__exit__")
    if ent is None or ext is None:
        raise TranslatorError("Database.__enter__/__exit__ not found")
    assigns = [n for n in ast.walk(ent) if isinstance(n, ast.Assign) and any(_is_self_attr(t, "_pending_commits")
                                                                              for t in n.targets)]
    if len(assigns) != 1:
        raise TranslatorError(f"Database.__enter__: {len(assigns)} assignments to _pending_commits")
    val = ast.unparse(assigns[0].value).replace(" ", "")
    if val in ("max(1,self._pending_commits)", "max(self._pending_commits,1)"):
        keeps = True
    elif val == "1":
        keeps = False
    else:
        raise TranslatorError(f"Database.__enter__: unrecognised counter update `{val}`")
    reset_line = commit_line = None
    guard = None
    for n in ast.walk(ext):
        if isinstance(n, ast.Assign):
            src = ast.unparse(n).replace(" ", "")
            if src in ("self._pending_commits,pending_commits=(0,self._pending_commits)",
                       "self._pending_commits,pending_commits=0,self._pending_commits", "self._pending_commits=0"):
                reset_line = n.lineno if reset_line is None else min(reset_line, n.lineno)
        if isinstance(n, ast.If) and any(isinstance(x, ast.Call) and _is_self_attr(x.func, "commit")
                                         for b in n.body for x in ast.walk(b)) and "pending_commits" in ast.unparse(n.test):
            guard = ast.unparse(n.test).replace(" ", "").replace("self._", "")
            commit_line = n.lineno
    if reset_line is None or commit_line is None:
        raise TranslatorError("Database.__exit__: counter reset or guarded self.commit() not found")
    if guard not in ("pending_commits>1", "pending_commits>=2"):
        raise TranslatorError(f"Database.__exit__: unrecognised commit guard `{guard}`")
    return {"enter_keeps": keeps, "exit_resets_first": reset_line < commit_line}


def lean_stmt(s) -> str:
    return "." + s[0] + ("" if len(s) == 1 else f" {s[1]}")


def _upgrades_of(tr: Tr, clsname: str):
    """LATEST_DB_VERSION and, for every older version v, the classified get_upgrade_script(v) (run, like get_schema);
    check_database must still be the loop `while version < LATEST: executescript(get_upgrade_script(version))` followed
    by executescript(get_schema(...)) — checked textually on the unparsed source"""
    import importlib
    if clsname == "IdentityDatabase":
        mod = importlib.import_module("ipv8.attestation.identity.database")
        return int(mod.IdentityDatabase.LATEST_DB_VERSION), []
    mod = importlib.import_module("ipv8.attestation.wallet.database")
    cls = mod.AttestationsDB
    wcls = _class(ast.parse((REPO / SOURCES[1][0]).read_text()), clsname, SOURCES[1][0])
    chk = next((n for n in wcls.body if isinstance(n, ast.FunctionDef) and n.name == "check_database"), None)
    if chk is None:
        raise TranslatorError(f"{clsname}.check_database not found")
    loops = [n for n in ast.walk(chk) if isinstance(n, ast.While)]
    if len(loops) != 1 or ast.unparse(loops[0].test).replace(" ", "") != "idatabase_version<self.LATEST_DB_VERSION":
        raise TranslatorError(f"{clsname}.check_database: expected one loop `while idatabase_version < self.LATEST_DB_VERSION`")
    body = [ast.unparse(x).replace(" ", "").replace("\n", ";") for x in loops[0].body]
    want = ["upgrade_script=self.get_upgrade_script(current_version=idatabase_version)",
            "ifupgrade_script:;self.executescript(upgrade_script)", "idatabase_version+=1"]
    if body != want:
        raise TranslatorError(f"{clsname}.check_database: upgrade loop body is {body}, expected fetch script for the "
                              f"current version, run it, then step to the next version")
    tail = [ast.unparse(x).replace(" ", "") for x in chk.body if x.lineno > loops[0].end_lineno]
    if tail[:2] != ["self.executescript(self.get_schema(idatabase_version))", "self.commit()"]:
        raise TranslatorError(f"{clsname}.check_database: after the upgrades expected the schema script and a commit, got {tail[:2]}")
    inst = cls.__new__(cls)
    inst.db_name = WALLET_TABLE
    ups = []
    for v in range(1, int(cls.LATEST_DB_VERSION)):
        script = inst.get_upgrade_script(current_version=v)
        if script:
            stmts, _ = classify_schema(tr, script, f"{clsname}.get_upgrade_script({v})")
            ups.append((v, stmts))
    return int(cls.LATEST_DB_VERSION), ups


def version_handlers(base_cls) -> list[str]:
    fn = next((n for n in base_cls.body if isinstance(n, ast.FunctionDef) and n.name == "_prepare_version"), None)
    if fn is None:
        raise TranslatorError("Database._prepare_version not found")
    found = None
    for n in ast.walk(fn):
        if isinstance(n, ast.Try) and "database_version" in ast.unparse(n.body) and "next(" in ast.unparse(n.body):
            found = n
    if found is None:
        # no try around the read at all: nothing is caught
        if "database_version" not in ast.unparse(fn):
            raise TranslatorError("_prepare_version no longer reads the database_version row")
        return []
    kinds = []
    for h in found.handlers:
        # a handler that re-raises does not count as handling
        if any(isinstance(x, ast.Raise) for x in ast.walk(h)):
            continue
        names = []
        if h.type is None:
            names = ["BaseException"]
        elif isinstance(h.type, ast.Tuple):
            names = [ast.unparse(e) for e in h.type.elts]
        else:
            names = [ast.unparse(h.type)]
        for nm in names:
            nm = nm.split(".")[-1]
            if nm == "OperationalError":
                kinds.append("operationalError")
            elif nm in ("StopIteration", "Exception", "BaseException"):
                kinds.append("stopIteration")
                if nm != "StopIteration":
                    kinds.append("operationalError")
            else:
                kinds.append("other")
    return kinds


MANAGER = "ipv8/attestation/identity/manager.py"
TREE = "ipv8/attestation/tokentree/tree.py"


def reload_mode() -> tuple[str, dict]:
    """PseudonymManager.__init__: the loop over self.database.get_tokens_for(self.public_key) must have one of the two
    recognised bodies; the buffer bound is the integer literal assigned to self.unchained_max_size in TokenTree"""
    tree = ast.parse((REPO / MANAGER).read_text())
    cls = _class(tree, "PseudonymManager", MANAGER)
    init = next((n for n in cls.body if isinstance(n, ast.FunctionDef) and n.name == "__init__"), None)
    if init is None:
        raise TranslatorError("PseudonymManager.__init__ not found")
    loops = [n for n in ast.walk(init) if isinstance(n, ast.For) and "get_tokens_for" in ast.unparse(n.iter)]
    if len(loops) != 1:
        raise TranslatorError(f"PseudonymManager.__init__: {len(loops)} loops over get_tokens_for")
    loop = loops[0]
    if ast.unparse(loop.iter) != "self.database.get_tokens_for(self.public_key)" or loop.orelse \
            or not isinstance(loop.target, ast.Name):
        raise TranslatorError(f"reload loop iterates over `{ast.unparse(loop.iter)[:80]}`")
    var = loop.target.id
    if len(loop.body) == 2 and isinstance(loop.body[0], ast.Assign) and len(loop.body[0].targets) == 1 \
            and isinstance(loop.body[0].targets[0], ast.Name) \
            and ast.unparse(loop.body[0].value) == f"{var}.get_hash()":
        local = loop.body[0].targets[0].id            # h = token.get_hash(); self.tree.elements[h] = token
        body = ast.unparse(loop.body[1]).replace(f"[{local}]", f"[{var}.get_hash()]")
    elif len(loop.body) == 1:
        body = ast.unparse(loop.body[0])
    else:
        raise TranslatorError("reload loop body is not a single statement")
    if "get_credentials_for(self.public_key)" not in ast.unparse(init):
        raise TranslatorError("PseudonymManager.__init__ no longer loads the credentials")
    if body == f"self.tree.elements[{var}.get_hash()] = {var}":
        return ".direct", {"mode": "direct"}
    if body == f"self.tree.gather_token({var})":
        ttree = ast.parse((REPO / TREE).read_text())
        tcls = _class(ttree, "TokenTree", TREE)
        cap = None
        for n in ast.walk(tcls):
            if isinstance(n, ast.Assign) and len(n.targets) == 1 and _is_self_attr(n.targets[0], "unchained_max_size") \
                    and isinstance(n.value, ast.Constant) and isinstance(n.value.value, int):
                cap = n.value.value
        if cap is None:
            raise TranslatorError("TokenTree.unchained_max_size is not an integer literal")
        return f".gather {cap}", {"mode": "gather", "cap": cap}
    raise TranslatorError(f"reload loop body not recognised: {body[:80]}")


def credential_order() -> dict:
    """the order in which PseudonymManager stores the parts of a credential, read off the call sites in source order:
    add_credential: self.database.insert_token / self.store_new_tokens (tokens, table 0), self.database.insert_metadata
    (1), self.add_attestation (2; add_attestation must call self.database.insert_attestation); create_credential must
    go through add_credential; substantiate: store_new_tokens / add_metadata / add_attestation"""
    tree = ast.parse((REPO / MANAGER).read_text())
    pm = _class(tree, "PseudonymManager", MANAGER)
    im = _class(tree, "IdentityManager", MANAGER)
    fns = {n.name: n for n in pm.body if isinstance(n, ast.FunctionDef)}
    ifns = {n.name: n for n in im.body if isinstance(n, ast.FunctionDef)}
    for need in ("add_credential", "create_credential", "add_attestation", "add_metadata", "store_new_tokens"):
        if need not in fns:
            raise TranslatorError(f"PseudonymManager.{need} not found")
    if "substantiate" not in ifns:
        raise TranslatorError("IdentityManager.substantiate not found")

    def order_of(fn, table_of):
        seq = []
        for n in ast.walk(fn):
            if isinstance(n, ast.Call):
                name = ast.unparse(n.func)
                for pat, t in table_of.items():
                    if name.endswith(pat):
                        seq.append((n.lineno, n.col_offset, t))
        out = []
        for _, _, t in sorted(seq):
            if not out or out[-1] != t:
                out.append(t)
        return out
    add = order_of(fns["add_credential"], {"database.insert_token": 0, "self.store_new_tokens": 0,
                                           "database.insert_metadata": 1, "self.add_attestation": 2})
    if "self.database.insert_attestation(" not in ast.unparse(fns["add_attestation"]) or \
            "self.database.insert_metadata(" not in ast.unparse(fns["add_metadata"]) or \
            "self.database.insert_token(" not in ast.unparse(fns["store_new_tokens"]):
        raise TranslatorError("add_attestation / add_metadata / store_new_tokens no longer call the database inserts")
    if "self.add_credential(token, metadata" not in ast.unparse(fns["create_credential"]):
        raise TranslatorError("create_credential no longer stores through add_credential")
    sub = order_of(ifns["substantiate"], {"store_new_tokens": 0, ".add_metadata": 1, ".add_attestation": 2})
    return {"add_credential": add, "substantiate": sub}


def batching_callers() -> list[str]:
    """every place under ipv8/attestation (tests excluded) that opens a `with <…database>:` batch around store calls or
    calls __enter__ on a database: inside such a block insert_* returns before anything is committed"""
    out = []
    root = REPO / "ipv8" / "attestation"
    for path in sorted(root.rglob("*.py")):
        rel = str(path.relative_to(REPO))
        if "/test" in rel:
            continue
        try:
            tree = ast.parse(path.read_text())
        except SyntaxError as e:
            raise TranslatorError(f"{rel}: {e}") from e
        for n in ast.walk(tree):
            if isinstance(n, (ast.With, ast.AsyncWith)):
                for it in n.items:
                    expr = ast.unparse(it.context_expr)
                    if re.search(r"(^|\.)(database|_database|db|identity_db|attestation_db)$", expr):
                        out.append(f"{rel}:{n.lineno} with {expr}")
            if isinstance(n, ast.Call) and isinstance(n.func, ast.Attribute) and n.func.attr == "__enter__" \
                    and re.search(r"(database|db)$", ast.unparse(n.func.value)):
                out.append(f"{rel}:{n.lineno} {ast.unparse(n.func)}")
    return out


def store_users() -> dict:
    """(a) every place in the identity layer (ipv8/attestation/identity/*.py, communication_manager.py) that closes a
    database: the IdentityManager's store is shared by all loaded pseudonyms, and on a closed Database db_call turns
    execute/commit into silent no-ops; (b) AttestationCommunity.on_attestation_complete stores the proof blob and secret
    key (self.database.insert_attestation) before it runs the completion callback through which the identity overlay
    advertises the attribute"""
    closers = []
    files = sorted((REPO / "ipv8" / "attestation" / "identity").glob("*.py")) + \
        [REPO / "ipv8" / "attestation" / "communication_manager.py"]
    for path in files:
        rel = str(path.relative_to(REPO))
        for n in ast.walk(ast.parse(path.read_text())):
            if isinstance(n, ast.Call) and isinstance(n.func, ast.Attribute) and n.func.attr == "close" \
                    and re.search(r"(database|_db|\bdb)$", ast.unparse(n.func.value)):
                closers.append(f"{rel}:{n.lineno} {ast.unparse(n.func)}")
    wpath = "ipv8/attestation/wallet/community.py"
    wcls = _class(ast.parse((REPO / wpath).read_text()), "AttestationCommunity", wpath)
    fn = next((n for n in wcls.body if isinstance(n, ast.FunctionDef) and n.name == "on_attestation_complete"), None)
    if fn is None:
        raise TranslatorError("AttestationCommunity.on_attestation_complete not found")
    store = [n.lineno for n in ast.walk(fn) if isinstance(n, ast.Call)
             and ast.unparse(n.func) == "self.database.insert_attestation"]
    cb = [n.lineno for n in ast.walk(fn) if isinstance(n, ast.Call)
          and ast.unparse(n.func) == "self.attestation_request_complete_callback"]
    if len(store) != 1 or len(cb) != 1:
        raise TranslatorError(f"on_attestation_complete: {len(store)} stores / {len(cb)} callback calls")
    return {"closers": closers, "wallet_first": store[0] < cb[0]}


def lean_prim(p) -> str:
    if p[0] == "exec":
        return f".exec {p[1]} .{p[2]}"
    return "." + p[0]


def lean_list(xs) -> str:
    return "[" + ", ".join(xs) + "]"


def _join_items(items: list[str]) -> str:
    """list items carry their trailing comment after the marker @@; the separating comma goes before it"""
    out = []
    for i, it in enumerate(items):
        out.append(it.replace("@@", "," if i + 1 < len(items) else ""))
    return "\n".join(out)


def translate() -> tuple[str, dict]:
    tr = Tr()
    meta: dict = {"methods": [], "tables": {}, "schemas": {}}
    # ---- Database.commit --------------------------------------------------------------------------
    base_tree = ast.parse((REPO / BASE).read_text())
    base_cls = _class(base_tree, "Database", BASE)
    commit = next((n for n in base_cls.body if isinstance(n, ast.FunctionDef) and n.name == "commit"), None)
    if commit is None:
        raise TranslatorError("Database.commit not found")
    info: dict = {}
    raw = []
    base_helpers = {n.name: n for n in base_cls.body if isinstance(n, ast.FunctionDef)
                    and n.name.startswith("_") and not n.name.startswith("__") and not n.decorator_list
                    and [a.arg for a in n.args.args] == ["self"] and n.name != "_assert"}
    tr.helpers = dict(base_helpers)
    paths = [([], False, None)]
    for st in commit.body:
        alts = tr.one_stmt(st, "Database.commit", True, info)
        new = []
        for ops, fin, tag in paths:
            if fin:
                new.append((ops, fin, tag))
                continue
            for a in alts:
                aops, afin = a[0], a[1]
                atag = a[2] if len(a) > 2 else None
                if tag is not None and atag is not None and tag != atag:
                    continue
                new.append((ops + aops, afin, tag or atag))
        paths = new
    if info.get("tests", []).count("self._pending_commits") != 1:
        raise TranslatorError("Database.commit: expected exactly one test of self._pending_commits")
    idle = [ops + ([] if fin else [("ret",)]) for ops, fin, tag in paths if tag in ("idle", None)]
    deferred = [ops + ([] if fin else [("ret",)]) for ops, fin, tag in paths if tag in ("deferred", None)]
    if len(idle) != 1 or len(deferred) != 1:
        raise TranslatorError(f"Database.commit: {len(idle)} idle and {len(deferred)} deferred paths")
    meta["commit"] = {"idle": idle[0], "deferred": deferred[0]}
    meta["batch"] = batch_shape(base_cls)
    handlers = version_handlers(base_cls)
    meta["version_handlers"] = handlers
    # durability pragmas as written in _initial_statements (string constants handed to cursor.execute)
    ini = next((n for n in base_cls.body if isinstance(n, ast.FunctionDef) and n.name == "_initial_statements"), None)
    if ini is None:
        raise TranslatorError("Database._initial_statements not found")
    sqls = []
    # _initial_statements together with every private Database method it calls (transitively): splitting it into
    # helpers moves the PRAGMA statements, it does not remove them
    by_name = {n.name: n for n in base_cls.body if isinstance(n, ast.FunctionDef)}
    todo, seen_fns = [ini], []
    while todo:
        fn_ = todo.pop()
        if fn_ in seen_fns:
            continue
        seen_fns.append(fn_)
        for c_ in ast.walk(fn_):
            if isinstance(c_, ast.Call) and _is_self_attr(c_.func) and c_.func.attr.startswith("_") \
                    and not c_.func.attr.startswith("__") and c_.func.attr in by_name:
                todo.append(by_name[c_.func.attr])
    for call in (c for fn_ in seen_fns for c in ast.walk(fn_)):
        if isinstance(call, ast.Call) and isinstance(call.func, ast.Attribute) \
                and call.func.attr in ("execute", "executescript") and call.args \
                and isinstance(call.args[0], ast.Constant) and isinstance(call.args[0].value, str):
            sqls.append(" ".join(call.args[0].value.upper().split()))
    jm = [x for x in sqls if x.startswith("PRAGMA JOURNAL_MODE =")]
    sy = [x for x in sqls if x.startswith("PRAGMA SYNCHRONOUS =")]
    meta["pragmas"] = {"wal": jm == ["PRAGMA JOURNAL_MODE = WAL"] or
                              sorted(set(jm)) == ["PRAGMA JOURNAL_MODE = DELETE", "PRAGMA JOURNAL_MODE = WAL"],
                       "sync_normal": bool(sy) and all(x in ("PRAGMA SYNCHRONOUS = NORMAL", "PRAGMA SYNCHRONOUS = FULL",
                                                             "PRAGMA SYNCHRONOUS = 1", "PRAGMA SYNCHRONOUS = 2")
                                                       for x in sy), "journal": jm, "synchronous": sy}
    # db_call: blocking lock, call whenever the cursor exists
    dbc = next((n for n in base_tree.body if isinstance(n, ast.FunctionDef) and n.name == "db_call"), None)
    if dbc is None:
        raise TranslatorError("db_call not found")
    wrapper = next((n for n in dbc.body if isinstance(n, ast.FunctionDef)), None)
    ok = False
    wbody = list(wrapper.body) if wrapper is not None else []
    lock_local = None
    if len(wbody) == 2 and isinstance(wbody[0], ast.Assign) and len(wbody[0].targets) == 1 \
            and isinstance(wbody[0].targets[0], ast.Name) and ast.unparse(wbody[0].value) == "db_locks[self._file_path]":
        lock_local = wbody[0].targets[0].id            # lock = db_locks[self._file_path]; with lock: …
        wbody = wbody[1:]
    if len(wbody) == 1 and isinstance(wbody[0], ast.With):
        w = wbody[0]
        item = ast.unparse(w.items[0].context_expr) if len(w.items) == 1 else ""
        if lock_local is not None and item == lock_local:
            item = "db_locks[self._file_path]"
        body = [ast.unparse(x) for x in w.body]
        ok = (item == "db_locks[self._file_path]" and len(body) == 2
              and body[0].replace("\n", " ").split() == "if self._cursor: return f(self, *args, **kwargs)".split()
              and body[1] == "return None")
    meta["db_call_blocking"] = ok
    for name in ("execute", "commit", "executescript"):
        fn = next((n for n in base_cls.body if isinstance(n, ast.FunctionDef) and n.name == name), None)
        if fn is None or [ast.unparse(d) for d in fn.decorator_list] != ["db_call"]:
            raise TranslatorError(f"Database.{name} is not decorated with exactly @db_call")
    # python's implicit transaction handling: _connect must not switch the connection to autocommit
    conn = next((n for n in base_cls.body if isinstance(n, ast.FunctionDef) and n.name == "_connect"), None)
    if conn is None:
        raise TranslatorError("Database._connect not found")
    csrc = ast.unparse(conn)
    meta["connect_autocommit"] = bool(re.search(r"isolation_level\s*=\s*None|autocommit\s*=\s*True", csrc))

    # ---- insert_* methods ------------------------------------------------------------------------
    lean_methods = []
    for path, clsname in SOURCES:
        tree = ast.parse((REPO / path).read_text())
        cls = _class(tree, clsname, path)
        if clsname not in tr.classes:
            tr.classes.append(clsname)
        fns = [n for n in cls.body if isinstance(n, ast.FunctionDef) and n.name.startswith("insert_")]
        tr.helpers = dict(base_helpers)
        tr.helpers.update({n.name: n for n in cls.body if isinstance(n, ast.FunctionDef) and n.name.startswith("_")
                           and not n.name.startswith("__") and not n.decorator_list
                           and [a.arg for a in n.args.args] == ["self"]})
        if not fns:
            raise TranslatorError(f"{clsname}: no insert_* method")
        for fn in fns:
            where = f"{clsname}.{fn.name}"
            if fn.decorator_list:
                raise TranslatorError(f"{where}: decorated insert method")
            info = {}
            ps = tr.stmt_paths(fn.body, where, False, info)
            ops_paths = [ops + ([] if fin else [("ret",)]) for ops, fin in ps]
            execs = info.get("execs", [])
            tabs = {e["table"] for e in execs}
            if len(tabs) != 1:
                raise TranslatorError(f"{where}: writes to {len(tabs)} tables")
            table = tabs.pop()
            cols = execs[0]["cols"]
            if any(e["cols"] != cols for e in execs):
                raise TranslatorError(f"{where}: INSERT statements with different column lists")
            tr.methods.append(fn.name)
            mid = len(tr.methods) - 1
            meta["methods"].append({"cls": clsname, "name": fn.name, "table": table, "cols": cols,
                                    "paths": ops_paths, "policy": sorted({e["policy"] for e in execs}),
                                    "bindings": execs[0]["bindings"], "tests": info.get("tests", [])})
            lean_methods.append(
                f"  {{ cls := {tr.classes.index(clsname)}, name := {mid}, table := {tr.tid(table)}, "
                f"cols := {lean_list([str(tr.cid(c)) for c in cols])},\n"
                f"    paths := {lean_list([lean_list([lean_prim(p) for p in ops]) for ops in ops_paths])} }}"
                f"@@   -- {where}")

    # ---- schemas ------------------------------------------------------------------------------------
    lean_scripts, lean_tables = [], []
    for path, clsname in SOURCES:
        script, _ = _schema_of(clsname)
        stmts, tinfo = classify_schema(tr, script, f"{clsname}.get_schema")
        meta["schemas"][clsname] = stmts
        for name, ti in tinfo.items():
            meta["tables"][name] = ti
            lean_tables.append(f"  {{ tid := {tr.tid(name)}, pk := {lean_list([str(tr.cid(c)) for c in ti['pk']])}, "
                               f"cols := {lean_list([str(tr.cid(c)) for c in ti['cols']])} }}@@   -- {name}")
        ls = [lean_stmt(s) for s in stmts]
        latest, ups = _upgrades_of(tr, clsname)
        meta.setdefault("open", {})[clsname] = {"latest": latest, "upgrades": ups}
        lean_scripts.append((clsname, ls, [tr.tid(n) for n in tinfo], latest, ups))
    reload_lean, meta["reload"] = reload_mode()
    meta["credential_order"] = credential_order()
    meta["batching_callers"] = batching_callers()
    meta["store_users"] = store_users()
    meta["table_names"] = list(tr.tables)
    meta["column_names"] = list(tr.columns)

    out = [f"/- GENERATED by tools/gen_db.py from {BASE}, {SOURCES[0][0]}, {SOURCES[1][0]} — do not edit -/",
           "import Ipv8.C19.Model",
           "namespace Ipv8.C19.Gen",
           "open Ipv8.C19",
           "",
           "-- table ids:  " + ", ".join(f"{i}={n}" for i, n in enumerate(tr.tables)),
           "-- column ids: " + ", ".join(f"{i}={n}" for i, n in enumerate(tr.columns)),
           "-- class ids:  " + ", ".join(f"{i}={n}" for i, n in enumerate(tr.classes)),
           "-- method ids: " + ", ".join(f"{i}={n}" for i, n in enumerate(tr.methods)),
           "",
           "/-- Database.commit, one primitive list per outcome of `if self._pending_commits:` -/",
           "def commitMethod : CommitMethod :=",
           f"  {{ idle := {lean_list([lean_prim(p) for p in meta['commit']['idle']])},",
           f"    deferred := {lean_list([lean_prim(p) for p in meta['commit']['deferred']])},",
           f"    enterKeeps := {'true' if meta['batch']['enter_keeps'] else 'false'},     -- Database.__enter__",
           f"    exitResetsFirst := {'true' if meta['batch']['exit_resets_first'] else 'false'} }}   -- Database.__exit__",
           "",
           "/-- every insert_* method of IdentityDatabase and AttestationsDB, one primitive list per path -/",
           "def insertMethods : List Method := [",
           _join_items(lean_methods),
           "]",
           "",
           "/-- tables of get_schema(LATEST_DB_VERSION) with primary key and columns -/",
           "def tables : List TableInfo := [",
           _join_items(lean_tables),
           "]",
           ""]
    out += ["/-- exception kinds caught (and not re-raised) around the version-row read in Database._prepare_version -/",
            f"def versionHandlers : List ExcKind := {lean_list(['.' + h for h in handlers])}",
            ""]
    detects = {}
    for path_, cls_ in SOURCES:
        csrc = ast.unparse(_class(ast.parse((REPO / path_).read_text()), cls_, path_))
        fn_ = csrc[csrc.find("def check_database"):]
        detects[cls_] = "PRAGMA table_info" in fn_ and "idatabase_version = 1" in fn_.replace("  ", " ")
    meta["detects_old"] = detects
    for clsname, ls, tids, latest, ups in lean_scripts:
        ups_l = lean_list([f"({v}, {lean_list([lean_stmt(x) for x in st])})" for v, st in ups])
        out += [f"/-- statements of {clsname}.get_schema(LATEST_DB_VERSION), in order -/",
                f"def schema{clsname} : List SchemaStmt := {lean_list(ls)}",
                f"def tables{clsname} : List Nat := {lean_list([str(t) for t in tids])}",
                f"/-- how {clsname} opens a file: LATEST_DB_VERSION, get_upgrade_script(v) for every older v, the schema -/",
                f"def open{clsname} : OpenCfg :=",
                f"  {{ handlers := versionHandlers, latest := {latest}, upgrades := {ups_l}, script := schema{clsname},",
                f"    detectsOld := {'true' if detects.get(clsname) else 'false'} }}",
                ""]
    out += [
            "/-- tables in the order PseudonymManager.add_credential (hence create_credential) and IdentityManager.substantiate",
            "    store the parts of a credential: 0 tokens, 1 metadata, 2 attestations -/",
            f"def credentialOrder : List Nat := {lean_list([str(t) for t in meta['credential_order']['add_credential']])}",
            f"def substantiateOrder : List Nat := {lean_list([str(t) for t in meta['credential_order']['substantiate']])}",
            "",
            "/-- line numbers of the places under ipv8/attestation that wrap store calls in a `with <database>:` batch:",
            *["    " + x for x in meta["batching_callers"]],
            "    (empty = none) -/",
            f"def batchingCallers : List Nat := {lean_list([x.split(':')[1].split(' ')[0] for x in meta['batching_callers']])}",
            "",
            "/-- line numbers of the places in the identity layer that close a database (the IdentityManager's store is shared):",
            *["    " + x for x in meta["store_users"]["closers"]],
            "    (empty = none) -/",
            f"def identityStoreClosers : List Nat := {lean_list([x.split(':')[1].split(' ')[0] for x in meta['store_users']['closers']])}",
            "",
            "/-- AttestationCommunity.on_attestation_complete: self.database.insert_attestation precedes the completion callback -/",
            f"def walletStoresBeforeCallback : Bool := {'true' if meta['store_users']['wallet_first'] else 'false'}",
            "",
            "/-- how PseudonymManager.__init__ puts the stored tokens back into the tree -/",
            f"def reloadMode : ReloadMode := {reload_lean}",
            "",
            "/-- Database._initial_statements sets PRAGMA journal_mode = WAL / PRAGMA synchronous = NORMAL -/",
            f"def journalModeWal : Bool := {'true' if meta['pragmas']['wal'] else 'false'}",
            f"def synchronousNormal : Bool := {'true' if meta['pragmas']['sync_normal'] else 'false'}",
            "",
            "/-- db_call: `with db_locks[self._file_path]:` (blocking) then `if self._cursor: return f(...)`; `return None` -/",
            f"def dbCallBlocking : Bool := {'true' if meta['db_call_blocking'] else 'false'}",
            "",
            "/-- Database._connect leaves python's implicit transactions on (no autocommit) -/",
            f"def connectAutocommit : Bool := {'true' if meta['connect_autocommit'] else 'false'}",
            "",
            "end Ipv8.C19.Gen", ""]
    return "\n".join(out), meta


if __name__ == "__main__":
    import sys
    sys.path.insert(0, str(REPO))
    src, meta = translate()
    print(src)
