"""
Translator for C13:  ipv8/community.py + ipv8/messaging/interfaces/endpoint.py + ipv8/messaging/payload.py
                      ->  lean/Ipv8/C13/Gen.lean

Regenerated from the working tree (vlib.REPO) on every run; everything else of the C13 model is hand-written and tied to
the code by the correspondence run.

  * EndpointListener.address_in_lan_subnets: the literal `lan_subnets` table                       -> Gen.lanSubnets
    (EndpointListener._address_in_subnet is shape-checked: both operands shifted right by `32 - netmask`, compared ==)
  * the introduction / puncture dispatch of Community.__init__: add_message_handler(<Payload>, self.<handler>), the
    `msg_id` of each payload class and the decorator (signed lazy_wrapper / lazy_wrapper_unsigned) and payload class
    of each handler                                                                                 -> Gen.dispatch / Gen.handlerSpec
  * Community.on_puncture_request (whole body): target selection and the arguments of the puncture  -> Gen.punctureSends
  * Community.on_introduction_response: the my_estimated_wan update condition                       -> Gen.updatesWan
        the LAN-address learning condition/value (must precede add_verified_peer)                   -> Gen.respLearnsLan / Gen.respLearnedLan
        and the `introductions = []` + if/elif chain that selects the addresses to walk to          -> Gen.introductionsOf
  * Community.create_introduction_response: the initial introduction_lan/wan, the `if introduction:` block that picks
    the LAN/WAN address handed out, the payload's address arguments (both styles), the puncture-request arguments
    and its destination                                                                             -> Gen.introAddrs / Gen.respFields / Gen.punctReqSends
  * Community.create_introduction_request: identifier = claimed global time [% N], address fields       -> Gen.requestIdentifier / Gen.reqFields
  * payload classes: which reduce the identifier modulo 65536 in __init__, which pack it raw as 'H'    -> Gen.identTruncated
  * Network.discover_address: the re-parenting condition over {address known, recorded introducer verified}      -> Gen.reparents
  * lazy_wrapper: the condition under which a known sender's source address is refreshed                          -> Gen.refreshesAddress
  * Community.on_introduction_request: the capacity guard (comparison chain over 0, max_peers, len(get_peers()))  -> Gen.atCapacity
  * Community.on_introduction_request: LAN-address learning condition/value, the arguments handed to
    create_introduction_response and the destination of the response                                -> Gen.learnsLan / Gen.learnedLan / Gen.respArgs

Statement subset: `name = expr`, `if/elif/else` over such statements, `<list>.append(expr)`.
Expression subset: local names, `<obj>.<attr>` for obj in {self, payload, introduction, peer}, `e[0]`/`e[1]` (ip/port),
`("0.0.0.0", 0)`, 2-tuples and `UDPv4Address(a, b)`/`UDPv4LANAddress(*e)`, `==`/`!=`, and/or/not, True/False,
`isinstance(e, UDPv4Address)` (the model is IPv4-only: translated to `true`), `self.address_in_lan_subnets(e)`,
`self.address_is_lan(e)`, `introduction.addresses.get(UDPv4LANAddress, d)`.
Anything else raises TranslatorError (treated like a broken proof by the runner).
"""
from __future__ import annotations

import ast
import copy
import socket
import struct

from vlib import REPO, TranslatorError

COM = "ipv8/community.py"
EPF = "ipv8/messaging/interfaces/endpoint.py"
PAY = "ipv8/messaging/payload.py"

HANDLERS = {
    "on_old_puncture_request": "oldPunctReq", "on_new_puncture_request": "newPunctReq",
    "on_puncture": "oldPuncture", "on_new_puncture": "newPuncture",
    "on_old_introduction_request": "oldIntroReq", "on_new_introduction_request": "newIntroReq",
    "on_old_introduction_response": "oldIntroResp", "on_new_introduction_response": "newIntroResp",
}
PAYLOADS = {
    "PunctureRequestPayload": "punctReqOld", "NewPunctureRequestPayload": "punctReqNew",
    "PuncturePayload": "punctureOld", "NewPuncturePayload": "punctureNew",
    "IntroductionRequestPayload": "introReqOld", "NewIntroductionRequestPayload": "introReqNew",
    "IntroductionResponsePayload": "introRespOld", "NewIntroductionResponsePayload": "introRespNew",
}
OBJ_ATTRS = {
    "self": {"my_estimated_wan", "my_estimated_lan"},
    "payload": {"destination_address", "source_lan_address", "source_wan_address", "lan_introduction_address",
                "wan_introduction_address", "lan_walker_address", "wan_walker_address"},
    "introduction": {"address"},
    "peer": {"address"},
}


def _parse(rel):
    try:
        return ast.parse((REPO / rel).read_text())
    except (OSError, SyntaxError) as e:
        raise TranslatorError(f"cannot parse {rel}: {e}") from e


def _cls(tree, name, rel):
    c = next((n for n in tree.body if isinstance(n, ast.ClassDef) and n.name == name), None)
    if c is None:
        raise TranslatorError(f"class {name} not found in {rel}")
    return c


def _fn(cls, name):
    f = next((n for n in cls.body if isinstance(n, ast.FunctionDef) and n.name == name), None)
    if f is None:
        raise TranslatorError(f"{cls.name}.{name} not found")
    return f


class _Subst(ast.NodeTransformer):
    def __init__(self, mapping):
        self.mapping = mapping

    def visit_Name(self, node):
        if node.id in self.mapping:
            return copy.deepcopy(self.mapping[node.id])
        return node


def _inline_helpers(cls, body):
    """Replace every top-level statement `self._helper(a, b, ...)` — a private method of the same class whose body is a
    straight line of statements without `return <value>`, called with positional arguments — by the helper's body with the
    parameters substituted by the argument expressions.  (The arguments of the handlers' helpers are attribute reads and
    names: evaluating them once or several times is the same.)"""
    out = []
    for st in body:
        c = st.value if isinstance(st, ast.Expr) else None
        if (isinstance(c, ast.Call) and isinstance(c.func, ast.Attribute) and isinstance(c.func.value, ast.Name)
                and c.func.value.id == "self" and c.func.attr.startswith("_") and not c.func.attr.startswith("__")
                and not c.keywords and not any(isinstance(a, ast.Starred) for a in c.args)):
            h = next((n for n in cls.body if isinstance(n, ast.FunctionDef) and n.name == c.func.attr), None)
            if h is not None and not h.decorator_list:
                params = [a.arg for a in h.args.args][1:]
                hb = _body_raw(h)
                pure_args = all(isinstance(a, (ast.Name, ast.Attribute, ast.Constant)) for a in c.args)
                straight = not any(isinstance(n, (ast.Return, ast.Yield, ast.YieldFrom, ast.Await, ast.Nonlocal, ast.Global))
                                   for x in hb for n in ast.walk(x))
                assigned = {t.id for x in hb for n in ast.walk(x) if isinstance(n, ast.Assign)
                            for t in n.targets if isinstance(t, ast.Name)}
                if len(params) == len(c.args) and pure_args and straight and not (assigned & set(params)) \
                        and not h.args.vararg and not h.args.kwarg and not h.args.kwonlyargs:
                    sub = _Subst(dict(zip(params, c.args)))
                    out += _inline_helpers(cls, [ast.fix_missing_locations(sub.visit(copy.deepcopy(x))) for x in hb])
                    continue
        out.append(st)
    return out


def _body_raw(fn):
    b = list(fn.body)
    if b and isinstance(b[0], ast.Expr) and isinstance(b[0].value, ast.Constant) and isinstance(b[0].value.value, str):
        b = b[1:]
    return b


def _body(fn):
    b = list(fn.body)
    if b and isinstance(b[0], ast.Expr) and isinstance(b[0].value, ast.Constant) and isinstance(b[0].value.value, str):
        b = b[1:]
    return b


def _src(node):
    try:
        return ast.unparse(node)
    except Exception:  # pragma: no cover
        return "<?>"


def _is_zero_addr(e):
    return (isinstance(e, ast.Tuple) and len(e.elts) == 2 and isinstance(e.elts[0], ast.Constant)
            and e.elts[0].value == "0.0.0.0" and isinstance(e.elts[1], ast.Constant) and e.elts[1].value == 0)


LEAN_RESERVED = {"end", "from", "at", "do", "then", "else", "fun", "let", "have", "show", "by", "in", "if", "match", "with",
                 "where", "def", "theorem", "namespace", "open", "import", "return", "for", "mut", "self", "payload"}


class Tr:
    """expression / statement translator with a set of known local (mutable) names"""

    def __init__(self, where: str, locals_: set[str], params: set[str], auto_locals: bool = False):
        self.where = where
        self.locals = set(locals_)
        self.params = set(params)
        self.auto_locals = auto_locals
        self.truth: dict[str, str] = {}

    def fail(self, node, why):
        raise TranslatorError(f"{self.where}: {why}: `{_src(node)}`")

    def expr(self, e) -> str:
        if isinstance(e, ast.Name):
            if e.id in self.truth:
                return self.truth[e.id]          # `if introduction:` -> is there a peer to introduce
            if e.id in self.locals or e.id in self.params:
                return e.id
            self.fail(e, "unknown name")
        if isinstance(e, ast.Compare) and len(e.ops) == 1 and isinstance(e.ops[0], (ast.Is, ast.IsNot)) \
                and isinstance(e.left, ast.Name) and e.left.id in self.truth \
                and isinstance(e.comparators[0], ast.Constant) and e.comparators[0].value is None:
            t = self.truth[e.left.id]
            return f"(!{t})" if isinstance(e.ops[0], ast.Is) else t
        if isinstance(e, ast.Constant) and isinstance(e.value, bool):
            return "true" if e.value else "false"
        if _is_zero_addr(e):
            return "Addr.zero"
        if isinstance(e, ast.Tuple) and len(e.elts) == 2:
            return f"(Addr.mk {self.atom(e.elts[0])} {self.atom(e.elts[1])})"
        if isinstance(e, ast.Attribute) and isinstance(e.value, ast.Name):
            obj, attr = e.value.id, e.attr
            if obj in OBJ_ATTRS and attr in OBJ_ATTRS[obj]:
                return f"{obj}.{attr}"
            self.fail(e, "attribute outside the subset")
        if isinstance(e, ast.Subscript) and isinstance(e.slice, ast.Constant) and e.slice.value in (0, 1):
            return f"{self.atom(e.value)}.{'ip' if e.slice.value == 0 else 'port'}"
        if isinstance(e, ast.Compare) and len(e.ops) == 1 and isinstance(e.ops[0], (ast.Eq, ast.NotEq)):
            op = "==" if isinstance(e.ops[0], ast.Eq) else "!="
            return f"({self.expr(e.left)} {op} {self.expr(e.comparators[0])})"
        if isinstance(e, ast.BoolOp):
            op = " && " if isinstance(e.op, ast.And) else " || "
            return "(" + op.join(self.expr(v) for v in e.values) + ")"
        if isinstance(e, ast.UnaryOp) and isinstance(e.op, ast.Not):
            return f"(!{self.expr(e.operand)})"
        if isinstance(e, ast.IfExp):
            return f"(if {self.expr(e.test)} then {self.expr(e.body)} else {self.expr(e.orelse)})"
        if isinstance(e, ast.Call):
            return self.call(e)
        self.fail(e, "expression outside the subset")

    def atom(self, e) -> str:
        s = self.expr(e)
        return s if s.replace(".", "").replace("_", "").isalnum() or s.startswith("(") else f"({s})"

    def call(self, e: ast.Call) -> str:
        f = e.func
        if e.keywords:
            self.fail(e, "keyword arguments")
        if isinstance(f, ast.Name) and f.id == "isinstance" and len(e.args) == 2 \
                and isinstance(e.args[1], ast.Name) and e.args[1].id == "UDPv4Address":
            self.expr(e.args[0])   # must itself be inside the subset
            return "true"
        if isinstance(f, ast.Name) and f.id == "UDPv4Address" and len(e.args) == 2:
            return f"(Addr.mk {self.atom(e.args[0])} {self.atom(e.args[1])})"
        if isinstance(f, ast.Name) and f.id in ("UDPv4LANAddress", "UDPv4Address") and len(e.args) == 1 \
                and isinstance(e.args[0], ast.Starred):
            return self.expr(e.args[0].value)
        if isinstance(f, ast.Attribute) and isinstance(f.value, ast.Name) and f.value.id == "self" \
                and f.attr in ("address_in_lan_subnets", "address_is_lan") and len(e.args) == 1:
            return f"(self.{f.attr} {self.atom(e.args[0])})"
        if (isinstance(f, ast.Attribute) and f.attr == "get" and isinstance(f.value, ast.Attribute)
                and f.value.attr == "addresses" and isinstance(f.value.value, ast.Name)
                and f.value.value.id == "introduction" and len(e.args) == 2
                and isinstance(e.args[0], ast.Name) and e.args[0].id == "UDPv4LANAddress"):
            return f"(introduction.lan_address.getD {self.atom(e.args[1])})"
        self.fail(e, "call outside the subset")

    def stmts(self, body, ind: int) -> list[str]:
        out = []
        pad = "  " * ind
        for st in body:
            if isinstance(st, ast.Assign) and len(st.targets) == 1 and isinstance(st.targets[0], ast.Name):
                name = st.targets[0].id
                if name in LEAN_RESERVED or not name.isidentifier():
                    self.fail(st, "local name clashes with a Lean keyword")
                if name not in self.locals:
                    if ind != 1 or not self.auto_locals:
                        self.fail(st, "assignment to a name that is not a declared local")
                    # a new local introduced at the top level of the translated fragment (any name)
                    self.locals.add(name)
                    out.append(f"{pad}let mut {name} := {self.expr(st.value)}")
                else:
                    out.append(f"{pad}{name} := {self.expr(st.value)}")
            elif isinstance(st, ast.AugAssign) and isinstance(st.op, ast.Add) and isinstance(st.target, ast.Name) \
                    and st.target.id in self.locals and isinstance(st.value, ast.List):
                lst = st.target.id      # lst += [a, b]
                out.append(f"{pad}{lst} := {lst} ++ [{', '.join(self.expr(e) for e in st.value.elts)}]")
            elif isinstance(st, ast.Expr) and isinstance(st.value, ast.Call) and isinstance(st.value.func, ast.Attribute) \
                    and st.value.func.attr == "append" and isinstance(st.value.func.value, ast.Name) \
                    and st.value.func.value.id in self.locals and len(st.value.args) == 1:
                lst = st.value.func.value.id
                out.append(f"{pad}{lst} := {lst} ++ [{self.expr(st.value.args[0])}]")
            elif isinstance(st, ast.If):
                out += self.if_(st, ind, "if")
            else:
                self.fail(st, "statement outside the subset")
        return out

    def if_(self, st: ast.If, ind: int, kw: str) -> list[str]:
        pad = "  " * ind
        out = [f"{pad}{kw} {self.expr(st.test)} then"]
        out += self.stmts(st.body, ind + 1)
        if st.orelse:
            if len(st.orelse) == 1 and isinstance(st.orelse[0], ast.If):
                out += self.if_(st.orelse[0], ind, "else if")
            else:
                out.append(f"{pad}else")
                out += self.stmts(st.orelse, ind + 1)
        return out


# ------------------------------------------------------------------------------------------------------------------
SUBNET_SHAPE_RECOGNISED = True


def ip_to_int(s: str) -> int:
    try:
        return struct.unpack(">L", socket.inet_aton(s))[0]
    except OSError as e:
        raise TranslatorError(f"bad IPv4 literal {s!r}") from e


def lan_subnets(ep_tree) -> list[tuple[int, int]]:
    cls = _cls(ep_tree, "EndpointListener", EPF)
    fn = _fn(cls, "address_in_lan_subnets")
    table = None
    for st in _body(fn):
        if isinstance(st, ast.Assign) and isinstance(st.targets[0], ast.Name) and st.targets[0].id == "lan_subnets":
            try:
                table = ast.literal_eval(st.value)
            except ValueError as e:
                raise TranslatorError("address_in_lan_subnets: lan_subnets is not a literal") from e
    ret = _body(fn)[-1]
    tname = "lan_subnets"
    if table is None:
        # the table may be a named constant of the module or of the class: resolve the name the result iterates over
        consts = {}
        for scope in (ep_tree.body, cls.body):
            for st in scope:
                tgt = st.targets[0] if isinstance(st, ast.Assign) and len(st.targets) == 1 else \
                    (st.target if isinstance(st, ast.AnnAssign) and st.value is not None else None)
                if isinstance(tgt, ast.Name):
                    try:
                        consts[tgt.id] = ast.literal_eval(st.value)
                    except (ValueError, SyntaxError):
                        pass
        used = [n.id for n in ast.walk(ret) if isinstance(n, ast.Name) and n.id in consts] + \
               [n.attr for n in ast.walk(ret) if isinstance(n, ast.Attribute) and n.attr in consts]
        if len(set(used)) != 1:
            raise TranslatorError("address_in_lan_subnets: no literal `lan_subnets` table (local, module or class constant)")
        tname = used[0]
        table = consts[tname]
        # the constant must not be rebound anywhere else in the module
        rebinds = [n for n in ast.walk(ep_tree) if isinstance(n, (ast.Assign, ast.AugAssign, ast.AnnAssign))
                   and any(isinstance(t, ast.Name) and t.id == tname
                           for t in (n.targets if isinstance(n, ast.Assign) else [n.target]))]
        if len(rebinds) != 1:
            raise TranslatorError(f"address_in_lan_subnets: constant `{tname}` is bound {len(rebinds)} times")
    if not (isinstance(ret, ast.Return) and tname in _src(ret)):
        raise TranslatorError(f"address_in_lan_subnets: the result does not depend on the `{tname}` table: `{_src(ret)}`")
    out = []
    for ent in table:
        if not (isinstance(ent, tuple) and len(ent) == 2 and isinstance(ent[0], str) and isinstance(ent[1], int)
                and 0 < ent[1] <= 32):
            raise TranslatorError(f"address_in_lan_subnets: bad entry {ent!r}")
        out.append((ip_to_int(ent[0]), ent[1]))
    # shape of _address_in_subnet
    sub = _fn(cls, "_address_in_subnet")
    got = [_src(s) for s in _body(sub)]
    want = ["iaddress = struct.unpack_from('>L', socket.inet_aton(address))[0]",
            "subnet_main, netmask = subnet",
            "isubnet_main = struct.unpack_from('>L', socket.inet_aton(subnet_main))[0]",
            "iaddress >>= 32 - netmask",
            "isubnet_main >>= 32 - netmask",
            "return iaddress == isubnet_main"]
    global SUBNET_SHAPE_RECOGNISED
    SUBNET_SHAPE_RECOGNISED = got == want     # a rewrite is fine: address_in_lan_subnets is compared with the model and
    return out                                # with RFC 1918 on boundary + random addresses on every run


def msg_ids(pay_tree) -> dict[str, int]:
    out = {}
    for name in PAYLOADS:
        cls = _cls(pay_tree, name, PAY)
        mid = None
        for st in cls.body:
            if isinstance(st, ast.Assign) and isinstance(st.targets[0], ast.Name) and st.targets[0].id == "msg_id" \
                    and isinstance(st.value, ast.Constant) and isinstance(st.value.value, int):
                mid = st.value.value
        if mid is None:
            raise TranslatorError(f"{name}: no integer msg_id")
        out[name] = mid
    return out


def dispatch(com_cls, ids) -> tuple[list[tuple[int, str]], dict[str, tuple[bool, str]]]:
    init = _fn(com_cls, "__init__")
    table = []
    for st in ast.walk(init):
        if isinstance(st, ast.Call) and isinstance(st.func, ast.Attribute) and st.func.attr == "add_message_handler" \
                and len(st.args) == 2 and isinstance(st.args[0], ast.Name):
            pname = st.args[0].id
            h = st.args[1]
            if not (isinstance(h, ast.Attribute) and isinstance(h.value, ast.Name) and h.value.id == "self"):
                raise TranslatorError(f"add_message_handler: handler is not a method: `{_src(st)}`")
            if pname not in ids:
                raise TranslatorError(f"add_message_handler: unknown payload class {pname}")
            if h.attr not in HANDLERS:
                raise TranslatorError(f"add_message_handler: unknown handler {h.attr}")
            table.append((ids[pname], HANDLERS[h.attr]))
    spec = {}
    for py, lean in HANDLERS.items():
        fn = _fn(com_cls, py)
        if len(fn.decorator_list) != 1 or not isinstance(fn.decorator_list[0], ast.Call):
            raise TranslatorError(f"{py}: expected exactly one lazy_wrapper decorator")
        dec = fn.decorator_list[0]
        dname = dec.func.id if isinstance(dec.func, ast.Name) else None
        if dname not in ("lazy_wrapper", "lazy_wrapper_unsigned"):
            raise TranslatorError(f"{py}: decorator {dname} outside the subset")
        args = [a.id for a in dec.args if isinstance(a, ast.Name)]
        if len(args) != 2 or args[0] != "GlobalTimeDistributionPayload" or args[1] not in PAYLOADS:
            raise TranslatorError(f"{py}: unexpected decorator payload list {args}")
        spec[lean] = (dname == "lazy_wrapper", PAYLOADS[args[1]])
    return table, spec


def puncture_sends(com_cls) -> str:
    fn = _fn(com_cls, "on_puncture_request")
    body = _body(fn)
    if len(body) < 3:
        raise TranslatorError("on_puncture_request: body too short")
    *head, mk, snd = body
    tr = Tr("on_puncture_request", set(), set(), auto_locals=True)
    lines = tr.stmts(head, 1)
    if not (isinstance(mk, ast.Assign) and isinstance(mk.value, ast.Call) and isinstance(mk.value.func, ast.Attribute)
            and mk.value.func.attr == "create_puncture" and len(mk.value.args) >= 2 and not mk.value.keywords):
        raise TranslatorError(f"on_puncture_request: expected `packet = self.create_puncture(lan, wan, ...)`: `{_src(mk)}`")
    pkt = mk.targets[0].id if isinstance(mk.targets[0], ast.Name) else None
    a0, a1 = tr.expr(mk.value.args[0]), tr.expr(mk.value.args[1])
    if _src(mk.value.args[2]) != "payload.identifier":
        raise TranslatorError("on_puncture_request: create_puncture must be handed payload.identifier as 3rd argument")
    if len(mk.value.args) < 4 or _src(mk.value.args[3]) != "new_style":
        raise TranslatorError("on_puncture_request: create_puncture must be handed `new_style` as 4th argument")
    if not (isinstance(snd, ast.Expr) and _src(snd.value).startswith("self.endpoint.send(") and len(snd.value.args) == 2
            and _src(snd.value.args[1]) == pkt):
        raise TranslatorError(f"on_puncture_request: expected `self.endpoint.send(<target>, packet)`: `{_src(snd)}`")
    dst = tr.expr(snd.value.args[0])
    return ("/-- on_puncture_request: (destination of the puncture, its source_lan_address, its source_wan_address) -/\n"
            "def punctureSends (self : SelfView) (payload : PunctReqView) : Addr × Addr × Addr := Id.run do\n"
            + "\n".join(lines) + f"\n  return ({dst}, {a0}, {a1})\n")


def intro_response_parts(com_cls) -> str:
    fn = _fn(com_cls, "on_introduction_response")
    body = _inline_helpers(com_cls, _body(fn))
    # (1) first statement: the my_estimated_wan update
    st0 = body[0]
    if not (isinstance(st0, ast.If) and not st0.orelse and len(st0.body) == 1
            and _src(st0.body[0]) == "self.my_estimated_wan = payload.destination_address"):
        raise TranslatorError(f"on_introduction_response: expected the my_estimated_wan update first: `{_src(st0)[:120]}`")
    if _src(body[1]) != "self.my_peer.address = payload.destination_address":
        raise TranslatorError(f"on_introduction_response: unexpected second statement `{_src(body[1])[:100]}`")
    sw = body[2]
    if not (isinstance(sw, ast.If) and _src(sw.test) == "peer.new_style_intro" and not sw.orelse and len(sw.body) == 3
            and isinstance(sw.body[2], ast.If) and "requested_interface != used_interface" in _src(sw.body[2].test)
            and "in cast('DispatcherEndpoint', self.endpoint).interfaces" in _src(sw.body[2].test)):
        raise TranslatorError("on_introduction_response: the interface-switch block (`if peer.new_style_intro:` guarded by "
                              "requested_interface != used_interface and the endpoint's interfaces) changed shape; the "
                              "model assumes it is dead for IPv4 peers on an endpoint without `interfaces`")
    tr = Tr("on_introduction_response", set(), set())
    cond = tr.expr(st0.test)
    # the update must happen before the introductions are chosen and nothing else may assign my_estimated_wan/lan
    for st in body[1:]:
        for n in ast.walk(st):
            if isinstance(n, (ast.Assign, ast.AugAssign)):
                tg = n.targets if isinstance(n, ast.Assign) else [n.target]
                for t in tg:
                    if _src(t) in ("self.my_estimated_wan", "self.my_estimated_lan"):
                        raise TranslatorError("on_introduction_response: second assignment to my_estimated_*")
    # (2) introductions = [] ; if/elif chain ; for introduction in introductions: discover_address(...)
    idx = next((i for i, s in enumerate(body) if isinstance(s, ast.Assign) and len(s.targets) == 1
                and isinstance(s.targets[0], ast.Name) and isinstance(s.value, ast.List) and not s.value.elts), None)
    if idx is None:
        raise TranslatorError("on_introduction_response: `<list> = []` followed by an if-chain not found")
    k = idx + 1
    while k < len(body) and isinstance(body[k], ast.Assign) and len(body[k].targets) == 1 \
            and isinstance(body[k].targets[0], ast.Name):
        k += 1          # hoisted reads / named conditions in front of the chain
    if k + 1 >= len(body) or not isinstance(body[k], ast.If):
        raise TranslatorError("on_introduction_response: `<list> = []` followed by an if-chain not found")
    lname = body[idx].targets[0].id
    if lname in LEAN_RESERVED:
        raise TranslatorError(f"on_introduction_response: list name `{lname}` clashes with a Lean keyword")
    tr2 = Tr("on_introduction_response", {lname}, set(), auto_locals=True)
    chain = tr2.stmts(body[idx + 1:k + 1], 1)
    loop = body[k + 1]
    if not (isinstance(loop, ast.For) and isinstance(loop.target, ast.Name) and _src(loop.iter) == lname
            and not loop.orelse and len(loop.body) == 1
            and _src(loop.body[0]) == f"self.network.discover_address(peer, {loop.target.id}, self.community_id, "
                                      "payload.intro_supports_new_style)"):
        raise TranslatorError(f"on_introduction_response: unexpected use of `{lname}`: `{_src(loop)}`")
    # (3) LAN address learning, before the peer is stored
    learn = next((s for s in body if isinstance(s, ast.If) and "UDPv4LANAddress" in _src(s)), None)
    if learn is None or learn.orelse or len(learn.body) != 1:
        raise TranslatorError("on_introduction_response: LAN address learning statement not found")
    lcond = tr.expr(learn.test)
    lst = learn.body[0]
    if not (isinstance(lst, ast.Assign) and _src(lst.targets[0]) == "peer.address" and isinstance(lst.value, ast.Call)
            and _src(lst.value.func) == "UDPv4LANAddress"):
        raise TranslatorError(f"on_introduction_response: expected `peer.address = UDPv4LANAddress(...)`: `{_src(lst)}`")
    lval = tr.expr(lst.value)
    i_add = next((i for i, s in enumerate(body) if _src(s) == "self.network.add_verified_peer(peer)"), None)
    if i_add is None or body.index(learn) > i_add or i_add > idx:
        raise TranslatorError("on_introduction_response: expected LAN learning, then add_verified_peer(peer), then the "
                              "introductions")
    return ("/-- on_introduction_response: does the response overwrite my_estimated_wan with its destination_address? -/\n"
            f"def updatesWan (self : SelfView) (payload : IntroRespView) : Bool :=\n  {cond}\n\n"
            "/-- on_introduction_response: is the responder's LAN address recorded, and which value -/\n"
            f"def respLearnsLan (payload : IntroRespView) : Bool :=\n  {lcond}\n"
            f"def respLearnedLan (payload : IntroRespView) : Addr :=\n  {lval}\n\n"
            "/-- on_introduction_response: the addresses recorded as walkable (in this order); `self` is the state AFTER the\n"
            "    my_estimated_wan update -/\n"
            "def introductionsOf (self : SelfView) (payload : IntroRespView) : List Addr := Id.run do\n"
            f"  let mut {lname} : List Addr := []\n" + "\n".join(chain) + f"\n  return {lname}\n")


def create_response_parts(com_cls) -> str:
    fn = _fn(com_cls, "create_introduction_response")
    argn = [a.arg for a in fn.args.args]
    if argn[:4] != ["self", "lan_socket_address", "socket_address", "identifier"]:
        raise TranslatorError(f"create_introduction_response: unexpected parameters {argn}")
    body = _body(fn)
    srcs = [_src(s) for s in body]
    if "other = self.network.get_verified_by_address(socket_address)" not in srcs:
        raise TranslatorError("create_introduction_response: `other = self.network.get_verified_by_address(socket_address)` not found")
    pick = next((s for s in body if isinstance(s, ast.If) and _src(s.test) == "not introduction" and not s.orelse
                 and len(s.body) == 1 and _src(s.body[0]).startswith("introduction = ")), None)
    if pick is None or _src(pick.body[0]) != \
            "introduction = self.get_peer_for_introduction(exclude=other, new_style=new_style)":
        raise TranslatorError("create_introduction_response: candidate selection differs from "
                              "`get_peer_for_introduction(exclude=other, new_style=new_style)`")
    # The statements that decide introduction_lan / introduction_wan (/ the `introduced` flag), in source order, whatever their
    # nesting: defaults + `if introduction:` block, or one flat if/elif/else chain.  They are translated as ONE function of
    # "is there a peer to introduce" (`present`) and that peer; `new_style_intro` bookkeeping is checked and left out.
    DEC = {"introduction_lan", "introduction_wan", "introduced"}
    NS_OK = {"False", "introduction.new_style_intro", "introduction.new_style_intro if introduction else False"}

    def assigns(st):
        return {t.id for n in ast.walk(st) if isinstance(n, ast.Assign) for t in n.targets if isinstance(t, ast.Name)}

    class DropNs(ast.NodeTransformer):
        def visit_Assign(self, node):
            if len(node.targets) == 1 and isinstance(node.targets[0], ast.Name) and node.targets[0].id == "new_style_intro":
                if _src(node.value) not in NS_OK:
                    raise TranslatorError(f"create_introduction_response: unexpected new_style_intro value `{_src(node.value)}`")
                return None
            return node
    region = []
    for st in body[body.index(pick) + 1:] + body[:body.index(pick)]:
        pass
    for st in body:
        if st is pick:
            continue
        if isinstance(st, (ast.Assign, ast.If)) and assigns(st) & DEC and "Payload(" not in _src(st):
            if isinstance(st, ast.If) and body.index(st) < body.index(pick):
                raise TranslatorError("create_introduction_response: addresses are decided before the candidate is selected")
            region.append(ast.fix_missing_locations(DropNs().visit(copy.deepcopy(st))))
    if not region:
        raise TranslatorError("create_introduction_response: no statement decides introduction_lan / introduction_wan")
    # the puncture request is guarded by an `if` whose body builds it with self.create_puncture_request
    pr = next((s for s in body if isinstance(s, ast.If) and not s.orelse and len(s.body) == 2
               and "self.create_puncture_request(" in _src(s.body[0])), None)
    if pr is None:
        raise TranslatorError("create_introduction_response: the guarded puncture request block was not found")
    if body.index(pr) < max(body.index(x) for x in body if assigns(x) & DEC and "Payload(" not in _src(x)):
        raise TranslatorError("create_introduction_response: the puncture request is sent before the addresses are decided")
    tr = Tr("create_introduction_response", set(DEC), set())
    tr.truth = {"introduction": "present"}
    lines = tr.stmts(region, 1)
    guard = tr.expr(pr.test)
    out = ("/-- create_introduction_response: (introduction_lan, introduction_wan, is the puncture request sent) as decided for\n"
           "    `present` = there is a peer to introduce, and that peer -/\n"
           "def introAddrsGen (self : SelfView) (present : Bool) (introduction : PeerView) : Addr × Addr × Bool := Id.run do\n"
           "  let mut introduction_lan := Addr.zero\n  let mut introduction_wan := Addr.zero\n  let mut introduced := false\n"
           + "\n".join(lines) + f"\n  return (introduction_lan, introduction_wan, {guard})\n\n"
           "/-- … when a peer is introduced -/\n"
           "def introAddrs (self : SelfView) (introduction : PeerView) : Addr × Addr × Bool := introAddrsGen self true introduction\n\n"
           "/-- … when there is nobody to introduce -/\n"
           "def introNobody (self : SelfView) : Addr × Addr × Bool := introAddrsGen self false ⟨Addr.zero, none⟩\n\n")
    # payload address arguments, both styles
    trp = Tr("create_introduction_response", set(), {"socket_address", "lan_socket_address", "introduction_lan",
                                                     "introduction_wan"})
    pl = next((s for s in body if isinstance(s, ast.If) and _src(s.test) == "new_style"
               and "IntroductionResponsePayload" in _src(s)), None)
    if pl is None or len(pl.body) != 1 or len(pl.orelse) != 1:
        raise TranslatorError("create_introduction_response: payload construction `if new_style: ... else: ...` not found")

    def fields(st, cname):
        if not (isinstance(st, ast.Assign) and isinstance(st.value, ast.Call) and _src(st.value.func) == cname
                and len(st.value.args) >= 5):
            raise TranslatorError(f"create_introduction_response: expected `payload = {cname}(...)`")
        res = []
        for i, a in enumerate(st.value.args[:5]):
            if _src(a) == "self.my_preferred_address()":
                res.append("self.my_estimated_wan")      # endpoint without `interfaces`: my_preferred_address() = my_estimated_wan
            else:
                res.append(trp.expr(a))
        return res
    fn_new = fields(pl.body[0], "NewIntroductionResponsePayload")
    fn_old = fields(pl.orelse[0], "IntroductionResponsePayload")
    if fn_new != fn_old:
        raise TranslatorError(f"create_introduction_response: old- and new-style payloads carry different addresses: {fn_old} / {fn_new}")
    out += ("/-- the five address fields of the response payload (identical for both styles): destination, source lan,\n"
            "    source wan, lan introduction, wan introduction -/\n"
            "def respFields (self : SelfView) (socket_address introduction_lan introduction_wan : Addr) : IntroRespView :=\n"
            f"  ⟨{fn_old[0]}, {fn_old[1]}, {fn_old[2]}, {fn_old[3]}, {fn_old[4]}⟩\n\n")
    # the puncture request
    mk, snd = pr.body
    if not (isinstance(mk, ast.Assign) and isinstance(mk.value, ast.Call)
            and _src(mk.value.func) == "self.create_puncture_request" and len(mk.value.args) == 3):
        raise TranslatorError(f"create_introduction_response: unexpected puncture request construction `{_src(mk)}`")
    kw = {k.arg: _src(k.value) for k in mk.value.keywords}
    if kw.get("new_style") != "new_style":
        raise TranslatorError("create_introduction_response: puncture request must inherit new_style")
    if _src(mk.value.args[2]) != "identifier":
        raise TranslatorError("create_introduction_response: puncture request must carry the request's identifier")
    trq = Tr("create_introduction_response", set(), {"socket_address", "lan_socket_address"})
    lanw, wanw = trq.expr(mk.value.args[0]), trq.expr(mk.value.args[1])
    if not (isinstance(snd, ast.Expr) and isinstance(snd.value, ast.Call) and _src(snd.value.func) == "self.endpoint.send"
            and len(snd.value.args) == 2 and _src(snd.value.args[1]) == _src(mk.targets[0])):
        raise TranslatorError(f"create_introduction_response: unexpected send of the puncture request `{_src(snd)}`")
    dst = trq.expr(snd.value.args[0])
    # ordering: the puncture request leaves before the response is returned
    out += ("/-- the puncture request sent when a peer was introduced: (destination, lan_walker_address, wan_walker_address) -/\n"
            "def punctReqSends (lan_socket_address socket_address : Addr) (introduction : PeerView) : Addr × PunctReqView :=\n"
            f"  ({dst}, ⟨{lanw}, {wanw}⟩)\n")
    return out


def intro_request_parts(com_cls) -> str:
    fn = _fn(com_cls, "on_introduction_request")
    body = _inline_helpers(com_cls, _body(fn))
    # the capacity guard: `if <chain over 0, self.max_peers, len(self.get_peers())>: <log>; return`
    g = body[0]
    if not (isinstance(g, ast.If) and not g.orelse and isinstance(g.body[-1], ast.Return) and g.body[-1].value is None
            and isinstance(g.test, ast.Compare)):
        raise TranslatorError(f"on_introduction_request: capacity guard not found first: `{_src(g)[:100]}`")
    names = {"0": "0", "self.max_peers": "max_peers", "len(self.get_peers())": "n_peers"}
    terms = [_src(g.test.left)] + [_src(c) for c in g.test.comparators]
    if any(t not in names for t in terms):
        raise TranslatorError(f"on_introduction_request: capacity guard outside the subset: `{_src(g.test)}`")
    cmp_ = {ast.Lt: "<", ast.LtE: "<=", ast.Gt: ">", ast.GtE: ">=", ast.Eq: "==", ast.NotEq: "!="}
    if any(type(o) not in cmp_ for o in g.test.ops):
        raise TranslatorError(f"on_introduction_request: capacity guard operator outside the subset: `{_src(g.test)}`")
    parts = [f"decide ({names[terms[i]]} {cmp_[type(o)].replace('==', '=').replace('!=', '≠').replace('<=', '≤').replace('>=', '≥')} {names[terms[i + 1]]})"
             for i, o in enumerate(g.test.ops)]
    guard = " && ".join(parts)
    if body.index(g) != 0:
        raise TranslatorError("on_introduction_request: capacity guard is not the first statement")
    learn = next((s for s in body if isinstance(s, ast.If) and "UDPv4LANAddress" in _src(s)), None)
    if learn is None or learn.orelse or len(learn.body) != 1:
        raise TranslatorError("on_introduction_request: LAN address learning statement not found")
    tr = Tr("on_introduction_request", set(), set())
    cond = tr.expr(learn.test)
    st = learn.body[0]
    if not (isinstance(st, ast.Assign) and _src(st.targets[0]) == "peer.address"):
        raise TranslatorError(f"on_introduction_request: expected `peer.address = UDPv4LANAddress(...)`: `{_src(st)}`")
    if not (isinstance(st.value, ast.Call) and _src(st.value.func) == "UDPv4LANAddress"):
        raise TranslatorError(f"on_introduction_request: learned address is not a UDPv4LANAddress: `{_src(st)}`")
    val = tr.expr(st.value)
    i_learn = body.index(learn)
    mk = next((s for s in body if isinstance(s, ast.Assign) and isinstance(s.value, ast.Call)
               and _src(s.value.func) == "self.create_introduction_response"), None)
    if mk is None or len(mk.value.args) != 3:
        raise TranslatorError("on_introduction_request: create_introduction_response(...) call not found")
    if body.index(mk) < i_learn:
        raise TranslatorError("on_introduction_request: the response is built before the LAN address is learned")
    kw = {k.arg: _src(k.value) for k in mk.value.keywords}
    if kw != {"new_style": "peer.new_style_intro"}:
        raise TranslatorError(f"on_introduction_request: unexpected keywords {kw}")
    a_lan, a_sock = tr.expr(mk.value.args[0]), tr.expr(mk.value.args[1])
    snd = body[body.index(mk) + 1]
    if not (isinstance(snd, ast.Expr) and isinstance(snd.value, ast.Call) and _src(snd.value.func) == "self.endpoint.send"
            and _src(snd.value.args[1]) == _src(mk.targets[0])):
        raise TranslatorError(f"on_introduction_request: unexpected send of the response `{_src(snd)}`")
    dst = tr.expr(snd.value.args[0])
    between = [_src(s) for s in body[i_learn + 1:body.index(mk)]]
    if between != ["self.network.add_verified_peer(peer)", "self.network.discover_services(peer, [self.community_id])"]:
        raise TranslatorError(f"on_introduction_request: unexpected statements before the response: {between}")
    return ("/-- on_introduction_request: the request is dropped (no answer) when this holds -/\n"
            f"def atCapacity (max_peers n_peers : Int) : Bool :=\n  {guard}\n\n"
            "/-- on_introduction_request: is the sender's LAN address recorded, and which value -/\n"
            f"def learnsLan (payload : IntroReqView) : Bool :=\n  {cond}\n"
            f"def learnedLan (payload : IntroReqView) : Addr :=\n  {val}\n\n"
            "/-- on_introduction_request: (lan_socket_address, socket_address) handed to create_introduction_response and the\n"
            "    destination of the response; `peer` is the sender's record after the update -/\n"
            "def respArgs (payload : IntroReqView) (peer : PeerView) : Addr × Addr × Addr :=\n"
            f"  ({a_lan}, {a_sock}, {dst})\n")


def create_request_parts(com_cls) -> str:
    """create_introduction_request: how the identifier is derived from the claimed global time, and the address fields"""
    fn = _fn(com_cls, "create_introduction_request")
    body = _body(fn)
    st0 = body[0]
    if not (isinstance(st0, ast.Assign) and _src(st0.targets[0]) == "global_time"):
        raise TranslatorError(f"create_introduction_request: expected `global_time = ...` first: `{_src(st0)}`")
    v = st0.value
    if _src(v) == "self.claim_global_time()":
        ident = "t"
    elif (isinstance(v, ast.BinOp) and isinstance(v.op, ast.Mod) and _src(v.left) == "self.claim_global_time()"
          and isinstance(v.right, ast.Constant) and isinstance(v.right.value, int) and v.right.value > 0):
        ident = f"t % {v.right.value}"
    else:
        raise TranslatorError(f"create_introduction_request: identifier derivation outside the subset: `{_src(v)}`")
    pl = next((s for s in body if isinstance(s, ast.If) and "IntroductionRequestPayload" in _src(s)), None)
    if pl is None or len(pl.body) != 1 or len(pl.orelse) != 1:
        raise TranslatorError("create_introduction_request: payload construction `if ...: New... else: ...` not found")
    if _src(pl.test) != "new_style or isinstance(socket_address, UDPv6Address)":
        raise TranslatorError(f"create_introduction_request: unexpected style test `{_src(pl.test)}`")
    tr = Tr("create_introduction_request", set(), {"socket_address"})

    def fields(st, cname, ident_pos):
        if not (isinstance(st, ast.Assign) and isinstance(st.value, ast.Call) and _src(st.value.func) == cname
                and len(st.value.args) > ident_pos):
            raise TranslatorError(f"create_introduction_request: expected `payload = {cname}(...)`")
        if _src(st.value.args[ident_pos]) != "global_time":
            raise TranslatorError(f"create_introduction_request: {cname} identifier is `{_src(st.value.args[ident_pos])}`, "
                                  "expected `global_time`")
        res = []
        for a in st.value.args[:3]:
            res.append("self.my_estimated_wan" if _src(a) == "self.my_preferred_address()" else tr.expr(a))
        return res
    f_new = fields(pl.body[0], "NewIntroductionRequestPayload", 3)
    f_old = fields(pl.orelse[0], "IntroductionRequestPayload", 5)
    if f_new != f_old:
        raise TranslatorError(f"create_introduction_request: old- and new-style payloads carry different addresses: {f_old} / {f_new}")
    return ("/-- create_introduction_request: the identifier put into the request, from the claimed global time `t` -/\n"
            f"def requestIdentifier (t : Nat) : Nat :=\n  {ident}\n\n"
            "/-- the three address fields of the request (identical for both styles): destination, source lan, source wan -/\n"
            "def reqFields (self : SelfView) (socket_address : Addr) : IntroReqView :=\n"
            f"  ⟨{f_old[0]}, {f_old[1]}, {f_old[2]}⟩\n")


def ident_truncation(pay_tree) -> str:
    """which payload classes reduce the identifier modulo 65536 themselves (old-style __init__), which pack it raw as 'H'"""
    lines = ["/-- does the payload class reduce its identifier modulo 65536 itself?  (otherwise it is packed raw as an",
             "    unsigned 16 bit field and a larger value is a PackError) -/", "def identTruncated : PayloadKind → Bool"]
    for py, lean in PAYLOADS.items():
        cls = _cls(pay_tree, py, PAY)
        init = next((n for n in cls.body if isinstance(n, ast.FunctionDef) and n.name == "__init__"), None)
        trunc = False
        if init is not None:
            for st in ast.walk(init):
                if isinstance(st, ast.Assign) and _src(st.targets[0]) == "self.identifier":
                    if _src(st.value) == "identifier % 65536":
                        trunc = True
                    elif _src(st.value) != "identifier":
                        raise TranslatorError(f"{py}.__init__: identifier handling outside the subset: `{_src(st)}`")
        fl = next((n for n in cls.body if isinstance(n, ast.Assign) and _src(n.targets[0]) == "format_list"), None)
        if fl is None:
            raise TranslatorError(f"{py}: no format_list")
        fmt = ast.literal_eval(fl.value)
        if init is None:   # VariablePayload: the identifier's position in `names` must be an 'H' field
            if "H" not in fmt:
                raise TranslatorError(f"{py}: identifier is not a 16 bit field: {fmt}")
        lines.append(f"  | .{lean} => {'true' if trunc else 'false'}")
    return "\n".join(lines) + "\n"


NET = "ipv8/peerdiscovery/network.py"
LAZY = "ipv8/lazy_community.py"


def _bool_atoms(e, atoms: dict, where: str) -> str:
    """boolean structure over recognised atoms (exact source text of the atom -> Lean term)"""
    if isinstance(e, ast.BoolOp):
        return "(" + (" && " if isinstance(e.op, ast.And) else " || ").join(_bool_atoms(v, atoms, where) for v in e.values) + ")"
    if isinstance(e, ast.UnaryOp) and isinstance(e.op, ast.Not):
        return f"(!{_bool_atoms(e.operand, atoms, where)})"
    t = _src(e)
    if t in atoms:
        return atoms[t]
    raise TranslatorError(f"{where}: condition outside the subset: `{t}`")


def discover_parts(net_tree) -> str:
    cls = _cls(net_tree, "Network", NET)
    fn = _fn(cls, "discover_address")
    body = _body(fn)
    g = body[0]
    if not (isinstance(g, ast.If) and _src(g.test) == "address in self.blacklist" and not g.orelse
            and [_src(x) for x in g.body] == ["self.add_verified_peer(peer)", "return"]):
        raise TranslatorError(f"discover_address: blacklist guard changed: `{_src(g)[:120]}`")
    w = body[1]
    if not (isinstance(w, ast.With) and len(body) == 2):
        raise TranslatorError("discover_address: expected the blacklist guard followed by one `with self.graph_lock:` block")
    cond = next((x for x in w.body if isinstance(x, ast.If)), None)
    if cond is None or cond.orelse:
        raise TranslatorError("discover_address: re-parenting `if` not found")
    st0 = cond.body[0]
    if _src(st0) != "self._all_addresses[address] = WalkableAddress(peer.public_key.key_to_bin(), service, new_style)":
        raise TranslatorError(f"discover_address: unexpected record written: `{_src(st0)}`")
    if _src(w.body[-1]) != "self.add_verified_peer(peer)" or w.body.index(cond) != 0:
        raise TranslatorError("discover_address: expected `if <re-parent>: ...` then `self.add_verified_peer(peer)`")
    atoms = {"address not in self._all_addresses": "(!known)", "address in self._all_addresses": "known",
             "self._all_addresses[address].introduced_by not in self.verified_by_public_key_bin": "(!introducer_verified)",
             "self._all_addresses[address].introduced_by in self.verified_by_public_key_bin": "introducer_verified"}
    return ("/-- Network.discover_address: is the record of the address (re)written with the introducing peer?  `known`: the\n"
            "    address is in _all_addresses; `introducer_verified`: its recorded introducer is a verified peer (false for the\n"
            "    empty introducer of snapshot / contact-only records) -/\n"
            "def reparents (known introducer_verified : Bool) : Bool :=\n  "
            + _bool_atoms(cond.test, atoms, "discover_address") + "\n")


def lazy_wrapper_parts(lazy_tree) -> str:
    fn = next((n for n in lazy_tree.body if isinstance(n, ast.FunctionDef) and n.name == "lazy_wrapper"), None)
    if fn is None:
        raise TranslatorError("lazy_community.py: lazy_wrapper not found")
    wr = next((n for n in ast.walk(fn) if isinstance(n, ast.FunctionDef) and n.name == "wrapper"), None)
    if wr is None:
        raise TranslatorError("lazy_wrapper: inner wrapper not found")
    body = wr.body
    i = next((k for k, x in enumerate(body)
              if _src(x) == "peer = self.network.verified_by_public_key_bin.get(auth.public_key_bin)"), None)
    if i is None or i + 2 >= len(body):
        raise TranslatorError("lazy_wrapper: known-peer lookup not found")
    r, ret = body[i + 1], body[i + 2]
    if not (isinstance(r, ast.If) and not r.orelse and [_src(x) for x in r.body] == ["peer.add_address(source_address)"]):
        raise TranslatorError(f"lazy_wrapper: address refresh changed: `{_src(r)[:120]}`")
    if _src(ret) != "return func(self, peer or Peer(auth.public_key_bin, source_address), *unpacked)":
        raise TranslatorError(f"lazy_wrapper: unexpected hand-over to the handler: `{_src(ret)}`")
    return ("/-- lazy_wrapper: is the source address of a signed packet registered on the sender's stored Peer?  `known`: the\n"
            "    sender's key is a verified peer -/\n"
            "def refreshesAddress (known : Bool) : Bool :=\n  " + _bool_atoms(r.test, {"peer": "known"}, "lazy_wrapper") + "\n")


def translate() -> str:
    com = _parse(COM)
    ept = _parse(EPF)
    pay = _parse(PAY)
    cc = _cls(com, "Community", COM)
    subnets = lan_subnets(ept)
    ids = msg_ids(pay)
    table, spec = dispatch(cc, ids)
    kinds = list(PAYLOADS.values())
    out = ["/- GENERATED by tools/gen_c13.py from ipv8/community.py, ipv8/messaging/interfaces/endpoint.py and",
           "   ipv8/messaging/payload.py — do not edit; regenerated on every run of ./check C13 -/",
           "import Ipv8.C13.Types", "", "set_option linter.unusedVariables false", "", "namespace Ipv8.C13", "",
           "inductive PayloadKind where", "  | " + " | ".join(kinds), "deriving DecidableEq, Repr", "",
           "inductive Handler where", "  | " + " | ".join(HANDLERS.values()), "deriving DecidableEq, Repr", "",
           "namespace Gen", "",
           "/-- EndpointListener.address_in_lan_subnets: (subnet base address, significant bits) -/",
           "def lanSubnets : List (Nat × Nat) := [" + ", ".join(f"({b}, {n})" for b, n in subnets) + "]", "",
           "/-- msg_id of each payload class -/", "def msgId : PayloadKind → Nat"]
    for py, lean in PAYLOADS.items():
        out.append(f"  | .{lean} => {ids[py]}")
    out += ["", "/-- Community.__init__: add_message_handler(<Payload>, self.<handler>) as (msg_id, handler) -/",
            "def dispatch : List (Nat × Handler) := [" + ", ".join(f"({i}, .{h})" for i, h in table) + "]", "",
            "/-- decorator of each handler: (signed?, payload class it decodes) -/",
            "def handlerSpec : Handler → Bool × PayloadKind"]
    for lean, (signed, pk) in spec.items():
        out.append(f"  | .{lean} => ({'true' if signed else 'false'}, .{pk})")
    out += ["", puncture_sends(cc), intro_response_parts(cc), create_response_parts(cc), intro_request_parts(cc),
            create_request_parts(cc), ident_truncation(pay), discover_parts(_parse(NET)), lazy_wrapper_parts(_parse(LAZY)),
            "end Gen", "end Ipv8.C13", ""]
    return "\n".join(out)


if __name__ == "__main__":
    print(translate())
