"""
Translator for C11: regenerates lean/Ipv8/C11/GenOverlays.lean from the working tree.

What is read from the source (AST only; nothing is executed except importing the overlay modules for `load_classes`):
  * the list of shipped overlay classes: every class below ipv8/ (tests excluded) whose base-class chain reaches
    `Overlay`, minus the abstract bases (Overlay, EZPackOverlay, Community);
  * for each class, the statement sequence of `unload` flattened along the MRO (`await super().unload()` splices the
    parent's sequence in), expressed in the op vocabulary of Ipv8/C11/Model.lean (`UOp`).  A statement that is not in
    the vocabulary raises TranslatorError;
  * constructor facts along the MRO: installs a proxy listener (`*.setup_tunnels(self, …)`), owns a RequestCache,
    owns a database;
  * whether TunnelEndpoint defines remove_listener and forwards it to the wrapped endpoint;
  * the condition under which the three remove_* tasks sleep before removing, as boolean functions of
    (remove_now, remove_tunnel_delay), and the default remove_tunnel_delay.
"""
from __future__ import annotations

import ast
import importlib
from pathlib import Path

from vlib import REPO, TranslatorError

ABSTRACT = {"Overlay", "EZPackOverlay", "Community"}


# ---- class discovery ----------------------------------------------------------------------------------
def _scan():
    """name -> (module name, path, ClassDef, base names) for every class in ipv8/ outside the tests."""
    out = {}
    dup = set()
    root = Path(REPO) / "ipv8"
    for p in sorted(root.rglob("*.py")):
        rel = p.relative_to(REPO)
        if "test" in rel.parts:
            continue
        try:
            tree = ast.parse(p.read_text())
        except SyntaxError as e:
            raise TranslatorError(f"cannot parse {rel}: {e}") from e
        mod = ".".join(rel.with_suffix("").parts)
        if mod.endswith(".__init__"):
            mod = mod[:-9]
        for node in tree.body:
            if isinstance(node, ast.ClassDef):
                bases = []
                for b in node.bases:
                    if isinstance(b, ast.Subscript):
                        b = b.value
                    if isinstance(b, ast.Name):
                        bases.append(b.id)
                    elif isinstance(b, ast.Attribute):
                        bases.append(b.attr)
                if node.name in out:
                    # same class name in two modules: keep the one whose chain can reach Overlay / the anonymization one
                    if node.name in ("Overlay", "Community", "TunnelCommunity", "TunnelSettings"):
                        raise TranslatorError(f"two classes named {node.name}")
                    if node.name == "TunnelEndpoint":
                        if mod == "ipv8.messaging.anonymization.endpoint":
                            out[node.name] = (mod, p, node, bases)
                        continue
                    dup.add(node.name)
                    continue
                out[node.name] = (mod, p, node, bases)
    for d in dup:
        if _reaches(out, d):
            raise TranslatorError(f"two classes named {d}, one of them an overlay")
    return out


def _chain(scan, name):
    """Linearised single-inheritance chain of overlay bases (first overlay base at each level)."""
    chain = [name]
    cur = name
    while cur != "Overlay":
        bases = [b for b in scan[cur][3] if b in scan and _reaches(scan, b)]
        if not bases:
            raise TranslatorError(f"{cur}: no overlay base class found")
        if len(bases) > 1:
            raise TranslatorError(f"{cur}: multiple overlay bases {bases} (outside the translator's subset)")
        cur = bases[0]
        chain.append(cur)
    return chain


def _reaches(scan, name, seen=()):
    if name == "Overlay":
        return True
    if name not in scan or name in seen:
        return False
    return any(_reaches(scan, b, (*seen, name)) for b in scan[name][3])


def shipped(scan=None):
    scan = scan or _scan()
    if "Overlay" not in scan:
        raise TranslatorError("class Overlay not found")
    names = sorted(n for n in scan if n not in ABSTRACT and _reaches(scan, n))
    if not names:
        raise TranslatorError("no overlay classes found")
    return names


def load_classes():
    scan = _scan()
    res = {}
    for n in shipped(scan):
        mod = importlib.import_module(scan[n][0])
        res[n] = getattr(mod, n)
    return res


# ---- unload translation ---------------------------------------------------------------------------------
def _method(cls_node, name):
    for n in cls_node.body:
        if isinstance(n, (ast.FunctionDef, ast.AsyncFunctionDef)) and n.name == name:
            return n
    return None


def _src(node):
    return ast.unparse(node)


def _is_self_attr(node, *attrs):
    """self.a.b…"""
    for a in reversed(attrs):
        if not (isinstance(node, ast.Attribute) and node.attr == a):
            return False
        node = node.value
    return isinstance(node, ast.Name) and node.id == "self"


REMOVALS = {"remove_circuit": ("circuits", "remCircuit"), "remove_relay": ("relay_from_to", "remRelay"),
            "remove_exit_socket": ("exit_sockets", "remExit")}


def _translate_stmt(st, aliases, where):
    """-> list of op strings (Lean constructor applications of UOp)"""
    # docstring
    if isinstance(st, ast.Expr) and isinstance(st.value, ast.Constant) and isinstance(st.value.value, str):
        return []
    # statements without an effect on what the model tracks: `pass`, logging calls
    if isinstance(st, ast.Pass):
        return []
    if isinstance(st, ast.Expr) and isinstance(st.value, ast.Call) and isinstance(st.value.func, ast.Attribute) \
            and st.value.func.attr in ("debug", "info", "warning", "error", "exception", "critical", "log"):
        base = st.value.func.value
        if (isinstance(base, ast.Name) and base.id in ("logger", "logging")) or _is_self_attr(base, "logger") \
                or _is_self_attr(base, "_logger"):
            return []
    # early return on the task manager's flag:  if self._shutdown: return
    # NOT an idempotence guard: the flag is also set by the public shutdown_task_manager() every overlay inherits, so the
    # rest of the unload is skipped for the history "shutdown_task_manager(); unload()".  Translated, and rejected by scriptOk.
    if isinstance(st, ast.If) and not st.orelse and "self._shutdown" in _src(st.test) and "not" not in _src(st.test) \
            and any(isinstance(x, ast.Return) for x in st.body):
        return [".returnIfDown"]
    # try: … finally: …  (no handlers): the statements of both blocks in order
    if isinstance(st, ast.Try) and not st.handlers and not st.orelse:
        ops = []
        for b in [*st.body, *st.finalbody]:
            ops += _translate_stmt(b, aliases, where)
        return ops
    # the TunnelEndpoint's back reference:  if … self.endpoint.tunnel_community is self: self.endpoint.set_tunnel_community(None)
    if isinstance(st, ast.If) and not st.orelse and len(st.body) == 1:
        tests = st.test.values if isinstance(st.test, ast.BoolOp) and isinstance(st.test.op, ast.And) else [st.test]
        guards_ref = any(isinstance(t, ast.Compare) and len(t.ops) == 1 and isinstance(t.ops[0], (ast.Is, ast.Eq))
                         and _is_self_attr(t.left, "endpoint", "tunnel_community")
                         and isinstance(t.comparators[0], ast.Name) and t.comparators[0].id == "self" for t in tests)
        others_ok = all((isinstance(t, ast.Compare) and _is_self_attr(t.left, "endpoint", "tunnel_community"))
                        or (isinstance(t, ast.Call) and isinstance(t.func, ast.Name) and t.func.id in ("isinstance", "hasattr"))
                        for t in tests)
        b = st.body[0]
        clears = (isinstance(b, ast.Expr) and isinstance(b.value, ast.Call)
                  and _is_self_attr(b.value.func, "endpoint", "set_tunnel_community") and len(b.value.args) >= 1
                  and isinstance(b.value.args[0], ast.Constant) and b.value.args[0].value is None) \
            or (isinstance(b, ast.Assign) and len(b.targets) == 1 and _is_self_attr(b.targets[0], "endpoint", "tunnel_community")
                and isinstance(b.value, ast.Constant) and b.value.value is None)
        if guards_ref and others_ok and clears:
            return [".clearEndpointRef"]
    # await X
    if isinstance(st, ast.Expr) and isinstance(st.value, ast.Await):
        call = st.value.value
        if isinstance(call, ast.Call):
            f = call.func
            if _is_self_attr(f, "request_cache", "shutdown") and not call.args:
                return [".cacheShutdown"]
            if _is_self_attr(f, "shutdown_task_manager") and not call.args:
                return [".tmShutdown"]
            if (isinstance(f, ast.Attribute) and f.attr == "unload" and isinstance(f.value, ast.Call)
                    and isinstance(f.value.func, ast.Name) and f.value.func.id == "super"):
                return ["SUPER"]
            # await gather(*removals) / await gather(*removals, return_exceptions=True)
            if isinstance(f, ast.Name) and f.id == "gather" and len(call.args) == 1 \
                    and isinstance(call.args[0], ast.Starred) and isinstance(call.args[0].value, ast.Name) \
                    and aliases.get(call.args[0].value.id) == "removals":
                return [".awaitRemovals"]
    # plain calls
    if isinstance(st, ast.Expr) and isinstance(st.value, ast.Call):
        call = st.value
        f = call.func
        if _is_self_attr(f, "endpoint", "remove_listener") and len(call.args) == 1:
            a = call.args[0]
            if isinstance(a, ast.Name) and a.id == "self":
                return [".removeSelf"]
            if isinstance(a, ast.Name) and aliases.get(a.id) == "proxy":
                return [".removeProxy"]
            if _is_self_attr(a, "crypto_endpoint"):
                return [".removeProxy"]
        if _is_self_attr(f, "database", "close") and not call.args:
            return [".closeDb"]
        for meth, (coll, ctor) in REMOVALS.items():
            if _is_self_attr(f, coll, "clear") and not call.args:
                return [f"(.clearTable .{ctor})"]
    # while self.bootstrappers: b = self.bootstrappers.pop(); b.unload()
    if isinstance(st, ast.While) and _is_self_attr(st.test, "bootstrappers"):
        body = " ; ".join(_src(b) for b in st.body)
        if ".pop" in body and ".unload()" in body and len(st.body) <= 3:
            return [".unloadBootstrappers"]
    # for b in self.bootstrappers: b.unload()
    if isinstance(st, ast.For) and not st.orelse and "self.bootstrappers" in _src(st.iter) and isinstance(st.target, ast.Name) \
            and len(st.body) == 1 and _src(st.body[0]).strip() == f"{st.target.id}.unload()":
        return [".unloadBootstrappers"]
    # self.bootstrappers.clear() / self.bootstrappers = []  after such a loop
    if _src(st).strip() in ("self.bootstrappers.clear()", "self.bootstrappers = []"):
        return []
    # for exit_socket in list(self.exit_sockets.values()): await exit_socket.close()
    if isinstance(st, ast.For) and len(st.body) == 1 and not st.orelse and isinstance(st.target, ast.Name) \
            and "self.exit_sockets" in _src(st.iter) and isinstance(st.body[0], ast.Expr) \
            and isinstance(st.body[0].value, ast.Await) and isinstance(st.body[0].value.value, ast.Call):
        c = st.body[0].value.value
        if isinstance(c.func, ast.Attribute) and c.func.attr == "close" and isinstance(c.func.value, ast.Name) \
                and c.func.value.id == st.target.id and not c.args:
            return [".closeExitSockets"]
    # while self.<children>: … await <child>.unload() / await self.ipv8.unload_overlay(<child>)
    if isinstance(st, ast.While) and isinstance(st.test, ast.Attribute) and isinstance(st.test.value, ast.Name) \
            and st.test.value.id == "self" and st.test.attr != "bootstrappers":
        body = " ; ".join(_src(b) for b in st.body)
        if f"self.{st.test.attr}.pop" in body and ("unload_overlay(" in body or ".unload()" in body) and "await " in body:
            return [".unloadChildren"]
    # for circuit_id in list(self.<dict>.keys()): self.remove_x(circuit_id, …, remove_now=True, …)
    if isinstance(st, ast.For) and len(st.body) == 1 and not st.orelse:
        inner = st.body[0]
        call = None
        collect = False
        if isinstance(inner, ast.Expr) and isinstance(inner.value, ast.Call):
            call = inner.value
            # removals.append(self.remove_x(...))
            if (isinstance(call.func, ast.Attribute) and call.func.attr == "append"
                    and isinstance(call.func.value, ast.Name) and aliases.get(call.func.value.id) == "removals"
                    and len(call.args) == 1 and isinstance(call.args[0], ast.Call)):
                call = call.args[0]
                collect = True
        if call is not None and isinstance(call.func, ast.Attribute) and call.func.attr in REMOVALS \
                and isinstance(call.func.value, ast.Name) and call.func.value.id == "self":
            coll, ctor = REMOVALS[call.func.attr]
            it = _src(st.iter)
            if f"self.{coll}" not in it:
                raise TranslatorError(f"{where}: {call.func.attr} loop iterates over {it}")
            kw = {k.arg: k.value for k in call.keywords}
            now = kw.get("remove_now")
            remove_now = isinstance(now, ast.Constant) and now.value is True
            return [f"(.spawnRemovals .{ctor} {'true' if remove_now else 'false'} {'true' if collect else 'false'})"]
    # x = getattr(self, "crypto_endpoint", None) / removals = []
    if isinstance(st, ast.Assign) and len(st.targets) == 1 and isinstance(st.targets[0], ast.Name):
        v = st.value
        tgt = st.targets[0].id
        if (isinstance(v, ast.Call) and isinstance(v.func, ast.Name) and v.func.id == "getattr" and len(v.args) == 3
                and isinstance(v.args[0], ast.Name) and v.args[0].id == "self"
                and isinstance(v.args[1], ast.Constant) and v.args[1].value == "crypto_endpoint"):
            aliases[tgt] = "proxy"
            return []
        if isinstance(v, ast.List) and not v.elts:
            aliases[tgt] = "removals"
            return []
    if isinstance(st, ast.AnnAssign) and isinstance(st.target, ast.Name) and isinstance(st.value, ast.List) \
            and not st.value.elts:
        aliases[st.target.id] = "removals"
        return []
    # <proxy>.tunnel_community = None
    if isinstance(st, ast.Assign) and len(st.targets) == 1 and isinstance(st.targets[0], ast.Attribute) \
            and st.targets[0].attr == "tunnel_community" and isinstance(st.value, ast.Constant) and st.value.value is None:
        base = st.targets[0].value
        if (isinstance(base, ast.Name) and aliases.get(base.id) == "proxy") or _is_self_attr(base, "crypto_endpoint"):
            return [".clearFwd"]
    # if isinstance(<proxy>, PythonCryptoEndpoint): …   (the guard is true exactly when a proxy was installed)
    if isinstance(st, ast.If) and not st.orelse and isinstance(st.test, ast.Call) \
            and isinstance(st.test.func, ast.Name) and st.test.func.id == "isinstance" and len(st.test.args) == 2:
        a0, a1 = st.test.args
        is_proxy = (isinstance(a0, ast.Name) and aliases.get(a0.id) == "proxy") or _is_self_attr(a0, "crypto_endpoint")
        if is_proxy and isinstance(a1, ast.Name) and a1.id == "PythonCryptoEndpoint":
            ops = []
            for b in st.body:
                ops += _translate_stmt(b, aliases, where)
            return ops
    # if self.exit_sockets: <sweep>      (a guard on the table that is swept: same effect as the bare loop)
    if isinstance(st, ast.If) and not st.orelse and _src(st.test) in ("self.exit_sockets", "self.pex", "self.circuits",
                                                                     "self.relay_from_to", "len(self.exit_sockets) > 0"):
        ops = []
        for b in st.body:
            ops += _translate_stmt(b, aliases, where)
        return ops
    # if removals: await gather(*removals)
    if isinstance(st, ast.If) and not st.orelse and isinstance(st.test, ast.Name) and aliases.get(st.test.id) == "removals":
        ops = []
        for b in st.body:
            ops += _translate_stmt(b, aliases, where)
        return ops
    raise TranslatorError(f"{where}: statement outside the unload vocabulary: `{_src(st)[:120]}`")


def unload_script(scan, name):
    chain = _chain(scan, name)

    def of(i):
        # first class at or after position i of the chain that defines unload
        while i < len(chain) and _method(scan[chain[i]][2], "unload") is None:
            i += 1
        if i >= len(chain):
            raise TranslatorError(f"{name}: no unload method in the base-class chain")
        fn = _method(scan[chain[i]][2], "unload")
        if not isinstance(fn, ast.AsyncFunctionDef):
            raise TranslatorError(f"{chain[i]}.unload is not a coroutine function")
        ops, aliases = [], {}
        for st in fn.body:
            for op in _translate_stmt(st, aliases, f"{chain[i]}.unload"):
                if op == "SUPER":
                    ops += of(i + 1)
                else:
                    ops.append(op)
        return ops

    return of(0)


def owns_children(scan, name, overlay_names):
    """Does the class (or an overlay base) construct another shipped overlay class somewhere in its methods?"""
    for c in _chain(scan, name):
        for node in ast.walk(scan[c][2]):
            if isinstance(node, ast.Call) and isinstance(node.func, ast.Name) and node.func.id in overlay_names \
                    and node.func.id != name:
                return True
    return False


def init_facts(scan, name):
    proxy = cache = db = False
    for c in _chain(scan, name):
        fn = _method(scan[c][2], "__init__")
        if fn is None:
            continue
        for node in ast.walk(fn):
            if isinstance(node, ast.Call) and isinstance(node.func, ast.Attribute) and node.func.attr == "setup_tunnels":
                proxy = True
            if isinstance(node, ast.Assign) and len(node.targets) == 1:
                t = node.targets[0]
                if _is_self_attr(t, "request_cache") and "RequestCache" in _src(node.value):
                    cache = True
                if _is_self_attr(t, "database"):
                    db = True
    return proxy, cache, db


# ---- TunnelEndpoint.remove_listener ------------------------------------------------------------------------
def tunnel_endpoint_forwards(scan):
    if "TunnelEndpoint" not in scan:
        raise TranslatorError("class TunnelEndpoint not found")
    node = scan["TunnelEndpoint"][2]
    res = {}
    for meth in ("add_listener", "add_prefix_listener", "remove_listener"):
        fn = _method(node, meth)
        fwd = False
        if fn is not None:
            body = [s for s in fn.body if not (isinstance(s, ast.Expr) and isinstance(s.value, ast.Constant))]
            if len(body) == 1 and isinstance(body[0], ast.Expr) and isinstance(body[0].value, ast.Call):
                f = body[0].value.func
                fwd = _is_self_attr(f, "endpoint", meth)
            if not fwd:
                raise TranslatorError(f"TunnelEndpoint.{meth} is defined but is not a plain forward: `{_src(fn)[:200]}`")
        res[meth] = fwd
    return res


def statistics_endpoint_forwards_remove(scan):
    """StatisticsEndpoint inherits Endpoint's list handling and reads the wrapped endpoint's lists through __getattribute__:
    the inherited add_* mutate the inner lists in place (= forwarding), the inherited remove_listener REBINDS the lists on the
    wrapper.  It forwards removals only if it defines remove_listener as a plain forward."""
    if "StatisticsEndpoint" not in scan:
        raise TranslatorError("class StatisticsEndpoint not found")
    fn = _method(scan["StatisticsEndpoint"][2], "remove_listener")
    if fn is None:
        return False
    body = [s for s in fn.body if not (isinstance(s, ast.Expr) and isinstance(s.value, ast.Constant))]
    if len(body) == 1 and isinstance(body[0], ast.Expr) and isinstance(body[0].value, ast.Call) \
            and _is_self_attr(body[0].value.func, "endpoint", "remove_listener"):
        return True
    raise TranslatorError(f"StatisticsEndpoint.remove_listener is defined but is not a plain forward: `{_src(fn)[:200]}`")


# ---- the sleep guard of remove_* -----------------------------------------------------------------------------
def _bool_expr(e, where):
    if isinstance(e, ast.BoolOp):
        op = " || " if isinstance(e.op, ast.Or) else " && "
        return "(" + op.join(_bool_expr(v, where) for v in e.values) + ")"
    if isinstance(e, ast.UnaryOp) and isinstance(e.op, ast.Not):
        return "(!" + _bool_expr(e.operand, where) + ")"
    if isinstance(e, ast.Name) and e.id == "remove_now":
        return "removeNow"
    if isinstance(e, ast.Constant) and isinstance(e.value, bool):
        return "true" if e.value else "false"
    if isinstance(e, ast.Compare) and len(e.ops) == 1 and _is_self_attr(e.left, "settings", "remove_tunnel_delay") \
            and isinstance(e.comparators[0], ast.Constant) and isinstance(e.comparators[0].value, int):
        sym = {ast.Gt: ">", ast.GtE: "≥", ast.Lt: "<", ast.LtE: "≤", ast.Eq: "=", ast.NotEq: "≠"}.get(type(e.ops[0]))
        if sym:
            return f"decide (delay {sym} {e.comparators[0].value})"
    raise TranslatorError(f"{where}: sleep guard outside the translator's subset: `{_src(e)}`")


def removal_guards(scan):
    node = scan["TunnelCommunity"][2]
    out = {}
    for meth, (_, ctor) in REMOVALS.items():
        fn = _method(node, meth)
        if fn is None:
            raise TranslatorError(f"TunnelCommunity.{meth} not found")
        guards = []
        for st in fn.body:   # top-level statements only
            sleeps = [n for n in ast.walk(st) if isinstance(n, ast.Await) and isinstance(n.value, ast.Call)
                      and isinstance(n.value.func, ast.Name) and n.value.func.id == "sleep"]
            if not sleeps:
                continue
            if isinstance(st, ast.If) and not st.orelse and len(st.body) == 1:
                try:
                    guards.append(_bool_expr(st.test, f"TunnelCommunity.{meth}"))
                except TranslatorError:
                    guards.append("true")      # unknown guard: "may sleep" (no C11 theorem depends on the guard)
            elif isinstance(st, ast.Expr):
                guards.append("true")
            else:
                guards.append("true")
        out[ctor] = "(" + " || ".join(guards) + ")" if guards else "false"
    return out


def default_delay(scan):
    node = scan["TunnelSettings"][2]
    for st in node.body:
        if isinstance(st, ast.Assign) and len(st.targets) == 1 and isinstance(st.targets[0], ast.Name) \
                and st.targets[0].id == "remove_tunnel_delay" and isinstance(st.value, ast.Constant) \
                and isinstance(st.value.value, int) and st.value.value >= 0:
            return st.value.value
    raise TranslatorError("TunnelSettings.remove_tunnel_delay: not a non-negative integer literal")


# ---- TaskManager / RequestCache: the structure the scheduler model relies on --------------------------------------
_INLINE_CLASSES = []      # class nodes whose private helper methods may be inlined (set by task_manager_facts)


def _inlined(node, depth=0, seen=()):
    """(sub-node, position) pairs of `node`, with the bodies of private helper methods of the same class(es) that are called
    as `self._helper(…)` inlined at their call site (position = line of the call in the outermost function).  A statement
    sequence that was moved into a single-purpose helper is read as if it still stood where the helper is called."""
    for n in ast.walk(node):
        pos = getattr(n, "lineno", None)
        yield n, pos
        if depth < 3 and isinstance(n, ast.Call) and isinstance(n.func, ast.Attribute) and isinstance(n.func.value, ast.Name) \
                and n.func.value.id == "self" and n.func.attr.startswith("_") and not n.func.attr.startswith("__") \
                and n.func.attr not in seen:
            for cls in _INLINE_CLASSES:
                helper = _method(cls, n.func.attr)
                if helper is not None:
                    for m, _ in _inlined(helper, depth + 1, (*seen, n.func.attr)):
                        yield m, n.lineno
                    break


def _walk_inlined(node):
    return [n for n, _ in _inlined(node)]


def _first_line(node, pred, inline=True):
    """position of the first sub-node satisfying pred (helpers inlined at their call site unless inline=False), or None"""
    if inline:
        hits = [pos for n, pos in _inlined(node) if pos is not None and pred(n)]
    else:
        hits = [n.lineno for n in ast.walk(node) if hasattr(n, "lineno") and pred(n)]
    return min(hits) if hits else None


def _tests_shutdown(n):
    return isinstance(n, ast.If) and "self._shutdown" in _src(n.test) and "not" not in _src(n.test).split("self._shutdown")[0][-5:]


def task_manager_facts(scan):
    """Structural facts of taskmanager.py / requestcache.py that the hand-written scheduler model (TM.register, isActive,
    cancel, replace, shutdownOp, pass) mirrors.  Recognised semantically (which guard, in which order), not textually."""
    if "TaskManager" not in scan or "RequestCache" not in scan:
        raise TranslatorError("TaskManager / RequestCache not found")
    tm, rc = scan["TaskManager"][2], scan["RequestCache"][2]
    del _INLINE_CLASSES[:]
    _INLINE_CLASSES.extend([rc, tm])
    facts = {}
    reg = _method(tm, "register_task")
    if reg is None:
        raise TranslatorError("TaskManager.register_task not found")
    store = _first_line(reg, lambda n: isinstance(n, ast.Assign) and any(
        isinstance(t, ast.Subscript) and _is_self_attr(t.value, "_pending_tasks") for t in n.targets))
    if store is None:
        raise TranslatorError("register_task: no `self._pending_tasks[name] = …`")
    g_down = _first_line(reg, lambda n: _tests_shutdown(n) and any(isinstance(x, ast.Return) for x in ast.walk(n)),
                         inline=False)
    g_act = _first_line(reg, lambda n: isinstance(n, ast.If) and "is_pending_task_active" in _src(n.test)
                        and any(isinstance(x, ast.Raise) for x in n.body))
    facts["registerRefusesWhenShutdown"] = g_down is not None and g_down < store
    facts["registerRaisesWhenActive"] = g_act is not None and g_act < store
    facts["registerChecksShutdownFirst"] = g_down is not None and g_act is not None and g_down < g_act
    # the done-callback of a registered task: whatever register_task hands to add_done_callback — a nested function, a bound
    # method of the class, or functools.partial of one
    def _callback_fn(arg):
        if isinstance(arg, ast.Call) and isinstance(arg.func, ast.Name) and arg.func.id == "partial" and arg.args:
            arg = arg.args[0]
        if isinstance(arg, ast.Name):
            return next((n for n in _walk_inlined(reg) if isinstance(n, ast.FunctionDef) and n.name == arg.id), None)
        if isinstance(arg, ast.Attribute) and isinstance(arg.value, ast.Name) and arg.value.id == "self":
            return _method(tm, arg.attr)
        return None

    cbs = [_callback_fn(n.args[0]) for n in _walk_inlined(reg)
           if isinstance(n, ast.Call) and isinstance(n.func, ast.Attribute) and n.func.attr == "add_done_callback" and n.args]
    cbs = [c for c in cbs if c is not None and "_pending_tasks" in _src(c)]

    def _untracks_only_itself(fn):
        guarded = [b for n in ast.walk(fn) if isinstance(n, ast.If) and isinstance(n.test, ast.Compare)
                   and isinstance(n.test.ops[0], ast.Is) and "_pending_tasks" in _src(n.test)
                   for b in n.body for x in ast.walk(b)
                   if isinstance(x, ast.Call) and isinstance(x.func, ast.Attribute) and x.func.attr == "pop"
                   and _is_self_attr(x.func.value, "_pending_tasks")]
        pops = [x for x in ast.walk(fn) if isinstance(x, ast.Call) and isinstance(x.func, ast.Attribute)
                and x.func.attr == "pop" and _is_self_attr(x.func.value, "_pending_tasks")]
        return bool(pops) and len(guarded) == len(pops)          # every untracking is behind the identity check

    facts["doneCallbackUntracksOnlyItself"] = len(cbs) == 1 and _untracks_only_itself(cbs[0])
    facts["periodicRunnerGetsStopCheck"] = any(
        isinstance(n, ast.Call) and isinstance(n.func, ast.Name) and n.func.id == "interval_runner"
        and any(k.arg == "stop" and "_shutdown" in _src(k.value) for k in n.keywords) for n in _walk_inlined(reg))
    anon = _method(tm, "register_anonymous_task")
    # the counter the anonymous names are derived from only ever grows (no wrap-around, no reset): names never repeat
    anon_nodes = _walk_inlined(anon) if anon is not None else []
    facts["anonymousNamesNeverRepeat"] = any(
        isinstance(n, ast.AugAssign) and isinstance(n.op, ast.Add) and _is_self_attr(n.target, "_counter")
        and isinstance(n.value, ast.Constant) and n.value.value == 1 for n in anon_nodes) and not any(
        isinstance(n, ast.Assign) and any(_is_self_attr(t, "_counter") for t in n.targets) for n in anon_nodes) and not any(
        isinstance(n, ast.AugAssign) and _is_self_attr(n.target, "_counter") and not isinstance(n.op, ast.Add) for n in anon_nodes)
    act = _method(tm, "is_pending_task_active")
    rets = [n for n in ast.walk(act)] if act is not None else []
    rets = [n for n in rets if isinstance(n, ast.Return) and n.value is not None]
    facts["activeMeansTrackedAndNotDone"] = bool(rets) and any(
        "not " in _src(n.value) and ".done()" in _src(n.value) for n in rets) and not any(
        isinstance(n.value, ast.Constant) and n.value.value is True for n in rets) and "_pending_tasks" in _src(act)
    canc = _method(tm, "cancel_pending_task")
    facts["cancelUntracksAtOnce"] = canc is not None and any(
        isinstance(n, ast.If) and "not pending_task.done()" in _src(n.test)
        and any(".cancel()" in _src(b) for b in n.body) and any("_pending_tasks.pop" in _src(b) for b in n.body)
        for n in _walk_inlined(canc))
    call = _method(tm, "cancel_all_pending_tasks")
    facts["cancelAllCoversEveryTrackedName"] = call is not None and any(
        isinstance(n, ast.ListComp) and "cancel_pending_task" in _src(n.elt) and len(n.generators) == 1
        and not n.generators[0].ifs and "_pending_tasks" in _src(n.generators[0].iter) for n in _walk_inlined(call))
    rep = _method(tm, "replace_task")
    if rep is None:
        raise TranslatorError("TaskManager.replace_task not found")
    inner = [n for n in rep.body if isinstance(n, ast.FunctionDef)]
    outer_calls = [n for st in rep.body if not isinstance(st, ast.FunctionDef) for n in ast.walk(st)
                   if isinstance(n, ast.Call) and _is_self_attr(n.func, "register_task")]
    facts["replaceRegistersOnlyFromDoneCallback"] = (
        not outer_calls and len(inner) == 1 and "self.register_task(" in _src(inner[0])
        and any(isinstance(n, ast.Call) and isinstance(n.func, ast.Attribute) and n.func.attr == "add_done_callback"
                and n.args and isinstance(n.args[0], ast.Name) and n.args[0].id == inner[0].name for n in ast.walk(rep))
        and "cancel_pending_task" in _src(rep))

    def shutdown_facts(fn, prefix):
        if fn is None:
            raise TranslatorError(f"{prefix}: shutdown method not found")
        flag = _first_line(fn, lambda n: isinstance(n, ast.Assign) and _src(n).replace(" ", "") == "self._shutdown=True")
        cancel = _first_line(fn, lambda n: isinstance(n, ast.Call) and _is_self_attr(n.func, "cancel_all_pending_tasks"))
        waits = [(n, pos) for n, pos in _inlined(fn) if isinstance(n, ast.Await) and isinstance(n.value, ast.Call)
                 and isinstance(n.value.func, ast.Name) and n.value.func.id == "gather"]
        facts[prefix + "SetsFlagBeforeCancelling"] = flag is not None and cancel is not None and flag <= cancel
        facts[prefix + "WaitsForAllCancelledTasks"] = bool(waits) and all(
            any(k.arg == "return_exceptions" and isinstance(k.value, ast.Constant) and k.value.value is True
                for k in w.value.keywords) for w, _ in waits) and (cancel is not None and min(p for _, p in waits) >= cancel)
        filt = _first_line(fn, lambda n: isinstance(n, ast.ListComp) and " is not " in _src(n) and n.generators
                           and n.generators[0].ifs)
        uses_current = any(isinstance(n, ast.Call) and isinstance(n.func, ast.Name) and n.func.id == "current_task"
                           for n in _walk_inlined(fn))
        facts[prefix + "DoesNotWaitForItsCaller"] = uses_current and filt is not None and all(filt <= p for _, p in waits)

    shutdown_facts(_method(tm, "shutdown_task_manager"), "shutdown")
    shutdown_facts(_method(rc, "shutdown"), "cacheShutdown")
    add = _method(rc, "add")
    if add is None:
        raise TranslatorError("RequestCache.add not found")
    store = _first_line(add, lambda n: isinstance(n, ast.Assign) and any(
        isinstance(t, ast.Subscript) and _is_self_attr(t.value, "_identifiers") for t in n.targets))
    g = _first_line(add, lambda n: _tests_shutdown(n) and any(
        isinstance(x, ast.Return) and isinstance(x.value, ast.Constant) and x.value.value is None for x in ast.walk(n)),
        inline=False)
    facts["cacheAddRefusesWhenShutdown"] = g is not None and store is not None and g < store
    # the periodic runner itself
    runner = None
    for _, (mod, path, node, _) in scan.items():
        if mod == "ipv8.taskmanager":
            tree = ast.parse(path.read_text())
            runner = next((n for n in tree.body if isinstance(n, ast.AsyncFunctionDef) and n.name == "interval_runner"), None)
            break
    facts["periodicRunnerStopsAfterShutdown"] = runner is not None and any(
        isinstance(n, ast.While) and any(isinstance(x, ast.If) and "stop" in _src(x.test)
                                         and any(isinstance(y, (ast.Return, ast.Break)) for y in x.body) for x in n.body)
        for n in ast.walk(runner))
    return facts


def service_facts(scan):
    """How the service forgets an overlay: `IPv8.unload_overlay` and the inline copy in HiddenTunnelCommunity.remove_exit_socket
    (a PEX overlay that has finished).  The `Svc` model rebuilds both lists without the instance, strategies selected by the
    overlay they drive."""
    facts = {}
    path = Path(REPO) / "ipv8_service.py"
    try:
        tree = ast.parse(path.read_text())
    except (OSError, SyntaxError) as e:
        raise TranslatorError(f"cannot parse ipv8_service.py: {e}") from e
    cls = next((n for n in ast.walk(tree) if isinstance(n, ast.ClassDef) and n.name == "IPv8"), None)
    fn = _method(cls, "unload_overlay") if cls is not None else None
    if fn is None:
        raise TranslatorError("IPv8.unload_overlay not found")

    def rebuilt(fnode, attr_chain, must_contain):
        for n in ast.walk(fnode):
            if isinstance(n, ast.Assign) and len(n.targets) == 1 and _is_self_attr(n.targets[0], *attr_chain) \
                    and isinstance(n.value, ast.ListComp) and len(n.value.generators) == 1 and n.value.generators[0].ifs:
                cond = " ".join(_src(i) for i in n.value.generators[0].ifs)
                if all(m in cond for m in must_contain) and "!=" in cond or " is not " in cond and all(m in cond for m in must_contain):
                    return True
        return False

    facts["unloadOverlayRebuildsOverlayList"] = rebuilt(fn, ("overlays",), ["instance"])
    facts["unloadOverlaySelectsStrategiesByTheirOverlay"] = rebuilt(fn, ("strategies",), [".overlay", "instance"])
    facts["unloadOverlayThenUnloadsTheInstance"] = "instance.unload" in _src(fn)
    hidden = scan.get("HiddenTunnelCommunity")
    if hidden is None:
        facts["pexOverlayLeavesServiceWithItsStrategies"] = True        # no inline copy: nothing to get wrong
    else:
        # every place of the class that rewrites the service's strategy list selects by the overlay a strategy drives
        rewrites = [n for n in ast.walk(hidden[2]) if isinstance(n, ast.Assign) and len(n.targets) == 1
                    and _is_self_attr(n.targets[0], "ipv8", "strategies")]
        facts["pexOverlayLeavesServiceWithItsStrategies"] = all(
            isinstance(n.value, ast.ListComp) and len(n.value.generators) == 1 and n.value.generators[0].ifs
            and ".overlay" in " ".join(_src(i) for i in n.value.generators[0].ifs)
            and ("!=" in " ".join(_src(i) for i in n.value.generators[0].ifs)
                 or " is not " in " ".join(_src(i) for i in n.value.generators[0].ifs)) for n in rewrites)
    return facts


def translate():
    scan = _scan()
    names = shipped(scan)
    fwd = tunnel_endpoint_forwards(scan)
    fwd["statistics_remove"] = statistics_endpoint_forwards_remove(scan)
    guards = removal_guards(scan)
    delay = default_delay(scan)
    lines = ["/- GENERATED by tools/gen_c11.py from the working tree — do not edit -/",
             "import Ipv8.C11.Model",
             "namespace Ipv8.C11.Gen",
             "open Ipv8.C11",
             "set_option linter.unusedVariables false",
             "",
             f"def tunnelEndpointForwardsAdd : Bool := {'true' if fwd['add_listener'] and fwd['add_prefix_listener'] else 'false'}",
             f"def tunnelEndpointForwardsRemove : Bool := {'true' if fwd['remove_listener'] else 'false'}",
             f"def statisticsEndpointForwardsRemove : Bool := {'true' if fwd['statistics_remove'] else 'false'}",
             f"def defaultRemoveDelay : Nat := {delay}",
             ""]
    facts = task_manager_facts(scan)
    lines.append("/-- structure of taskmanager.py / requestcache.py that the scheduler model mirrors (see design.d/C11.md) -/")
    lines.append("def schedulerFacts : List (String × Bool) := [")
    lines.append(",\n".join(f'  ("{k}", {str(v).lower()})' for k, v in facts.items()))
    lines.append("]")
    lines.append("")
    sfacts = service_facts(scan)
    lines.append("/-- how the service forgets an overlay (ipv8_service.py and the inline copy in hidden_services.py) -/")
    lines.append("def serviceFacts : List (String × Bool) := [")
    lines.append(",\n".join(f'  ("{k}", {str(v).lower()})' for k, v in sfacts.items()))
    lines.append("]")
    lines.append("")
    for ctor in ("remCircuit", "remRelay", "remExit"):
        lines.append(f"def sleeps_{ctor} (removeNow : Bool) (delay : Nat) : Bool := {guards[ctor]}")
    lines += ["",
              "def removalSleeps : RemKind → Bool → Nat → Bool",
              "  | .remCircuit, n, d => sleeps_remCircuit n d",
              "  | .remRelay, n, d => sleeps_remRelay n d",
              "  | .remExit, n, d => sleeps_remExit n d",
              "",
              "def classes : List ClassInfo := ["]
    info = []
    rows = []
    for n in names:
        script = unload_script(scan, n)
        proxy, cache, db = init_facts(scan, n)
        kids = owns_children(scan, n, set(names))
        rows.append(f"  {{ name := \"{n}\", installsProxy := {str(proxy).lower()}, hasCache := {str(cache).lower()}, "
                    f"hasDb := {str(db).lower()}, ownsChildren := {str(kids).lower()},\n    script := [{', '.join(script)}] }}")
        info.append({"name": n, "script": script, "proxy": proxy, "cache": cache, "db": db})
    lines.append(",\n".join(rows))
    lines += ["]", "", "end Ipv8.C11.Gen", ""]
    return "\n".join(lines), {"classes": info, "forwards": fwd, "guards": guards, "delay": delay, "scheduler_facts": facts, "service_facts": sfacts}


if __name__ == "__main__":
    src, meta = translate()
    print(src)
