"""
Translator for C07:  endpoint.py / tunnel.py / community.py (anonymization) + ipv8/community.py  ->  lean/Ipv8/C07/GenTunnel.lean

What is regenerated from the working tree on every run (everything else of the C07 model is hand-written and tied to
the code by the correspondence run):

  * constants: PEER_FLAG_EXIT_IPV8, the circuit state / type names, TunnelEndpoint.__init__'s initial values
    (hops, tunnel_community, settings, send_queue = deque(maxlen=N)), set_tunnel_community's default `hops`,
    the slice bound of `prefix = packet[:N]` in TunnelEndpoint.send, the origin address literal handed to send_data,
    Community.version and the shape of `self._prefix = b"\\x00" + self.version + self.community_id`;
  * Circuit.state        (an if/return chain over `self._closing`, `len(self.hops)`, `self.goal_hops`)   -> Circuit.state
  * Circuit.exit_flags   (`if self.hops: return self.hops[K].flags or []; return []`, K in {-1, 0})     -> Circuit.exitFlags
  * Circuit.hops / .hop  (shape check only: tuple(self._hops); self._hops[0] if self._hops else self.unverified_hop)
  * TunnelCommunity.find_circuits: the filter condition of the list comprehension over self.circuits.values(),
    a boolean combination of `<param> is None`, `c.<attr> ==/!= <param>`, `set(<param>) <= set(c.exit_flags)`,
    `<param> <cmp> c.goal_hops`, `<param> <cmp> len(c.hops)`                                            -> findPred
    together with the parameter defaults;
  * the keyword arguments TunnelEndpoint.send passes to find_circuits(...) and create_circuit(...)       -> sendFind / sendCreate*

Anything outside this subset raises TranslatorError (treated like a broken proof by the runner).
"""
from __future__ import annotations

import ast

from vlib import REPO, TranslatorError

EP = "ipv8/messaging/anonymization/endpoint.py"
TUN = "ipv8/messaging/anonymization/tunnel.py"
TC = "ipv8/messaging/anonymization/community.py"
COM = "ipv8/community.py"
SVC = "ipv8_service.py"
CMG = "ipv8/attestation/communication_manager.py"
IDC = "ipv8/attestation/identity/community.py"

STATE_NAMES = {"CIRCUIT_STATE_READY": ".ready", "CIRCUIT_STATE_EXTENDING": ".extending", "CIRCUIT_STATE_CLOSING": ".closing"}
CTYPE_NAMES = {"CIRCUIT_TYPE_DATA": ".data", "CIRCUIT_TYPE_IP_SEEDER": ".ipSeeder", "CIRCUIT_TYPE_RP_SEEDER": ".rpSeeder",
               "CIRCUIT_TYPE_RP_DOWNLOADER": ".rpDownloader"}
CMP = {ast.Lt: "<", ast.LtE: "≤", ast.Gt: ">", ast.GtE: "≥", ast.Eq: "=", ast.NotEq: "≠"}
FIND_PARAMS = ["ctype", "state", "exit_flags", "hops"]
LEAN_PARAM = {"ctype": "ctype", "state": "state", "exit_flags": "exitFlags", "hops": "hops"}


def _parse(rel):
    p = REPO / rel
    try:
        return ast.parse(p.read_text())
    except (OSError, SyntaxError) as e:
        raise TranslatorError(f"cannot parse {rel}: {e}") from e


def _cls(tree, name, rel):
    c = next((n for n in tree.body if isinstance(n, ast.ClassDef) and n.name == name), None)
    if c is None:
        raise TranslatorError(f"class {name} not found in {rel}")
    return c


def _fn(cls, name):
    f = next((n for n in cls.body if isinstance(n, (ast.FunctionDef, ast.AsyncFunctionDef)) and n.name == name), None)
    if f is None:
        raise TranslatorError(f"{cls.name}.{name} not found")
    return f


def _body(fn):
    b = list(fn.body)
    if b and isinstance(b[0], ast.Expr) and isinstance(b[0].value, ast.Constant) and isinstance(b[0].value.value, str):
        b = b[1:]
    return b


def _is_logging(st):
    """`self._logger.debug(...)` / `self.logger.info(...)` / `logging.…(...)` statements do not matter here"""
    if not (isinstance(st, ast.Expr) and isinstance(st.value, ast.Call) and isinstance(st.value.func, ast.Attribute)):
        return False
    return "logg" in ast.unparse(st.value.func.value).lower()


def _module_consts(tree):
    out = {}
    for n in tree.body:
        if isinstance(n, ast.Assign) and len(n.targets) == 1 and isinstance(n.targets[0], ast.Name) \
                and isinstance(n.value, ast.Constant):
            out[n.targets[0].id] = n.value.value
    return out


def _is_self_attr(e, attr):
    return isinstance(e, ast.Attribute) and isinstance(e.value, ast.Name) and e.value.id == "self" and e.attr == attr


# ---- Circuit.state ------------------------------------------------------------------------------------------------
def _nat_term_self(e, hops_alias_ok):
    """natural-number terms of Circuit.state: len(self.hops) | len(self._hops) | self.goal_hops | int literal"""
    if isinstance(e, ast.Call) and isinstance(e.func, ast.Name) and e.func.id == "len" and len(e.args) == 1 \
            and (_is_self_attr(e.args[0], "_hops") or (hops_alias_ok and _is_self_attr(e.args[0], "hops"))):
        return "c.hops.length"
    if _is_self_attr(e, "goal_hops"):
        return "c.goalHops"
    if isinstance(e, ast.Constant) and isinstance(e.value, int) and not isinstance(e.value, bool) and e.value >= 0:
        return str(e.value)
    if isinstance(e, ast.BinOp) and isinstance(e.op, ast.Add):
        return f"({_nat_term_self(e.left, hops_alias_ok)} + {_nat_term_self(e.right, hops_alias_ok)})"
    raise TranslatorError(f"Circuit.state: unsupported term {ast.unparse(e)}")


def _cond_self(e, hops_alias_ok):
    if _is_self_attr(e, "_closing"):
        return "c.closing"
    if isinstance(e, ast.UnaryOp) and isinstance(e.op, ast.Not):
        return f"(!{_cond_self(e.operand, hops_alias_ok)})"
    if isinstance(e, ast.BoolOp):
        op = " && " if isinstance(e.op, ast.And) else " || "
        return "(" + op.join(_cond_self(v, hops_alias_ok) for v in e.values) + ")"
    if isinstance(e, ast.Compare) and len(e.ops) == 1 and type(e.ops[0]) in CMP:
        return f"decide ({_nat_term_self(e.left, hops_alias_ok)} {CMP[type(e.ops[0])]} " \
               f"{_nat_term_self(e.comparators[0], hops_alias_ok)})"
    raise TranslatorError(f"Circuit.state: unsupported condition {ast.unparse(e)}")


def _state_const(e):
    if isinstance(e, ast.Name) and e.id in STATE_NAMES:
        return STATE_NAMES[e.id]
    raise TranslatorError(f"Circuit.state: returns {ast.unparse(e)}, not a CIRCUIT_STATE_* constant")


def _state_chain(stmts, hops_alias_ok):
    if not stmts:
        raise TranslatorError("Circuit.state: falls off the end without a return")
    st = stmts[0]
    if isinstance(st, ast.Return) and st.value is not None:
        return _state_const(st.value)
    if isinstance(st, ast.If):
        cond = _cond_self(st.test, hops_alias_ok)
        then_ = _state_chain(list(st.body), hops_alias_ok)
        rest = list(st.orelse) if st.orelse else stmts[1:]
        if st.orelse and stmts[1:]:
            raise TranslatorError("Circuit.state: statements after if/else")
        return f"if {cond} then {then_} else {_state_chain(rest, hops_alias_ok)}"
    raise TranslatorError(f"Circuit.state: unsupported statement {ast.unparse(st)[:80]}")


# ---- find_circuits -------------------------------------------------------------------------------------------------
_CVAR = ["c"]      # name of the comprehension variable of find_circuits (set by translate())


def _c_attr(e):
    """attribute of the comprehension variable"""
    if isinstance(e, ast.Attribute) and isinstance(e.value, ast.Name) and e.value.id == _CVAR[0]:
        return e.attr
    return None


def _find_cond(e):
    if isinstance(e, ast.BoolOp):
        op = " && " if isinstance(e.op, ast.And) else " || "
        return "(" + op.join(_find_cond(v) for v in e.values) + ")"
    if isinstance(e, ast.UnaryOp) and isinstance(e.op, ast.Not):
        return f"(!{_find_cond(e.operand)})"
    if isinstance(e, ast.Compare) and len(e.ops) == 1:
        l, op, r = e.left, e.ops[0], e.comparators[0]
        # <param> is None / is not None
        if isinstance(op, (ast.Is, ast.IsNot)) and isinstance(l, ast.Name) and l.id in FIND_PARAMS \
                and isinstance(r, ast.Constant) and r.value is None:
            return f"{LEAN_PARAM[l.id]}.isNone" if isinstance(op, ast.Is) else f"{LEAN_PARAM[l.id]}.isSome"
        # set(<param>) <= set(c.exit_flags)   (also ==, >=)
        if isinstance(l, ast.Call) and isinstance(r, ast.Call) and all(
                isinstance(x.func, ast.Name) and x.func.id == "set" and len(x.args) == 1 for x in (l, r)):
            la, ra = l.args[0], r.args[0]
            if isinstance(la, ast.Name) and la.id == "exit_flags" and _c_attr(ra) == "exit_flags":
                if isinstance(op, ast.LtE):
                    return "(match exitFlags with | some fl => subsetB fl c.exitFlags | none => false)"
                if isinstance(op, ast.GtE):
                    return "(match exitFlags with | some fl => subsetB c.exitFlags fl | none => false)"
                if isinstance(op, ast.Eq):
                    return "(match exitFlags with | some fl => subsetB fl c.exitFlags && subsetB c.exitFlags fl | none => false)"
            raise TranslatorError(f"find_circuits: unsupported set comparison {ast.unparse(e)}")
        # equality between a parameter and an attribute of c (either order)
        if type(op) in (ast.Eq, ast.NotEq):
            for a, b in ((l, r), (r, l)):
                attr = _c_attr(a)
                if attr is not None and isinstance(b, ast.Name) and b.id in FIND_PARAMS:
                    lean_attr = {"state": "c.state", "ctype": "c.ctype", "goal_hops": "c.goalHops",
                                 "circuit_id": "c.cid"}.get(attr)
                    want = {"state": "state", "ctype": "ctype", "goal_hops": "hops"}.get(attr)
                    if lean_attr is None or want != b.id:
                        raise TranslatorError(f"find_circuits: comparison of c.{attr} with {b.id} not supported")
                    eq = f"({LEAN_PARAM[b.id]} == some {lean_attr})"
                    return eq if isinstance(op, ast.Eq) else f"({LEAN_PARAM[b.id]}.isSome && !{eq})"
        # ordering between `hops` and c.goal_hops / len(c.hops)
        if type(op) in (ast.Lt, ast.LtE, ast.Gt, ast.GtE):
            def term(x):
                if isinstance(x, ast.Name) and x.id == "hops":
                    return "h"
                if _c_attr(x) == "goal_hops":
                    return "c.goalHops"
                if isinstance(x, ast.Call) and isinstance(x.func, ast.Name) and x.func.id == "len" and len(x.args) == 1 \
                        and _c_attr(x.args[0]) in ("hops", "_hops"):
                    return "c.hops.length"
                raise TranslatorError(f"find_circuits: unsupported term {ast.unparse(x)}")
            return f"(match hops with | some h => decide ({term(l)} {CMP[type(op)]} {term(r)}) | none => false)"
    raise TranslatorError(f"find_circuits: unsupported condition {ast.unparse(e)[:100]}")


def _opt_value(e, kind, consts):
    """a default / keyword value -> Lean Option term"""
    if isinstance(e, ast.Constant) and e.value is None:
        return "none"
    if kind == "state" and isinstance(e, ast.Name) and e.id in STATE_NAMES:
        return f"(some {STATE_NAMES[e.id]})"
    if kind == "ctype" and isinstance(e, ast.Name) and e.id in CTYPE_NAMES:
        return f"(some {CTYPE_NAMES[e.id]})"
    if kind == "exit_flags" and isinstance(e, (ast.List, ast.Tuple, ast.Set)):
        return "(some [" + ", ".join(_flag(x, consts) for x in e.elts) + "])"
    if kind == "hops":
        if _is_self_attr(e, "hops"):
            return "(some hops)"
        if isinstance(e, ast.Constant) and isinstance(e.value, int) and e.value >= 0:
            return f"(some {e.value})"
    raise TranslatorError(f"unsupported value for {kind}: {ast.unparse(e)}")


def _flag(e, consts):
    if isinstance(e, ast.Name) and e.id.startswith("PEER_FLAG_") and isinstance(consts.get(e.id), int):
        return e.id
    if isinstance(e, ast.Constant) and isinstance(e.value, int) and e.value >= 0:
        return str(e.value)
    raise TranslatorError(f"unsupported peer flag {ast.unparse(e)}")


def _calls(fn, attr):
    return [n for n in ast.walk(fn) if isinstance(n, ast.Call) and isinstance(n.func, ast.Attribute) and n.func.attr == attr]


# ---------------------------------------------------------------------------------------------------------------------
# normalisation before translating (behaviour-preserving rewrites the translator looks through)
# ---------------------------------------------------------------------------------------------------------------------
def _literal(node):
    """is this AST a literal made of ints / strs / bytes / bools / None and tuples thereof?"""
    if isinstance(node, ast.Constant):
        return True
    if isinstance(node, ast.Tuple):
        return all(_literal(e) for e in node.elts)
    return False


def _inline_module_literals(tree):
    """named module-level constants (assigned exactly once, to a literal, at module level) are replaced by their value
    wherever they are read: `packet[:COMMUNITY_PREFIX_LENGTH]` is `packet[:22]`"""
    import copy
    assigned = {}
    for n in tree.body:
        targets = []
        if isinstance(n, ast.Assign):
            targets, val = n.targets, n.value
        elif isinstance(n, ast.AnnAssign) and n.value is not None:
            targets, val = [n.target], n.value
        for t in targets:
            if isinstance(t, ast.Name):
                assigned.setdefault(t.id, []).append(val)
    # a name that is written anywhere else (function bodies, global statements) is not a constant
    written = {}
    for n in ast.walk(tree):
        if isinstance(n, ast.Name) and isinstance(n.ctx, (ast.Store, ast.Del)):
            written[n.id] = written.get(n.id, 0) + 1
    consts = {k: v[0] for k, v in assigned.items() if len(v) == 1 and written.get(k) == 1 and _literal(v[0])}

    class Tr(ast.NodeTransformer):
        def visit_Name(self, node):
            if isinstance(node.ctx, ast.Load) and node.id in consts:
                return ast.copy_location(copy.deepcopy(consts[node.id]), node)
            return node
    for n in tree.body:
        if isinstance(n, ast.ClassDef):
            Tr().visit(n)
    ast.fix_missing_locations(tree)
    return tree


def _assigned_names(stmts):
    out = set()
    for st in stmts:
        for n in ast.walk(st):
            if isinstance(n, ast.Name) and isinstance(n.ctx, ast.Store):
                out.add(n.id)
    return out


def _inline_private_helpers(cls, fn, depth=0):
    """`self._helper(args)` used as a statement is replaced by the helper's body with the parameters substituted by the
    argument expressions (names / attribute chains / literals only), recursively.  A helper that contains `return` may
    only be called in tail position (nothing can run after the call), so its returns are the caller's returns; a helper
    that assigns to a name the caller also uses may likewise only be called in tail position."""
    import copy
    if depth > 4:
        raise TranslatorError(f"{cls.name}.{fn.name}: helper calls nested too deeply")
    methods = {n.name: n for n in cls.body if isinstance(n, ast.FunctionDef)}
    caller_names = {a.arg for a in fn.args.args} | _assigned_names(fn.body)

    def simple(e):
        return isinstance(e, (ast.Name, ast.Constant)) or (isinstance(e, ast.Attribute) and simple(e.value)) or _literal(e)

    def expand(stmts, tail):
        out = []
        for i, st in enumerate(stmts):
            last = tail and i == len(stmts) - 1
            if isinstance(st, ast.If):
                st = copy.copy(st)
                # a branch is in tail position if the `if` is, or if nothing follows the `if` … (only the former is used)
                st.body = expand(st.body, last)
                st.orelse = expand(st.orelse, last)
                out.append(st)
                continue
            if isinstance(st, ast.While):
                st = copy.copy(st)
                st.body = expand(st.body, False)
                out.append(st)
                continue
            call = st.value if isinstance(st, ast.Expr) and isinstance(st.value, ast.Call) else None
            if call is not None and isinstance(call.func, ast.Attribute) and isinstance(call.func.value, ast.Name) \
                    and call.func.value.id == "self" and call.func.attr.startswith("_") and call.func.attr in methods \
                    and not call.func.attr.startswith("__"):
                h = methods[call.func.attr]
                static = any(isinstance(d, ast.Name) and d.id == "staticmethod" for d in h.decorator_list)
                params = [a.arg for a in h.args.args][0 if static else 1:]
                if h.args.vararg or h.args.kwarg or h.args.kwonlyargs or len(call.args) > len(params):
                    raise TranslatorError(f"{cls.name}.{h.name}: unsupported helper signature")
                binding = dict(zip(params, call.args))
                for kw in call.keywords:
                    if kw.arg is None or kw.arg not in params or kw.arg in binding:
                        raise TranslatorError(f"{cls.name}.{h.name}: unsupported helper call")
                    binding[kw.arg] = kw.value
                if set(binding) != set(params) or not all(simple(v) for v in binding.values()):
                    raise TranslatorError(f"{cls.name}.{h.name}: helper called with non-trivial or missing arguments")
                hbody = _body(h)
                has_return = any(isinstance(n, ast.Return) for b in hbody for n in ast.walk(b))
                if any(isinstance(n, ast.Return) and n.value is not None for b in hbody for n in ast.walk(b)):
                    raise TranslatorError(f"{cls.name}.{h.name}: helper returns a value")
                clash = (_assigned_names(hbody) - set(params)) & caller_names
                if (has_return or clash or (_assigned_names(hbody) & set(params))) and not last:
                    raise TranslatorError(f"{cls.name}.{h.name}: helper with early return / clashing locals is not called "
                                          "in tail position")

                class Sub(ast.NodeTransformer):
                    def visit_Name(self, node):
                        if isinstance(node.ctx, ast.Load) and node.id in binding:
                            return ast.copy_location(copy.deepcopy(binding[node.id]), node)
                        return node
                inlined = [Sub().visit(copy.deepcopy(b)) for b in hbody]
                fake = ast.FunctionDef(name=h.name, args=fn.args, body=inlined, decorator_list=[], lineno=h.lineno,
                                       col_offset=0)
                inlined = _inline_private_helpers(cls, fake, depth + 1).body if True else inlined
                # the helper's trailing bare `return` is not needed; an inner `return` stays (tail position)
                out.extend(inlined)
                continue
            out.append(st)
        return out
    new = copy.copy(fn)
    new.body = expand(_body(fn), True)
    ast.fix_missing_locations(new)
    return new


def _send_function():
    """TunnelEndpoint.send after normalisation: module constants inlined, private helpers inlined"""
    ep = _inline_module_literals(_parse(EP))
    tep = _cls(ep, "TunnelEndpoint", EP)
    return ep, tep, _inline_private_helpers(tep, _fn(tep, "send"))


def translate() -> tuple[str, dict]:
    tun, tc, com = _parse(TUN), _parse(TC), _parse(COM)
    ep, tep_norm, send_norm = _send_function()
    consts = _module_consts(tun)
    meta: dict = {}
    out = ["/- GENERATED by tools/gen_c07.py from " + ", ".join([EP, TUN, TC, COM, SVC]) + " — do not edit -/",
           "import Ipv8.C07.Types", "", "namespace Ipv8.C07", ""]

    # --- constants of tunnel.py
    for name in ("PEER_FLAG_RELAY", "PEER_FLAG_EXIT_BT", "PEER_FLAG_EXIT_IPV8", "PEER_FLAG_SPEED_TEST"):
        if not isinstance(consts.get(name), int) or consts[name] < 0:
            raise TranslatorError(f"{name} is not a non-negative integer constant in {TUN}")
        out.append(f"def {name} : Nat := {consts[name]}")
    for name in list(STATE_NAMES) + list(CTYPE_NAMES):
        if not isinstance(consts.get(name), str):
            raise TranslatorError(f"{name} is not a string constant in {TUN}")
    if len({consts[n] for n in STATE_NAMES}) != 3 or len({consts[n] for n in CTYPE_NAMES}) != 4:
        raise TranslatorError("circuit state / type constants are no longer pairwise distinct")
    out.append("")

    # --- TunnelEndpoint.__init__ / set_tunnel_community / send constants
    tep = _cls(ep, "TunnelEndpoint", EP)
    init = _fn(tep, "__init__")
    vals = {}
    for st in _body(init):
        tgt = val = None
        if isinstance(st, ast.Assign) and len(st.targets) == 1:
            tgt, val = st.targets[0], st.value
        elif isinstance(st, ast.AnnAssign) and st.value is not None:
            tgt, val = st.target, st.value
        if tgt is not None and isinstance(tgt, ast.Attribute) and isinstance(tgt.value, ast.Name) and tgt.value.id == "self":
            vals[tgt.attr] = val
    for need in ("endpoint", "hops", "tunnel_community", "settings", "send_queue"):
        if need not in vals:
            raise TranslatorError(f"TunnelEndpoint.__init__ no longer assigns self.{need}")
    if not (isinstance(vals["hops"], ast.Constant) and isinstance(vals["hops"].value, int) and vals["hops"].value >= 0):
        raise TranslatorError("TunnelEndpoint.__init__: self.hops is not a non-negative integer literal")
    if not (isinstance(vals["tunnel_community"], ast.Constant) and vals["tunnel_community"].value is None):
        raise TranslatorError("TunnelEndpoint.__init__: self.tunnel_community does not start as None")
    if not (isinstance(vals["settings"], ast.Dict) and not vals["settings"].keys):
        raise TranslatorError("TunnelEndpoint.__init__: self.settings does not start as an empty dict")
    q = vals["send_queue"]
    ep_consts = _module_consts(ep)
    cap = None
    if isinstance(q, ast.Call) and isinstance(q.func, ast.Name) and q.func.id == "deque" and not q.args \
            and len(q.keywords) == 1 and q.keywords[0].arg == "maxlen":
        mv = q.keywords[0].value
        if isinstance(mv, ast.Name) and mv.id in ep_consts:        # deque(maxlen=SOME_MODULE_CONSTANT)
            cap = ep_consts[mv.id]
        elif isinstance(mv, ast.Constant):
            cap = mv.value
    if not isinstance(cap, int) or isinstance(cap, bool) or cap < 0:
        raise TranslatorError("TunnelEndpoint.__init__: self.send_queue is not deque(maxlen=<non-negative int constant>) "
                              f"(found `{ast.unparse(q)}`): the queue is not bounded by a constant")
    meta["queue_cap"] = cap
    out += ["/-- TunnelEndpoint.__init__: `self.send_queue = deque(maxlen=N)` -/",
            f"def queueCap : Nat := {meta['queue_cap']}",
            "/-- TunnelEndpoint.__init__: `self.hops = N` -/",
            f"def initHops : Nat := {vals['hops'].value}"]
    stc = _fn(tep, "set_tunnel_community")
    if [a.arg for a in stc.args.args] != ["self", "tunnel_community", "hops"] or len(stc.args.defaults) != 1 \
            or not (isinstance(stc.args.defaults[0], ast.Constant) and isinstance(stc.args.defaults[0].value, int)):
        raise TranslatorError("set_tunnel_community: unexpected signature")
    want = ["self.tunnel_community = tunnel_community", "self.hops = hops"]
    if [ast.unparse(s) for s in _body(stc) if not _is_logging(s)] != want:
        raise TranslatorError("set_tunnel_community no longer just stores its two arguments")
    out += ["/-- set_tunnel_community(tunnel_community, hops=N) -/",
            f"def defaultTcHops : Nat := {stc.args.defaults[0].value}"]
    sa = _fn(tep, "set_anonymity")
    if [ast.unparse(s) for s in _body(sa) if not _is_logging(s)] != ["self.settings[prefix] = enable"]:
        raise TranslatorError("set_anonymity no longer just stores `self.settings[prefix] = enable`")

    send = send_norm
    if [a.arg for a in send.args.args] != ["self", "address", "packet"]:
        raise TranslatorError("TunnelEndpoint.send: unexpected signature")
    # prefix = packet[:N]  (or the slice used in place)
    bounds = set()
    for n in ast.walk(send):
        if isinstance(n, ast.Subscript) and isinstance(n.value, ast.Name) and n.value.id == "packet":
            sl = n.slice
            if isinstance(sl, ast.Slice) and sl.lower is None and sl.step is None and isinstance(sl.upper, ast.Constant) \
                    and isinstance(sl.upper.value, int) and sl.upper.value >= 0:
                bounds.add(sl.upper.value)
            else:
                raise TranslatorError(f"TunnelEndpoint.send: packet is sliced as `{ast.unparse(n)}`, not packet[:N]")
    if len(bounds) != 1:
        raise TranslatorError(f"TunnelEndpoint.send: expected one prefix slice packet[:N], found bounds {sorted(bounds)}")
    pl = bounds.pop()
    out += ["/-- TunnelEndpoint.send: `prefix = packet[:N]` -/", f"def prefixLen : Nat := {pl}"]
    meta["prefix_len"] = pl

    # --- Community: version and prefix composition
    comc = _cls(com, "Community", COM)
    ver = None
    for n in comc.body:
        if isinstance(n, ast.Assign) and len(n.targets) == 1 and isinstance(n.targets[0], ast.Name) \
                and n.targets[0].id == "version" and isinstance(n.value, ast.Constant) and isinstance(n.value.value, bytes):
            ver = n.value.value
    if ver is None:
        raise TranslatorError("Community.version is not a bytes literal")
    cinit = _inline_private_helpers(comc, _fn(comc, "__init__"))     # e.g. the opt-in extracted into a helper
    pref = [s for s in ast.walk(cinit) if isinstance(s, ast.Assign) and len(s.targets) == 1
            and _is_self_attr(s.targets[0], "_prefix")]
    if len(pref) != 1 or ast.unparse(pref[0].value) != "b'\\x00' + self.version + self.community_id":
        raise TranslatorError("Community.__init__: self._prefix is no longer b'\\x00' + self.version + self.community_id")
    out += ["/-- Community._prefix = b\"\\x00\" + version + community_id -/",
            "def communityPrefixHead : Bytes := [0" + "".join(f", {b}" for b in ver) + "]", ""]

    # --- Community.__init__: the opt-in is guarded by `settings.anonymize` and by the endpoint BEING a TunnelEndpoint
    optin = [n for n in ast.walk(cinit) if isinstance(n, ast.Call) and isinstance(n.func, ast.Attribute)
             and n.func.attr == "set_anonymity"]
    if len(optin) != 1 or ast.unparse(optin[0]) != "self.endpoint.set_anonymity(self._prefix, True)":
        raise TranslatorError("Community.__init__: expected exactly one `self.endpoint.set_anonymity(self._prefix, True)`, "
                              f"found {[ast.unparse(c) for c in optin]}")
    guards = []
    for node in ast.walk(cinit):
        if isinstance(node, ast.If) and any(optin[0] is sub for sub in ast.walk(node)):
            # only conditions on the path to the call count (the call must be in the body, not the orelse)
            if any(optin[0] is sub for st in node.body for sub in ast.walk(st)):
                guards.append(ast.unparse(node.test))
            else:
                raise TranslatorError("Community.__init__: the opt-in sits in an else branch")
    if sorted(guards) == sorted(["settings.anonymize", "isinstance(self.endpoint, TunnelEndpoint)"]):
        needs = "true"
    elif guards == ["settings.anonymize"]:
        needs = "false"      # e.g. duck-typed: the opt-in would also work through a forwarding decorator
    else:
        raise TranslatorError(f"Community.__init__: the opt-in is guarded by {guards}, expected settings.anonymize and "
                              "(optionally) isinstance(self.endpoint, TunnelEndpoint)")
    out += ["/-- whether Community.__init__ guards its opt-in by `isinstance(self.endpoint, TunnelEndpoint)` (a decorator in",
            "    front of the TunnelEndpoint is not one); read by `serviceOps` in Model.lean -/",
            f"def optInNeedsTunnelEndpoint : Bool := {needs}", ""]

    # --- every datagram an overlay sends goes through ITS endpoint: all `.send(` call sites of the overlay base classes
    import glob
    sites = []
    for rel in ["ipv8/community.py", "ipv8/lazy_community.py", "ipv8/overlay.py"] + sorted(
            str(pth.relative_to(REPO)) for pth in (REPO / "ipv8/peerdiscovery").glob("*.py")):
        tree_ = _parse(rel)
        for cls_ in [n for n in ast.walk(tree_) if isinstance(n, ast.ClassDef)]:
            for call in [n for n in ast.walk(cls_) if isinstance(n, ast.Call) and isinstance(n.func, ast.Attribute)
                         and n.func.attr == "send"]:
                recv = ast.unparse(call.func.value)
                if recv in ("self.endpoint", "self.overlay.endpoint"):
                    sites.append(f"{rel}:{call.lineno}")
                else:
                    raise TranslatorError(f"{rel}:{call.lineno}: `{recv}.send(...)` in {cls_.name} does not go through "
                                          "the overlay's own endpoint (`self.endpoint.send`): an anonymized overlay could "
                                          "reach the socket behind the TunnelEndpoint")
    if len(sites) < 5:
        raise TranslatorError(f"only {len(sites)} overlay send sites found; the scan no longer sees the code")
    meta["overlay_send_sites"] = sites
    out += ["/-- number of `.send(` call sites in Community / EZPackOverlay / Overlay / peerdiscovery, all of them",
            "    `self.endpoint.send(...)` (checked by the translator; anything else is a TranslatorError) -/",
            f"def overlaySendSites : Nat := {len(sites)}", ""]

    # --- ipv8_service.IPv8.__init__: the order in which the endpoint is wrapped
    svc = _parse(SVC)
    ipv8c = next((n for n in ast.walk(svc) if isinstance(n, ast.ClassDef) and n.name == "IPv8"), None)
    if ipv8c is None:
        raise TranslatorError(f"class IPv8 not found in {SVC}")
    sinit = _fn(ipv8c, "__init__")
    sparams = [a.arg for a in sinit.args.args]
    if "enable_statistics" not in sparams or "endpoint_override" not in sparams:
        raise TranslatorError(f"IPv8.__init__: unexpected parameters {sparams}")
    wraps = []
    for st in _body(sinit):
        for node in ([st] if isinstance(st, ast.If) else []):
            for sub in ast.walk(node):
                if isinstance(sub, ast.Assign) and len(sub.targets) == 1 and _is_self_attr(sub.targets[0], "endpoint") \
                        and isinstance(sub.value, ast.Call) and isinstance(sub.value.func, ast.Name) \
                        and len(sub.value.args) == 1 and _is_self_attr(sub.value.args[0], "endpoint"):
                    if node.orelse or sub not in node.body:
                        raise TranslatorError(f"IPv8.__init__: endpoint wrapped in an unsupported position: {ast.unparse(node)[:80]}")
                    cond = ast.unparse(node.test)
                    if cond == "enable_statistics":
                        c = "stats"
                    elif "anonymize" in cond and "overlays" in cond and cond.startswith("any("):
                        c = "anyAnon"
                    else:
                        raise TranslatorError(f"IPv8.__init__: endpoint wrapped under unknown condition `{cond}`")
                    w = {"StatisticsEndpoint": ".statistics", "TunnelEndpoint": ".tunnel"}.get(sub.value.func.id)
                    if w is None:
                        raise TranslatorError(f"IPv8.__init__: unknown endpoint decorator {sub.value.func.id}")
                    wraps.append((c, w))
    # any other assignment of a wrapped endpoint that the loop above did not see
    n_wrap = sum(1 for sub in ast.walk(sinit) if isinstance(sub, ast.Assign) and len(sub.targets) == 1
                 and _is_self_attr(sub.targets[0], "endpoint") and isinstance(sub.value, ast.Call)
                 and any(_is_self_attr(a, "endpoint") for a in sub.value.args))
    if n_wrap != len(wraps) or not wraps:
        raise TranslatorError("IPv8.__init__: endpoint decorators applied in a shape the translator does not know")
    out += ["/-- translated from ipv8_service.IPv8.__init__: the decorators put around the base endpoint, innermost first;",
            "    the LAST one is what every overlay gets as `settings.endpoint` -/",
            "def serviceWrappers (stats anyAnon : Bool) : List Wrapper :=",
            "  " + " ++ ".join(f"(if {c} then [{w}] else [])" for c, w in wraps), ""]
    meta["service_wrappers"] = wraps

    # --- CommunicationManager.load: the second way an overlay comes by an anonymizing endpoint (a pseudonym's channel)
    cmg = _parse(CMG)
    load = _fn(_cls(cmg, "CommunicationManager", CMG), "load")
    aliases = {}
    for n in ast.walk(load):
        if isinstance(n, ast.Assign) and len(n.targets) == 1 and isinstance(n.targets[0], ast.Name):
            aliases[n.targets[0].id] = ast.unparse(n.value)
    if "HiddenTunnelCommunity" not in aliases.get("tunnel_community", ""):
        raise TranslatorError("CommunicationManager.load: tunnel_community is no longer looked up with get_overlay(HiddenTunnelCommunity)")

    def anon_of(call_name, default):
        calls = [n for n in ast.walk(load) if isinstance(n, ast.Call) and isinstance(n.func, ast.Name) and n.func.id == call_name]
        if len(calls) != 1:
            raise TranslatorError(f"CommunicationManager.load: expected one {call_name}(...) call, found {len(calls)}")
        kw = {k.arg: k.value for k in calls[0].keywords}
        if "anonymize" not in kw:
            return default
        src = ast.unparse(kw["anonymize"])
        src = aliases.get(src, src) if isinstance(kw["anonymize"], ast.Name) else src
        if src == "tunnel_community is not None":
            return "hasTunnels"
        if src in ("True", "False"):
            return src.lower()
        raise TranslatorError(f"CommunicationManager.load: {call_name}(anonymize={src}) not understood")
    idc = _parse(IDC)
    cc = next((n for n in idc.body if isinstance(n, ast.AsyncFunctionDef) and n.name == "create_community"), None)
    if cc is None:
        raise TranslatorError("identity/community.py: create_community not found")
    cc_args = [a.arg for a in cc.args.args]
    cc_defaults = dict(zip(cc_args[len(cc_args) - len(cc.args.defaults):], cc.args.defaults))
    d = cc_defaults.get("anonymize")
    cc_default = ast.unparse(d).lower() if isinstance(d, ast.Constant) and isinstance(d.value, bool) else None
    if cc_default is None:
        raise TranslatorError("create_community: no boolean default for anonymize")
    if "anonymize=anonymize" not in ast.unparse(cc):
        raise TranslatorError("create_community no longer passes anonymize on to the IdentitySettings")
    com_default = None
    for n in _cls(com, "CommunitySettings", COM).body:
        if isinstance(n, ast.AnnAssign) and isinstance(n.target, ast.Name) and n.target.id == "anonymize" \
                and isinstance(n.value, ast.Constant):
            com_default = str(bool(n.value.value)).lower()
    if com_default is None:
        raise TranslatorError("CommunitySettings.anonymize default not found")
    attach = [n for n in ast.walk(load) if isinstance(n, ast.Call) and isinstance(n.func, ast.Attribute)
              and n.func.attr == "set_tunnel_community"]
    if len(attach) != 1 or [ast.unparse(a) for a in attach[0].args] != ["tunnel_community"] or attach[0].keywords:
        raise TranslatorError("CommunicationManager.load: set_tunnel_community(tunnel_community) not found")
    out += ["/-- translated from CommunicationManager.load: `anonymize` handed to the pseudonym's identity overlay",
            "    (create_community) and to its attestation overlay (AttestationSettings), given whether a",
            "    HiddenTunnelCommunity is loaded; a missing keyword means the callee's default -/",
            "def pseudonymAnonymize (hasTunnels : Bool) : Bool × Bool :=",
            f"  ({anon_of('create_community', cc_default)}, {anon_of('AttestationSettings', com_default)})", ""]

    # --- Circuit.hops / hop / state / exit_flags
    circ = _cls(tun, "Circuit", TUN)
    hops_fn = next((n for n in circ.body if isinstance(n, ast.FunctionDef) and n.name == "hops"
                    and any(isinstance(d, ast.Name) and d.id == "property" for d in n.decorator_list)), None)
    hb = _body(hops_fn) if hops_fn else []
    hops_alias_ok = len(hb) == 1 and isinstance(hb[0], ast.Return) and hb[0].value is not None \
        and ast.unparse(hb[0].value) in ("tuple(self._hops)", "self._hops", "list(self._hops)")
    if not hops_alias_ok:
        raise TranslatorError("Circuit.hops is no longer a read-only view of self._hops")
    hop_fn = next((n for n in circ.body if isinstance(n, ast.FunctionDef) and n.name == "hop"
                   and any(isinstance(d, ast.Name) and d.id == "property" for d in n.decorator_list)), None)
    hb = _body(hop_fn) if hop_fn else []
    if not (len(hb) == 1 and isinstance(hb[0], ast.Return) and hb[0].value is not None):
        raise TranslatorError("Circuit.hop: unexpected shape")
    hv = hb[0].value
    if isinstance(hv, ast.Call) and isinstance(hv.func, ast.Name) and hv.func.id == "cast" and len(hv.args) == 2:
        hv = hv.args[1]
    if ast.unparse(hv) != "self._hops[0] if self._hops else self.unverified_hop":
        raise TranslatorError(f"Circuit.hop is `{ast.unparse(hv)}`, not the first verified hop (else the unverified hop)")
    out += ["/-- Circuit.hop: first verified hop (the unverified hop, absent in the model, otherwise) -/",
            "def Circuit.firstHop? (c : Circuit) : Option Hop := c.hops.head?", ""]

    state_fn = next((n for n in circ.body if isinstance(n, ast.FunctionDef) and n.name == "state"
                     and any(isinstance(d, ast.Name) and d.id == "property" for d in n.decorator_list)), None)
    if state_fn is None:
        raise TranslatorError("Circuit.state property not found")
    chain = _state_chain(_body(state_fn), hops_alias_ok)
    out += ["/-- translated from Circuit.state -/", "def Circuit.state (c : Circuit) : CState :=", f"  {chain}", ""]
    meta["state"] = chain

    ef_fn = next((n for n in circ.body if isinstance(n, ast.FunctionDef) and n.name == "exit_flags"
                  and any(isinstance(d, ast.Name) and d.id == "property" for d in n.decorator_list)), None)
    eb = _body(ef_fn) if ef_fn else []
    ok = (len(eb) == 2 and isinstance(eb[0], ast.If) and not eb[0].orelse and len(eb[0].body) == 1
          and ast.unparse(eb[0].test) in ("self.hops", "self._hops")
          and isinstance(eb[0].body[0], ast.Return) and isinstance(eb[1], ast.Return)
          and eb[1].value is not None and ast.unparse(eb[1].value) == "[]")
    idx = None
    if ok:
        rv = ast.unparse(eb[0].body[0].value)
        for k in (-1, 0):
            if rv in (f"self.hops[{k}].flags or []", f"self._hops[{k}].flags or []"):
                idx = k
    if idx is None:
        raise TranslatorError("Circuit.exit_flags is not `if self.hops: return self.hops[-1|0].flags or []; return []`")
    sel = "lastHop? c" if idx == -1 else "c.hops.head?"
    out += ["/-- translated from Circuit.exit_flags -/", "def Circuit.exitFlags (c : Circuit) : List Nat :=",
            f"  match {sel} with", "  | some h => h.flags", "  | none => []", ""]
    meta["exit_flags_index"] = idx

    # --- find_circuits
    tcc = _cls(tc, "TunnelCommunity", TC)
    fc = _fn(tcc, "find_circuits")
    params = [a.arg for a in fc.args.args]
    if params != ["self"] + FIND_PARAMS or len(fc.args.defaults) != 4:
        raise TranslatorError(f"find_circuits: unexpected parameters {params}")
    fb = _body(fc)
    if len(fb) == 1 and isinstance(fb[0], ast.Return) and isinstance(fb[0].value, ast.ListComp):
        lc = fb[0].value
        g = lc.generators[0]
        if not (len(lc.generators) == 1 and isinstance(lc.elt, ast.Name) and isinstance(g.target, ast.Name)
                and lc.elt.id == g.target.id and ast.unparse(g.iter) == "self.circuits.values()" and not g.is_async):
            raise TranslatorError("find_circuits: comprehension is not `[c for c in self.circuits.values() if ...]`")
        _CVAR[0] = g.target.id
        keep = list(g.ifs)
    else:
        # the same filter written as a loop: result = []; for c in self.circuits.values(): [if G: continue]* result.append(c)
        def empty_list_init(st):
            val = st.value if isinstance(st, (ast.Assign, ast.AnnAssign)) else None
            tgt = (st.targets[0] if isinstance(st, ast.Assign) and len(st.targets) == 1 else
                   st.target if isinstance(st, ast.AnnAssign) else None)
            return tgt.id if isinstance(tgt, ast.Name) and isinstance(val, ast.List) and not val.elts else None
        ok = len(fb) == 3 and empty_list_init(fb[0]) and isinstance(fb[1], ast.For) and not fb[1].orelse \
            and isinstance(fb[1].target, ast.Name) and ast.unparse(fb[1].iter) == "self.circuits.values()" \
            and isinstance(fb[2], ast.Return) and isinstance(fb[2].value, ast.Name) and fb[2].value.id == empty_list_init(fb[0])
        if not ok:
            raise TranslatorError("find_circuits is neither a single list comprehension nor `r = []; for c in "
                                  "self.circuits.values(): [if …: continue]* r.append(c); return r`")
        res, var = empty_list_init(fb[0]), fb[1].target.id
        *guards, last = fb[1].body
        if ast.unparse(last) != f"{res}.append({var})" or not all(
                isinstance(gd, ast.If) and not gd.orelse and len(gd.body) == 1 and isinstance(gd.body[0], ast.Continue)
                for gd in guards):
            raise TranslatorError("find_circuits: loop body is not a sequence of `if …: continue` followed by an append")
        _CVAR[0] = var

        def negate(e):
            """the condition under which a guard does NOT skip the circuit, in the form the comprehension would use"""
            if isinstance(e, ast.BoolOp):
                return ast.BoolOp(op=ast.Or() if isinstance(e.op, ast.And) else ast.And(), values=[negate(v) for v in e.values])
            if isinstance(e, ast.UnaryOp) and isinstance(e.op, ast.Not):
                return e.operand
            if isinstance(e, ast.Compare) and len(e.ops) == 1:
                flip = {ast.Is: ast.IsNot, ast.IsNot: ast.Is, ast.Eq: ast.NotEq, ast.NotEq: ast.Eq}.get(type(e.ops[0]))
                if flip is not None:
                    return ast.Compare(left=e.left, ops=[flip()], comparators=e.comparators)
            return ast.UnaryOp(op=ast.Not(), operand=e)
        keep = [ast.fix_missing_locations(negate(gd.test)) for gd in guards]
    flat = []
    for kcond in keep:       # one conjunction or several `if`s / guards: the same list of conjuncts
        flat += kcond.values if isinstance(kcond, ast.BoolOp) and isinstance(kcond.op, ast.And) else [kcond]
    cond = " && ".join(_find_cond(i) for i in flat) if flat else "true"
    out += ["/-- translated from the filter of TunnelCommunity.find_circuits -/",
            "def findPred (ctype : Option CType) (state : Option CState) (exitFlags : Option (List Nat))",
            "    (hops : Option Nat) (c : Circuit) : Bool :=", f"  {cond}", ""]
    meta["find_cond"] = cond
    defaults = dict(zip(FIND_PARAMS, fc.args.defaults))

    # --- the calls made by TunnelEndpoint.send
    fcalls = _calls(send, "find_circuits")
    if len(fcalls) != 1 or fcalls[0].args:
        raise TranslatorError("TunnelEndpoint.send: expected exactly one keyword-only find_circuits(...) call")
    kws = {k.arg: k.value for k in fcalls[0].keywords}
    if None in kws or set(kws) - set(FIND_PARAMS):
        raise TranslatorError("TunnelEndpoint.send: unexpected find_circuits keywords")
    args = [_opt_value(kws.get(p, defaults[p]), p, consts) for p in FIND_PARAMS]
    out += ["/-- TunnelEndpoint.send: `find_circuits(" + ", ".join(f"{k}={ast.unparse(v)}" for k, v in kws.items())
            + ")` with the defaults of the other parameters -/",
            "def sendFind (hops : Nat) (c : Circuit) : Bool :=", "  findPred " + " ".join(args) + " c", ""]
    meta["send_find_args"] = args
    ccalls = _calls(send, "create_circuit")
    if len(ccalls) != 1:
        raise TranslatorError("TunnelEndpoint.send: expected exactly one create_circuit(...) call")
    cc = ccalls[0]
    cparams = ["goal_hops", "ctype", "exit_flags", "required_exit", "info_hash"]
    given = dict(zip(cparams, cc.args))
    for k in cc.keywords:
        if k.arg is None or k.arg in given or k.arg not in cparams:
            raise TranslatorError("TunnelEndpoint.send: unexpected create_circuit arguments")
        given[k.arg] = k.value
    if set(given) - {"goal_hops", "exit_flags", "ctype"} or "goal_hops" not in given:
        raise TranslatorError("TunnelEndpoint.send: create_circuit called with unsupported arguments")
    ch = _opt_value(given["goal_hops"], "hops", consts)
    cf = _opt_value(given["exit_flags"], "exit_flags", consts) if "exit_flags" in given else "none"
    ct = _opt_value(given["ctype"], "ctype", consts) if "ctype" in given else "(some .data)"
    out += ["/-- TunnelEndpoint.send: `create_circuit(" + ", ".join(ast.unparse(a) for a in cc.args)
            + "".join(f", {k.arg}={ast.unparse(k.value)}" for k in cc.keywords) + ")` -/",
            "def sendCreateHops (hops : Nat) : Nat := (" + ch + " : Option Nat).getD 0",
            "def sendCreateFlags : Option (List Nat) := " + cf,
            "def sendCreateCtype : CType := (" + ct + " : Option CType).getD .data", ""]
    # origin handed to send_data: ("0.0.0.0", 0)
    sd = _calls(send, "send_data")
    if not sd:
        raise TranslatorError("TunnelEndpoint.send: no send_data call")
    origins = {ast.unparse(c.args[3]) if len(c.args) == 5 else "?" for c in sd}
    if origins != {"('0.0.0.0', 0)"}:
        raise TranslatorError(f"TunnelEndpoint.send: send_data origin argument is {sorted(origins)}, expected ('0.0.0.0', 0)")
    meta["send_data_calls"] = len(sd)
    out += ["end Ipv8.C07", ""]
    return "\n".join(out), meta


# ---------------------------------------------------------------------------------------------------------------------
# TunnelEndpoint.send  ->  lean/Ipv8/C07/GenSend.lean   (control flow as a composition of the actions of Prims.lean)
# ---------------------------------------------------------------------------------------------------------------------
class _SendTr:
    """
    Statement subset (anything else: TranslatorError):
      prefix = packet[:N]                      tunnel_community = self.tunnel_community
      circuits = <tc>.find_circuits(...)       circuit = next((c for c in circuits if c.state == READY), None)
      circuit = circuits[0] if circuits else None                  circuit_id = circuit.circuit_id
      if <cond>: ... [else: ...]     return
      self.endpoint.send(address, packet)                          -> actRaw
      <tc>.create_circuit(...)                                     -> actCreate   (arguments translated into GenTunnel)
      self.send_queue.append((address, packet))                    -> actEnqueue
      <tc>.send_data(circuit.hop.address, circuit_id, address, ("0.0.0.0", 0), packet)
        + while self.send_queue: address, packet = self.send_queue.popleft(); <tc>.send_data(… same …)   -> actSendOver
    Conditions: not / and / or (short-circuit, constant-folded on what is known about `circuit`),
      self.settings.get(prefix, False), self.tunnel_community [is (not) None], circuit, circuits,
      circuit.state ==/!= CIRCUIT_STATE_READY.
    A path that ends without the packet having been sent raw / queued / tunnelled gets the ghost action actGhostDrop.
    Conditions are evaluated on the state at entry, so none may follow a state-changing action on its path.
    """
    MUTATING = ("actCreate", "actEnqueue", "actSendOver")

    def __init__(self):
        self.tc_names = {"self.tunnel_community"}

    def is_tc(self, e):
        return ast.unparse(e) in self.tc_names

    def finish(self, acts, handled):
        acts = list(acts) + ([] if handled else ["actGhostDrop a p"])
        term = "Act.done"
        for a in reversed(acts):
            term = f"Act.seq ({a}) ({term})"
        return f"({term}) s"

    def const_not(self, c):
        return {"true": "false", "false": "true"}.get(c, f"(!{c})")

    def cond(self, e, env):
        if isinstance(e, ast.UnaryOp) and isinstance(e.op, ast.Not):
            return self.const_not(self.cond(e.operand, env))
        if isinstance(e, ast.BoolOp):
            is_or = isinstance(e.op, ast.Or)
            parts = []
            for v in e.values:
                c = self.cond(v, env)
                if c == ("true" if is_or else "false"):
                    return c                       # short circuit: later operands are not evaluated
                if c == ("false" if is_or else "true"):
                    continue
                parts.append(c)
            if not parts:
                return "false" if is_or else "true"
            return "(" + (" || " if is_or else " && ").join(parts) + ")"
        src = ast.unparse(e)
        if src == "self.settings.get(prefix, False)" or (
                src.startswith("self.settings.get(packet[:") and src.endswith("], False)")
                and src[len("self.settings.get(packet[:"):-len("], False)")].isdigit()):
            return "s.anonymized p"      # (the slice bound itself is translated into GenTunnel.prefixLen)
        if src in ("circuit is None", "circuit is not None"):
            k = env.get("circuit")
            if k is None:
                raise TranslatorError("send: `circuit` used before it is assigned")
            return "true" if (k == "none") == (src == "circuit is None") else "false"
        if src in self.tc_names or src in ("self.tunnel_community is not None",) \
                or any(src == f"{n} is not None" for n in self.tc_names):
            return "s.attached"
        if any(src == f"{n} is None" for n in self.tc_names):
            return "(!s.attached)"
        if src == "circuits":
            if not env.get("circuits"):
                raise TranslatorError("send: `circuits` used before it is assigned")
            return "(!circuits.isEmpty)"
        if src == "circuit":
            k = env.get("circuit")
            if k is None:
                raise TranslatorError("send: `circuit` used before it is assigned")
            return "true" if k == "some" else "false"
        if src in ("circuit.state != CIRCUIT_STATE_READY", "circuit.state == CIRCUIT_STATE_READY"):
            if env.get("circuit") != "some":
                raise TranslatorError(f"send: `{src}` evaluated where circuit may be None")
            return "(c.state != .ready)" if "!=" in src else "(c.state == .ready)"
        raise TranslatorError(f"send: unsupported condition `{src}`")

    def ends_in_return(self, stmts):
        return bool(stmts) and isinstance(stmts[-1], ast.Return)

    def is_send_data(self, call, addr="address", pkt="packet"):
        if not (isinstance(call, ast.Call) and isinstance(call.func, ast.Attribute) and call.func.attr == "send_data"
                and self.is_tc(call.func.value) and len(call.args) == 5 and not call.keywords):
            return False
        a = [ast.unparse(x) for x in call.args]
        return a[0] == "circuit.hop.address" and a[1] in ("circuit_id", "circuit.circuit_id") and a[2] == addr \
            and a[3] == "('0.0.0.0', 0)" and a[4] == pkt

    def tr(self, stmts, acts, handled, env, ind):
        pad = "  " * ind
        if not stmts:
            return pad + self.finish(acts, handled)
        st, rest = stmts[0], stmts[1:]
        mutated = any(a.split()[0] in self.MUTATING for a in acts)
        if isinstance(st, ast.Return):
            if st.value is not None:
                raise TranslatorError("send: returns a value")
            return pad + self.finish(acts, handled)
        if isinstance(st, ast.Assign) and len(st.targets) == 1 and isinstance(st.targets[0], ast.Name):
            name, val = st.targets[0].id, st.value
            src = ast.unparse(val)
            if name == "prefix":
                return self.tr(rest, acts, handled, env, ind)
            if src in self.tc_names and name != "circuit":
                self.tc_names = self.tc_names | {name}
                return self.tr(rest, acts, handled, env, ind)
            if name == "circuits" and isinstance(val, ast.Call) and isinstance(val.func, ast.Attribute) \
                    and val.func.attr == "find_circuits" and self.is_tc(val.func.value):
                if mutated:
                    raise TranslatorError("send: find_circuits after a state-changing action")
                env = dict(env, circuits=True)
                return f"{pad}let circuits := s.comm.find s.hops\n" + self.tr(rest, acts, handled, env, ind)
            if name == "circuit":
                if not env.get("circuits") or mutated:
                    raise TranslatorError("send: `circuit` chosen before `circuits` is known")
                loop = rest[0] if rest else None
                if src == "None" and isinstance(loop, ast.For) and not loop.orelse and isinstance(loop.target, ast.Name) \
                        and ast.unparse(loop.iter) == "circuits" and len(loop.body) == 1 and isinstance(loop.body[0], ast.If) \
                        and not loop.body[0].orelse \
                        and ast.unparse(loop.body[0].test) == f"{loop.target.id}.state == CIRCUIT_STATE_READY" \
                        and [ast.unparse(b) for b in loop.body[0].body] == [f"circuit = {loop.target.id}", "break"]:
                    # circuit = None; for x in circuits: if x.state == READY: circuit = x; break   ==   next(…, None)
                    src, rest = "next((c for c in circuits if c.state == CIRCUIT_STATE_READY), None)", rest[1:]
                if src == "next((c for c in circuits if c.state == CIRCUIT_STATE_READY), None)":
                    pick = "circuits.find? (fun c => c.state == .ready)"
                elif src == "circuits[0] if circuits else None":
                    pick = "circuits.head?"
                else:
                    raise TranslatorError(f"send: unsupported choice of circuit `{src}`")
                return (f"{pad}match {pick} with\n{pad}| none =>\n"
                        + self.tr(rest, acts, handled, dict(env, circuit="none"), ind + 2)
                        + f"\n{pad}| some c =>\n" + self.tr(rest, acts, handled, dict(env, circuit="some"), ind + 2))
            if name == "circuit_id" and src == "circuit.circuit_id":
                if env.get("circuit") != "some":
                    raise TranslatorError("send: circuit.circuit_id read where circuit may be None")
                return self.tr(rest, acts, handled, env, ind)
            raise TranslatorError(f"send: unsupported assignment `{ast.unparse(st)}`")
        if isinstance(st, ast.If):
            if mutated:
                raise TranslatorError("send: a condition is evaluated after a state-changing action")
            c = self.cond(st.test, env)
            then_stmts = list(st.body) + ([] if self.ends_in_return(st.body) else rest)
            else_stmts = list(st.orelse) + ([] if self.ends_in_return(st.orelse) else rest)
            if c == "true":
                return self.tr(then_stmts, acts, handled, env, ind)
            if c == "false":
                return self.tr(else_stmts, acts, handled, env, ind)
            if c in ("(!s.attached)",):          # normal form: a guard clause and a nested `if` give the same term
                c, then_stmts, else_stmts = "s.attached", else_stmts, then_stmts
            return (f"{pad}if {c} then\n" + self.tr(then_stmts, acts, handled, env, ind + 1)
                    + f"\n{pad}else\n" + self.tr(else_stmts, acts, handled, env, ind + 1))
        if isinstance(st, ast.Expr) and isinstance(st.value, ast.Call):
            call = st.value
            src = ast.unparse(call)
            if src == "self.endpoint.send(address, packet)":
                return self.tr(rest, acts + ["actRaw a p"], True, env, ind)
            if isinstance(call.func, ast.Attribute) and call.func.attr == "create_circuit" and self.is_tc(call.func.value):
                return self.tr(rest, acts + ["actCreate"], handled, env, ind)
            if src == "self.send_queue.append((address, packet))":
                return self.tr(rest, acts + ["actEnqueue a p"], True, env, ind)
            if self.is_send_data(call):
                if env.get("circuit") != "some":
                    raise TranslatorError("send: send_data where circuit may be None")
                loop = rest[0] if rest else None
                ok = (isinstance(loop, ast.While) and ast.unparse(loop.test) == "self.send_queue" and not loop.orelse
                      and len(loop.body) == 2 and isinstance(loop.body[0], ast.Assign) and len(loop.body[0].targets) == 1
                      and isinstance(loop.body[0].targets[0], ast.Tuple) and len(loop.body[0].targets[0].elts) == 2
                      and all(isinstance(e, ast.Name) for e in loop.body[0].targets[0].elts)
                      and ast.unparse(loop.body[0].value) == "self.send_queue.popleft()"
                      and isinstance(loop.body[1], ast.Expr)
                      and self.is_send_data(loop.body[1].value, *[e.id for e in loop.body[0].targets[0].elts]))
                if not ok:
                    raise TranslatorError("send: send_data is not followed by `while self.send_queue: address, packet = "
                                          "self.send_queue.popleft(); send_data(… same circuit …)`")
                return self.tr(rest[1:], acts + ["actSendOver c a p"], True, env, ind)
            if _is_logging(st):
                return self.tr(rest, acts, handled, env, ind)
        raise TranslatorError(f"send: unsupported statement `{ast.unparse(st)[:90]}`")


def translate_send() -> str:
    _, _, send = _send_function()
    if [a.arg for a in send.args.args] != ["self", "address", "packet"]:
        raise TranslatorError("TunnelEndpoint.send: unexpected signature")
    term = _SendTr().tr(_body(send), [], False, {}, 1)
    return "\n".join(["/- GENERATED by tools/gen_c07.py from " + EP + " (TunnelEndpoint.send) — do not edit -/",
                      "import Ipv8.C07.Prims", "", "namespace Ipv8.C07", "",
                      "/-- translated from TunnelEndpoint.send: which action happens under which condition -/",
                      "def send (s : State) (a : Addr) (p : Bytes) : State × List Event :=", term, "",
                      "end Ipv8.C07", ""])


if __name__ == "__main__":
    import sys
    src, meta = translate()
    sys.stdout.write(translate_send() if "--send" in sys.argv else src)
