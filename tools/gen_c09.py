"""
Translator for C09: anonymization/community.py, tunnel.py, caches.py, crypto.py, requestcache.py  ->  lean/Ipv8/C09/GenC09.lean

What is read from the *current* source tree (vlib.REPO) on every run:
  * TunnelSettings defaults (instantiated): max_time_inactive, max_time, max_traffic, remove_tunnel_delay, next_hop_timeout,
    circuit_timeout, unstable_timeout, max_joined_circuits, max_relay_early; PING_INTERVAL; RandomNumberCache.timeout_delay;
  * TunnelCommunity.__init__: the `register_task("do_circuits", self.do_circuits, interval=K, delay=0)` and
    `register_task("do_ping", self.do_ping, interval=PING_INTERVAL)` calls; do_circuits must call self.do_remove()
    unconditionally; create_circuit must pass `circuit_timeout // next_hop_timeout` tries;
  * do_remove: the three sweep loops, each an if/elif chain of comparisons over last_activity / creation_time /
    bytes_up + bytes_down / state against time.time() - settings  ->  Lean decision functions sweepCircuit/Relay/Exit;
  * should_join_circuit: the refusal comparison  ->  joinRefused;
  * PythonCryptoEndpoint.relay_cell: the relay_early budget test -> earlyDrop; RelayRoute.__init__: the initial count;
  * RetryRequestCache.on_timeout: the give-up test -> giveUp;
  * remove_circuit / remove_relay / remove_exit_socket: the guard in front of `await sleep(remove_tunnel_delay)` -> nowSkips.
Anything outside the small expression subset raises TranslatorError (handled like a broken proof).
"""
from __future__ import annotations

import ast
import json
import importlib
import sys
from fractions import Fraction

from vlib import REPO, TranslatorError

TPS = 64
COMM = "ipv8/messaging/anonymization/community.py"
TUN = "ipv8/messaging/anonymization/tunnel.py"
CACHES = "ipv8/messaging/anonymization/caches.py"
CRYPTO = "ipv8/messaging/anonymization/crypto.py"

SETTINGS = {"max_time_inactive": "(c.inactive : Int)", "max_traffic": "(c.maxTraffic : Int)",
            "max_time": "(c.maxTime : Int)", "max_joined_circuits": "(c.maxJoined : Int)"}
FIELDS = {"last_activity": "(e.last : Int)", "creation_time": "(e.born : Int)"}
CMP = {ast.Lt: "<", ast.Gt: ">", ast.LtE: "≤", ast.GtE: "≥"}


def ticks(x, what) -> int:
    f = Fraction(x) * TPS
    if f.denominator != 1 or f < 0:
        raise TranslatorError(f"{what} = {x!r} is not a whole number of 1/{TPS} s ticks")
    return int(f)


def _cls(tree, name):
    c = next((n for n in tree.body if isinstance(n, ast.ClassDef) and n.name == name), None)
    if c is None:
        raise TranslatorError(f"class {name} not found")
    return c


def _fn(cls, name):
    f = next((n for n in cls.body if isinstance(n, (ast.FunctionDef, ast.AsyncFunctionDef)) and n.name == name), None)
    if f is None:
        raise TranslatorError(f"{cls.name}.{name} not found")
    return f


def _body(fn):
    b = fn.body
    if b and isinstance(b[0], ast.Expr) and isinstance(b[0].value, ast.Constant) and isinstance(b[0].value.value, str):
        b = b[1:]
    return b


def _inlined(cls, fn, depth=0):
    """body of `fn` with every statement `self._helper()` (no arguments, private method of the same class, no return
    value used) replaced by that helper's body - "extract method" undone.  Nested one more level at most."""
    out = []
    for st in _body(fn):
        if isinstance(st, ast.Expr) and isinstance(st.value, ast.Call) and not st.value.args and not st.value.keywords \
                and isinstance(st.value.func, ast.Attribute) and isinstance(st.value.func.value, ast.Name) \
                and st.value.func.value.id == "self" and st.value.func.attr.startswith("_") and depth < 2:
            helper = next((n for n in cls.body if isinstance(n, ast.FunctionDef) and n.name == st.value.func.attr), None)
            if helper is not None and [a.arg for a in helper.args.args] == ["self"] and not helper.decorator_list:
                out.extend(_inlined(cls, helper, depth + 1))
                continue
        out.append(st)
    return out


def _chain(stmts, where):
    """normal form of a decision chain: [(test, body)] + final else body.  Accepts `if/elif/.../else` as well as guard
    clauses (`if c: …; return` one after the other, the rest being the else part).  A guard without `return` that is
    followed by more statements would fall through - refused."""
    branches = []
    i = 0
    while i < len(stmts):
        st = stmts[i]
        if not isinstance(st, ast.If):
            break
        if st.orelse:
            node = st
            while True:
                branches.append((node.test, list(node.body)))
                if len(node.orelse) == 1 and isinstance(node.orelse[0], ast.If):
                    node = node.orelse[0]
                    continue
                return branches, list(node.orelse) + stmts[i + 1:]
        if st.body and isinstance(st.body[-1], ast.Return) and st.body[-1].value is None:
            branches.append((st.test, list(st.body[:-1])))
            i += 1
            continue
        if i == len(stmts) - 1:
            branches.append((st.test, list(st.body)))
            return branches, []
        raise TranslatorError(f"{where}: a guard that neither returns nor has an else is followed by more statements")
    return branches, stmts[i:]


class Cond:
    """expression translator for the sweep / join / budget conditions"""

    def __init__(self, var: str | None, get_max_time_ok: bool, aliases: dict | None = None):
        self.var = var
        self.gmt = get_max_time_ok
        self.aliases = aliases or {}      # local names bound once to an expression of the subset (e.g. now = time.time())

    def num(self, e) -> str:
        u = ast.unparse(e)
        if isinstance(e, ast.Name) and e.id in self.aliases:
            return self.num(self.aliases[e.id])
        if u == "time.time()":
            return "(n : Int)"
        if isinstance(e, ast.Attribute) and isinstance(e.value, ast.Name) and e.value.id == self.var and e.attr in FIELDS:
            return FIELDS[e.attr]
        if isinstance(e, ast.BinOp) and isinstance(e.op, ast.Add) and self.var and \
                {ast.unparse(e.left), ast.unparse(e.right)} == {f"{self.var}.bytes_up", f"{self.var}.bytes_down"}:
            return "(e.bytes : Int)"
        if u.startswith("self.settings.") and u[len("self.settings."):] in SETTINGS:
            return SETTINGS[u[len("self.settings."):]]
        if isinstance(e, ast.Call) and ast.unparse(e.func) == "self.get_max_time" and self.gmt:
            return "(c.maxTime : Int)"
        if u == "len(self.relay_from_to)":
            return "(nRelays : Int)"
        if u == "len(self.exit_sockets)":
            return "(nExits : Int)"
        if u == "self.max_relay_early":
            return "(c.maxEarly : Int)"
        if u == "next_relay.relay_early_count":
            return "(count : Int)"
        if u == "self.max_tries":
            return "(tries : Int)"
        if isinstance(e, ast.Constant) and isinstance(e.value, int) and not isinstance(e.value, bool):
            return f"({e.value} : Int)"
        if isinstance(e, ast.BinOp) and isinstance(e.op, (ast.Add, ast.Sub)):
            return f"({self.num(e.left)} {'+' if isinstance(e.op, ast.Add) else '-'} {self.num(e.right)})"
        raise TranslatorError(f"unsupported arithmetic expression: {u[:100]}")

    def boolean(self, e) -> str:
        u = ast.unparse(e)
        if isinstance(e, ast.BoolOp):
            op = " && " if isinstance(e.op, ast.And) else " || "
            return "(" + op.join(self.boolean(v) for v in e.values) + ")"
        if isinstance(e, ast.UnaryOp) and isinstance(e.op, ast.Not):
            if ast.unparse(e.operand) == "self.candidates":
                return "(cands == 0)"
            return f"(!{self.boolean(e.operand)})"
        if isinstance(e, ast.Compare) and len(e.ops) == 1:
            l, r, op = e.left, e.comparators[0], e.ops[0]
            if self.var and ast.unparse(l) == f"{self.var}.state" and ast.unparse(r) == "CIRCUIT_STATE_READY":
                if isinstance(op, ast.Eq):
                    return "e.isReady"
                if isinstance(op, ast.NotEq):
                    return "(!e.isReady)"
            if type(op) in CMP:
                return f"decide ({self.num(l)} {CMP[type(op)]} {self.num(r)})"
        if u == "cell.relay_early":
            return "flag"
        if u == "self.candidates":
            return "(cands != 0)"
        raise TranslatorError(f"unsupported condition: {u[:100]}")


def _sweep_loop(loop, table_attr, remover, gmt_ok, aliases=None):
    if not isinstance(loop, ast.For):
        raise TranslatorError("do_remove: expected a for loop")
    if ast.unparse(loop.iter) != f"list(self.{table_attr}.items())":
        raise TranslatorError(f"do_remove: loop over {ast.unparse(loop.iter)} where self.{table_attr} was expected")
    if not (isinstance(loop.target, ast.Tuple) and len(loop.target.elts) == 2
            and all(isinstance(x, ast.Name) for x in loop.target.elts)):
        raise TranslatorError("do_remove: unexpected loop target")
    idv, var = (x.id for x in loop.target.elts)
    if len(loop.body) != 1 or not isinstance(loop.body[0], ast.If) or loop.orelse:
        raise TranslatorError(f"do_remove: loop over {table_attr} is not a single if/elif chain")
    tr = Cond(var, gmt_ok, aliases)
    branches = []
    node = loop.body[0]
    while True:
        if len(node.body) != 1 or not isinstance(node.body[0], ast.Expr) or not isinstance(node.body[0].value, ast.Call):
            raise TranslatorError(f"do_remove/{table_attr}: branch body is not a single call")
        call = node.body[0].value
        if ast.unparse(call.func) != f"self.{remover}":
            raise TranslatorError(f"do_remove/{table_attr}: calls {ast.unparse(call.func)} instead of self.{remover}")
        if not call.args or ast.unparse(call.args[0]) != idv:
            raise TranslatorError(f"do_remove/{table_attr}: removal is not for the loop's circuit id")
        destroy = False
        for kw in call.keywords:
            if kw.arg == "destroy" and isinstance(kw.value, ast.Constant):
                destroy = bool(kw.value.value)
            else:
                raise TranslatorError(f"do_remove/{table_attr}: unsupported keyword {kw.arg}")
        if len(call.args) > 2:
            raise TranslatorError(f"do_remove/{table_attr}: unexpected positional arguments")
        branches.append((tr.boolean(node.test), destroy))
        if not node.orelse:
            break
        if len(node.orelse) == 1 and isinstance(node.orelse[0], ast.If):
            node = node.orelse[0]
        else:
            raise TranslatorError(f"do_remove/{table_attr}: else branch is not an elif")
    return branches


def _guard(fn) -> bool:
    """classify the `if <guard>: await sleep(self.settings.remove_tunnel_delay)` statement of a remove_* task"""
    for st in ast.walk(fn):
        if isinstance(st, ast.If) and len(st.body) == 1 and \
                ast.unparse(st.body[0]) == "await sleep(self.settings.remove_tunnel_delay)" and not st.orelse:
            t = ast.unparse(st.test)
            if t == "not remove_now or self.settings.remove_tunnel_delay > 0":
                return False
            if t == "not remove_now":
                return True
            raise TranslatorError(f"{fn.name}: unsupported guard `{t}` before the removal sleep")
    raise TranslatorError(f"{fn.name}: no guarded `await sleep(self.settings.remove_tunnel_delay)` found")


def translate() -> tuple[str, dict]:
    comm = ast.parse((REPO / COMM).read_text())
    tc = _cls(comm, "TunnelCommunity")
    # ---- constants from the live classes of the tree under test
    # (the runner puts vlib.REPO first on sys.path, so these are the modules of the tree under test)
    cm = importlib.import_module("ipv8.messaging.anonymization.community")
    tm = importlib.import_module("ipv8.messaging.anonymization.tunnel")
    rc = importlib.import_module("ipv8.requestcache")
    if not str(cm.__file__).startswith(str(REPO)):
        raise TranslatorError(f"ipv8 imported from {cm.__file__}, not from {REPO}")
    s = cm.TunnelSettings()
    meta = {k: getattr(s, k) for k in ("max_time_inactive", "max_time", "max_traffic", "remove_tunnel_delay",
                                       "next_hop_timeout", "circuit_timeout", "unstable_timeout",
                                       "max_joined_circuits", "max_relay_early")}
    meta["PING_INTERVAL"] = tm.PING_INTERVAL
    # RandomNumberCache.timeout_delay default (CreateRequestCache does not override it)
    cc = importlib.import_module("ipv8.messaging.anonymization.caches")
    td = cc.CreateRequestCache.timeout_delay
    if not isinstance(td, property):
        raise TranslatorError("CreateRequestCache.timeout_delay is not a property")
    meta["create_request_timeout"] = td.fget(object.__new__(cc.CreateRequestCache))
    if not isinstance(meta["max_relay_early"], int) or not isinstance(meta["max_joined_circuits"], int):
        raise TranslatorError("max_relay_early / max_joined_circuits are not integers")

    # ---- __init__: periodic tasks
    init = _fn(tc, "__init__")
    period = ping = None
    for st in ast.walk(init):
        if isinstance(st, ast.Call) and ast.unparse(st.func) == "self.register_task" and st.args and \
                isinstance(st.args[0], ast.Constant):
            kw = {k.arg: k.value for k in st.keywords}
            if st.args[0].value == "do_circuits":
                if ast.unparse(st.args[1]) != "self.do_circuits" or "interval" not in kw:
                    raise TranslatorError("do_circuits task: unexpected registration")
                if not isinstance(kw["interval"], ast.Constant):
                    raise TranslatorError("do_circuits task: interval is not a literal")
                if "delay" not in kw or not isinstance(kw["delay"], ast.Constant) or kw["delay"].value != 0:
                    raise TranslatorError("do_circuits task: delay is not the literal 0")
                period = kw["interval"].value
            if st.args[0].value == "do_ping":
                if ast.unparse(st.args[1]) != "self.do_ping" or ast.unparse(kw.get("interval")) != "PING_INTERVAL" \
                        or "delay" in kw:
                    raise TranslatorError("do_ping task: unexpected registration")
                ping = tm.PING_INTERVAL
    if period is None or ping is None:
        raise TranslatorError("periodic tasks do_circuits/do_ping are not registered in __init__")
    meta["sweep_interval"] = period
    if any(isinstance(n, (ast.Return, ast.Raise)) for n in ast.walk(_fn(tc, "do_circuits"))):
        raise TranslatorError("do_circuits can leave (return/raise) before it reaches self.do_remove()")
    dc = _body(_fn(tc, "do_circuits"))
    if not any(isinstance(st, ast.Expr) and ast.unparse(st) == "self.do_remove()" for st in dc):
        raise TranslatorError("do_circuits no longer calls self.do_remove() unconditionally")
    gmt = _body(_fn(tc, "get_max_time"))
    gmt_ok = len(gmt) == 1 and ast.unparse(gmt[0]) == "return self.settings.max_time"
    if "self.settings.circuit_timeout // self.settings.next_hop_timeout" not in ast.unparse(_fn(tc, "create_circuit")):
        raise TranslatorError("create_circuit: max_tries is no longer circuit_timeout // next_hop_timeout")
    tries0 = s.circuit_timeout // s.next_hop_timeout

    # ---- do_remove
    dr_body = _inlined(tc, _fn(tc, "do_remove"))
    if any(isinstance(n, (ast.Return, ast.Raise)) for st in dr_body for n in ast.walk(st)):
        raise TranslatorError("do_remove can leave (return/raise) before all tables are swept")
    dr = [st for st in dr_body if isinstance(st, ast.For)]
    if len(dr) < 3:
        raise TranslatorError("do_remove: fewer than three sweep loops")
    # single-assignment local aliases in front of the loops (e.g. `now = time.time()`, `limit = now - settings.X`)
    aliases, assigned = {}, {}
    for st in dr_body:
        if isinstance(st, ast.For):
            break
        if isinstance(st, ast.Assign) and len(st.targets) == 1 and isinstance(st.targets[0], ast.Name):
            aliases[st.targets[0].id] = st.value
    for st in [n for top in dr_body for n in ast.walk(top)]:
        if isinstance(st, (ast.Assign, ast.AugAssign)):
            for t in (st.targets if isinstance(st, ast.Assign) else [st.target]):
                if isinstance(t, ast.Name):
                    assigned[t.id] = assigned.get(t.id, 0) + 1
    aliases = {k: v for k, v in aliases.items() if assigned.get(k) == 1}
    sweeps = {
        "sweepCircuit": _sweep_loop(dr[0], "circuits", "remove_circuit", gmt_ok, aliases),
        "sweepRelay": _sweep_loop(dr[1], "relay_from_to", "remove_relay", gmt_ok, aliases),
        "sweepExit": _sweep_loop(dr[2], "exit_sockets", "remove_exit_socket", gmt_ok, aliases),
    }
    # ---- should_join_circuit
    sj = [st for st in _body(_fn(tc, "should_join_circuit"))]
    sj_alias, sj_assigned = {}, {}
    for st in sj:
        if isinstance(st, ast.Assign) and len(st.targets) == 1 and isinstance(st.targets[0], ast.Name):
            sj_alias[st.targets[0].id] = st.value
    for st in ast.walk(_fn(tc, "should_join_circuit")):
        if isinstance(st, (ast.Assign, ast.AugAssign)):
            for t in (st.targets if isinstance(st, ast.Assign) else [st.target]):
                if isinstance(t, ast.Name):
                    sj_assigned[t.id] = sj_assigned.get(t.id, 0) + 1
    sj_alias = {k: v for k, v in sj_alias.items() if sj_assigned.get(k) == 1}
    core = [st for st in sj if not (isinstance(st, ast.Expr) and "logger" in ast.unparse(st))
            and not (isinstance(st, ast.Assign) and len(st.targets) == 1 and isinstance(st.targets[0], ast.Name)
                     and st.targets[0].id in sj_alias)]
    if len(core) == 2 and isinstance(core[0], ast.If) and ast.unparse(core[0].body[-1]) == "return False" \
            and not core[0].orelse and ast.unparse(core[1]) == "return True":
        join_refused = Cond(None, False, sj_alias).boolean(core[0].test)
    elif len(core) == 2 and isinstance(core[0], ast.If) and ast.unparse(core[0].body[-1]) == "return True" \
            and not core[0].orelse and ast.unparse(core[1]) == "return False":
        join_refused = "(!" + Cond(None, False, sj_alias).boolean(core[0].test) + ")"
    elif len(core) == 1 and isinstance(core[0], ast.Return) and core[0].value is not None:
        join_refused = "(!" + Cond(None, False, sj_alias).boolean(core[0].value) + ")"
    else:
        raise TranslatorError("should_join_circuit: unexpected shape")
    # ---- relay_cell budget and RelayRoute initial count
    cry = ast.parse((REPO / CRYPTO).read_text())
    rcell = _fn(_cls(cry, "PythonCryptoEndpoint"), "relay_cell")
    budget = [st for st in _body(rcell) if isinstance(st, ast.If) and "relay_early" in ast.unparse(st.test)]
    if len(budget) != 1 or ast.unparse(budget[0].body[-1]) != "return":
        raise TranslatorError("relay_cell: relay_early budget test not found")
    early_drop = Cond(None, False).boolean(budget[0].test)
    src_rc = ast.unparse(rcell)
    if not any(isinstance(st, ast.AugAssign) and ast.unparse(st) == "next_relay.relay_early_count += 1"
               for st in _body(rcell)):
        raise TranslatorError("relay_cell: the per-route counter is no longer incremented by one per forwarded cell")
    tun = ast.parse((REPO / TUN).read_text())
    rinit = _fn(_cls(tun, "RelayRoute"), "__init__")
    early_init = None
    for st in ast.walk(rinit):
        if isinstance(st, ast.Assign) and ast.unparse(st.targets[0]) == "self.relay_early_count" and \
                isinstance(st.value, ast.Constant) and isinstance(st.value.value, int):
            early_init = st.value.value
    if early_init is None or early_init < 0:
        raise TranslatorError("RelayRoute.__init__: literal initial relay_early_count not found")
    # ---- RetryRequestCache.on_timeout
    ca = ast.parse((REPO / CACHES).read_text())
    ot = _body(_fn(_cls(ca, "RetryRequestCache"), "on_timeout"))
    if not (len(ot) >= 2 and isinstance(ot[0], ast.If)
            and ast.unparse(ot[0].test) == "self.circuit.state == CIRCUIT_STATE_CLOSING"
            and ast.unparse(ot[0].body[-1]) == "return" and isinstance(ot[1], ast.If)
            and "self.community.remove_circuit(self.circuit.circuit_id" in ast.unparse(ot[1])
            and ast.unparse(ot[1].body[-1]) == "return"):
        raise TranslatorError("RetryRequestCache.on_timeout: unexpected shape")
    give_up = Cond(None, False).boolean(ot[1].test)
    # ---- remove_exit_socket: which condition closes the outside transports of the popped exit socket
    res = _fn(tc, "remove_exit_socket")
    popped = None
    for st in ast.walk(res):
        if isinstance(st, ast.Assign) and ast.unparse(st.value) == "self.exit_sockets.pop(circuit_id, None)" \
                and isinstance(st.targets[0], ast.Name):
            popped = st.targets[0].id
    if popped is None:
        raise TranslatorError("remove_exit_socket: `X = self.exit_sockets.pop(circuit_id, None)` not found")
    close_cond = None
    for st in ast.walk(res):
        if isinstance(st, ast.If) and ast.unparse(st.test) in (f"{popped} and {popped}.enabled",
                                                                f"{popped} is not None and {popped}.enabled") \
                and any(ast.unparse(x) == f"await {popped}.close()" for x in st.body):
            close_cond = "enabledAtPop"
        if isinstance(st, ast.If) and ast.unparse(st.test) in (popped, f"{popped} is not None"):
            for inner in st.body:
                if isinstance(inner, ast.Expr) and ast.unparse(inner) == f"await {popped}.close()":
                    close_cond = "true"
                elif isinstance(inner, ast.If) and any(ast.unparse(x) == f"await {popped}.close()" for x in inner.body):
                    t = ast.unparse(inner.test)
                    if t == f"{popped}.enabled":
                        close_cond = "enabledAtPop"
                    else:
                        raise TranslatorError(f"remove_exit_socket: the popped socket is closed under `{t}`, "
                                              f"not under its own `enabled` flag")
    if close_cond is None:
        raise TranslatorError("remove_exit_socket: no `await <popped>.close()` for the popped exit socket")
    # ---- on_destroy: the branch table (guard kind, removals with "destroy passed on" flag)
    od = _body(_fn(tc, "on_destroy"))
    first_if = next((k for k, st in enumerate(od) if isinstance(st, ast.If)), None)
    if first_if is None:
        raise TranslatorError("on_destroy: no decision chain")
    od_branches, od_else = _chain(od[first_if:], "on_destroy")
    src_od = ast.unparse(_fn(tc, "on_destroy"))
    for need in ("next_relay = self.relay_from_to.get(circuit_id)",
                 "prev_relay = self.relay_from_to.get(next_relay.circuit_id) if next_relay else None",
                 "circuit_id = payload.circuit_id"):
        if need not in src_od:
            raise TranslatorError(f"on_destroy: `{need}` not found")
    guards = {"prev_relay and peer == prev_relay.hop.peer": "relayPair",
              "circuit_id in self.exit_sockets and peer == self.exit_sockets[circuit_id].hop.peer": "exit",
              "circuit_id in self.circuits and peer == self.circuits[circuit_id].hop.peer": "circuit"}
    removers = {"self.remove_circuit": 0, "self.remove_relay": 1, "self.remove_exit_socket": 2}

    def _is_removal(x):
        return any(isinstance(n, ast.Call) and ast.unparse(n.func) in removers for n in ast.walk(x))
    # nothing in front of the chain may remove anything or leave the function
    for st in od[:first_if]:
        if _is_removal(st) or any(isinstance(n, (ast.Return, ast.Raise)) for n in ast.walk(st)):
            raise TranslatorError("on_destroy: removal / return in front of the decision chain")
    destroy_branches = []
    for test, body in od_branches:
        g = guards.get(ast.unparse(test))
        if g is None:
            raise TranslatorError(f"on_destroy: unsupported guard `{ast.unparse(test)[:90]}`")
        acts = []
        for st in body:
            if not (isinstance(st, ast.Expr) and isinstance(st.value, ast.Call)
                    and ast.unparse(st.value.func) in removers):
                raise TranslatorError(f"on_destroy/{g}: statement is not a removal: {ast.unparse(st)[:80]}")
            call = st.value
            who = ast.unparse(call.args[0]) if call.args else ""
            if who == "circuit_id":
                paired = False
            elif who in ("next_relay.circuit_id", "cast('RelayRoute', next_relay).circuit_id"):
                paired = True
            else:
                raise TranslatorError(f"on_destroy/{g}: removal of `{who}`")
            fwd = False
            for kw in call.keywords:
                if kw.arg == "destroy" and ast.unparse(kw.value) == "payload.reason":
                    fwd = True
                else:
                    raise TranslatorError(f"on_destroy/{g}: unsupported keyword {kw.arg}={ast.unparse(kw.value)}")
            acts.append((removers[ast.unparse(call.func)], paired, fwd))
        destroy_branches.append((g, acts))
    if any(_is_removal(x) for x in od_else):
        raise TranslatorError("on_destroy: the final else removes something")

    # ---- every place that refreshes / writes the liveness clocks, in the five anchored files
    beat_sites, clock_writes = [], []
    for rel in (COMM, CRYPTO, "ipv8/messaging/anonymization/exit_socket.py", TUN, CACHES):
        tree = ast.parse((REPO / rel).read_text())
        base = rel.rsplit("/", 1)[1]
        for fn in [n for n in ast.walk(tree) if isinstance(n, (ast.FunctionDef, ast.AsyncFunctionDef))]:
            binds = {}
            for st in ast.walk(fn):
                if isinstance(st, ast.Assign) and len(st.targets) == 1 and isinstance(st.targets[0], ast.Name):
                    binds[st.targets[0].id] = ast.unparse(st.value)
                if isinstance(st, ast.For) and isinstance(st.target, ast.Name):
                    binds[st.target.id] = "for " + ast.unparse(st.iter)
            for st in ast.walk(fn):
                if isinstance(st, ast.Call) and isinstance(st.func, ast.Attribute) and st.func.attr == "beat_heart":
                    recv = ast.unparse(st.func.value)
                    beat_sites.append((base, fn.name, recv, binds.get(recv, recv)))
                if isinstance(st, (ast.Assign, ast.AugAssign)):
                    for t in (st.targets if isinstance(st, ast.Assign) else [st.target]):
                        for tt in (t.elts if isinstance(t, ast.Tuple) else [t]):
                            if isinstance(tt, ast.Attribute) and tt.attr in ("last_activity", "creation_time"):
                                clock_writes.append((base, fn.name, ast.unparse(tt)))
    beat_sites = sorted(set(beat_sites))
    clock_writes = sorted(set(clock_writes))

    # ---- do_ping: which circuits are pinged
    dp = [st for st in _body(_fn(tc, "do_ping")) if isinstance(st, ast.For)]
    if len(dp) != 1 or ast.unparse(dp[0].iter) != "list(self.circuits.values())" or len(dp[0].body) != 1 \
            or not isinstance(dp[0].body[0], ast.If) or dp[0].body[0].orelse:
        raise TranslatorError("do_ping: expected `for circuit in list(self.circuits.values()): if …:`")
    pv = dp[0].target.id
    test = dp[0].body[0].test
    conj = test.values if isinstance(test, ast.BoolOp) and isinstance(test.op, ast.And) else [test]
    ping_terms = []
    for t in conj:
        u = ast.unparse(t)
        if u == f"{pv}.circuit_id not in exclude":
            continue
        if u == f"{pv}.hops":
            ping_terms.append("decide (0 < hops)")
        elif isinstance(t, ast.Compare) and len(t.ops) == 1 and isinstance(t.ops[0], ast.In) \
                and ast.unparse(t.left) == f"{pv}.state" and isinstance(t.comparators[0], (ast.List, ast.Tuple)):
            states = sorted(ast.unparse(x) for x in t.comparators[0].elts)
            if states == ["CIRCUIT_STATE_EXTENDING", "CIRCUIT_STATE_READY"]:
                ping_terms.append("!closing")
            elif states == ["CIRCUIT_STATE_CLOSING", "CIRCUIT_STATE_EXTENDING", "CIRCUIT_STATE_READY"]:
                pass
            else:
                raise TranslatorError(f"do_ping: unsupported state set {states}")
        else:
            raise TranslatorError(f"do_ping: unsupported condition `{u[:80]}`")
    ping_wanted = " && ".join(ping_terms) if ping_terms else "true"

    # ---- remove_* guards
    guards = {_guard(_fn(tc, n)) for n in ("remove_circuit", "remove_relay", "remove_exit_socket")}
    if len(guards) != 1:
        raise TranslatorError("remove_circuit/remove_relay/remove_exit_socket guard their sleep differently")
    now_skips = guards.pop()
    meta["now_skips"] = now_skips

    cfg = {
        "inactive": ticks(s.max_time_inactive, "max_time_inactive"), "maxTime": ticks(s.max_time, "max_time"),
        "maxTraffic": int(s.max_traffic), "delay": ticks(s.remove_tunnel_delay, "remove_tunnel_delay"),
        "period": ticks(period, "do_circuits interval"), "hopTimeout": ticks(s.next_hop_timeout, "next_hop_timeout"),
        "tries0": int(tries0), "maxJoined": int(s.max_joined_circuits), "maxEarly": max(0, int(s.max_relay_early)),
        "createdTtl": ticks(s.unstable_timeout, "unstable_timeout"),
        "createReqTtl": ticks(meta["create_request_timeout"], "CreateRequestCache timeout"),
        "pingPeriod": ticks(ping, "PING_INTERVAL"), "nowSkips": "true" if now_skips else "false",
    }
    if cfg["period"] == 0 or cfg["pingPeriod"] == 0:
        raise TranslatorError("periodic task with zero interval")
    out = ["/- GENERATED by tools/gen_c09.py from " + COMM + ", tunnel.py, caches.py, crypto.py — do not edit -/",
           "import Ipv8.C09.Types", "namespace Ipv8.C09.Gen", "",
           f"/-- ticks per second -/\ndef tps : Nat := {TPS}", "",
           "/-- TunnelSettings defaults and task intervals, in ticks -/",
           "def cfg : Cfg :=", "  { " + ",\n    ".join(f"{k} := {v}" for k, v in cfg.items()) + " }", ""]
    for name, branches in sweeps.items():
        out.append(f"/-- do_remove, {name[5:].lower()} loop: `none` = keep, `some d` = remove with `destroy = d` -/")
        out.append(f"def {name} (c : Cfg) (n : Nat) (e : Entry) : Option Bool :=")
        for cond, destroy in branches:
            out.append(f"  if {cond} then some {'true' if destroy else 'false'} else")
        out.append("  none")
        out.append("")
    out += ["/-- should_join_circuit refuses -/",
            "def joinRefused (c : Cfg) (nRelays nExits : Nat) : Bool :=", f"  {join_refused}", "",
            "/-- relay_cell drops the cell because the relay_early budget of the route is used up -/",
            "def earlyDrop (c : Cfg) (flag : Bool) (count : Nat) : Bool :=", f"  {early_drop}", "",
            "/-- RelayRoute.relay_early_count at construction -/", f"def earlyInit : Nat := {early_init}", "",
            "/-- remove_exit_socket closes the transports of the exit socket it pops (argument: its `enabled` flag then) -/",
            "def closeOnPop (enabledAtPop : Bool) : Bool :=", f"  {close_cond}", "",
            "/-- on_destroy: the if/elif chain as (guard, [(table 0=circuits 1=relays 2=exits, paired id?, destroy passed on?)]) -/",
            "def destroyBranches : List (String × List (Nat × Bool × Bool)) :=",
            "  [" + ", ".join("(\"%s\", [%s])" % (g, ", ".join("(%d, %s, %s)" % (t, str(pd).lower(), str(fw).lower())
                                                                for t, pd, fw in acts)) for g, acts in destroy_branches) + "]", "",
            "/-- every `X.beat_heart()` call of the anchored files: (file, function, receiver, what the receiver is bound to) -/",
            "def beatSites : List (String × String × String × String) :=",
            "  [" + ",\n   ".join("(%s, %s, %s, %s)" % tuple(json.dumps(x) for x in b) for b in beat_sites) + "]", "",
            "/-- every assignment to last_activity / creation_time in the anchored files: (file, function, target) -/",
            "def clockWrites : List (String × String × String) :=",
            "  [" + ",\n   ".join("(%s, %s, %s)" % tuple(json.dumps(x) for x in b) for b in clock_writes) + "]", "",
            "/-- do_ping pings this circuit -/",
            "def pingWanted (closing : Bool) (hops : Nat) : Bool :=", f"  {ping_wanted}", "",
            "/-- RetryRequestCache.on_timeout gives up (removes the circuit) instead of retrying -/",
            "def giveUp (cands tries : Nat) : Bool :=", f"  {give_up}", "",
            "end Ipv8.C09.Gen", ""]
    return "\n".join(out), meta


if __name__ == "__main__":
    sys.path.insert(0, str(REPO))
    print(translate()[0])
