"""
Translator for C05: ipv8/messaging/anonymization/{community,crypto,payload,tunnel}.py  ->  lean/Ipv8/C05/GenGuards.lean

What is read from the *current* source tree (vlib.REPO) on every run and becomes a Lean `Bool` function over named atoms
(the model and the theorems consume these definitions, so a guard that changes in the code changes the statement that
has to be proved):

  community.py  TunnelCommunity.on_create      leading guard chain                          -> createRefused
                                               guard chain after the await of the hook      -> createRecheckRefused
                TunnelCommunity.should_join_circuit   the refusal comparison                -> joinRefused
                TunnelCommunity.join_circuit   CreatedRequestCache before exit_sockets[id] = -> joinCacheFirst
                TunnelCommunity.on_created     test of the relay branch (request matches)   -> createdMatches
                                               guard chain inside that branch               -> createdRefused
                                               remove_exit_socket(..., remove_now=<const>)  -> convertRemovesNow
                TunnelCommunity.on_destroy     the three tests of the if/elif chain (or of  -> destroyViaRelay / destroyExit /
                                               the same chain as `if ..: ..; return` blocks;   destroyCircuit
                                               which table lookups define next/prev)
                TunnelCommunity.on_data        test of the "our circuit" branch             -> dataOurs
                TunnelCommunity.exit_data      unknown-id guard + enable-or-drop            -> exitDataRefuses
  crypto.py     PythonCryptoEndpoint.process_cell   guard chain between incoming_crypto and the dispatch -> cellRefused
                PythonCryptoEndpoint.incoming_crypto leading guard chain                    -> inCryptoRefuses
                PythonCryptoEndpoint.outgoing_crypto the `raise CryptoException` guard      -> outCryptoRefuses
                PythonCryptoEndpoint.relay_cell      the two leading drops                  -> relayRefused
  payload.py    msg_id of the cell payload classes, NO_CRYPTO_PACKETS                        -> msgId*, noCryptoIds
  community.py  TunnelSettings._max_relay_early, max_joined_circuits;  tunnel.py RelayRoute.relay_early_count -> constants

Accepted subset (anything else raises TranslatorError, which the runner treats like a broken proof):
  * a *guard chain* is a run of statements at the start of a body (after the docstring) consisting of
      - `if <cond>: <calls to self.logger.*>; return`   (no else)     -> contributes <cond>
      - simple assignments `name = <expr>`                             -> remembered, substituted into later conditions
      - bare `self.logger.*(...)` calls                                -> ignored
    it ends at the first other statement; the result is the disjunction of the conditions;
  * a condition is built from `and`, `or`, `not`, parentheses, `A if C else B`, and *atoms*; an atom is looked up, after
    substituting remembered locals, by its `ast.unparse` text in a per-function vocabulary (below).  `x is None`,
    `x is not None`, `x not in y` are read as the negation / the atom of the positive form.  An atom outside the vocabulary
    is an error: `peer == next_relay.hop.peer`, `!=` instead of `is not`, a dropped or added conjunct with a new name.
  * conditions are emitted in a normal form (class Cond): negations pushed to the atoms (De Morgan, `!=`, `is not`,
    `not in`), nested and/or of one kind flattened; so a guard clause on the negated test, or a De Morgan'd test, gives
    the same text as the original;
  * `self._helper(args)` where `_helper` is a one-expression private method (collect_helpers) is replaced by its
    expression; module-level integer constants of crypto.py and `<Payload>.msg_id` are replaced by the literal
    (module_consts / fn_env); on_data may be `if ours: .. else: exit`, `if not ours: exit else: ..` or the guard clause
    `if not ours: .. exit_data ..; return`;
  * operands of `and` / `or` are emitted in sorted order (atoms are total booleans in the model), so re-ordered conjuncts,
    renamed locals, added logging and keyword/positional differences in the atoms' calls give the identical Lean file.
"""
from __future__ import annotations

import ast

from vlib import REPO, TranslatorError

COMM = "ipv8/messaging/anonymization/community.py"
CRYPTO = "ipv8/messaging/anonymization/crypto.py"
PAYLOAD = "ipv8/messaging/anonymization/payload.py"
TUNNEL = "ipv8/messaging/anonymization/tunnel.py"
HIDDEN = "ipv8/messaging/anonymization/hidden_services.py"


# ---- helpers ---------------------------------------------------------------------------------------------------------
def _parse(rel):
    return ast.parse((REPO / rel).read_text())


def _cls(tree, name):
    c = next((n for n in tree.body if isinstance(n, ast.ClassDef) and n.name == name), None)
    if c is None:
        raise TranslatorError(f"class {name} not found")
    return c


def _fn(cls, name):
    f = next((n for n in cls.body if isinstance(n, (ast.FunctionDef, ast.AsyncFunctionDef)) and n.name == name), None)
    if f is None:
        raise TranslatorError(f"{cls.name}.{name} not found")
    return f


def _body(stmts):
    if stmts and isinstance(stmts[0], ast.Expr) and isinstance(stmts[0].value, ast.Constant) \
            and isinstance(stmts[0].value.value, str):
        return stmts[1:]
    return stmts


def _is_log(st) -> bool:
    return isinstance(st, ast.Expr) and isinstance(st.value, ast.Call) \
        and ast.unparse(st.value.func).startswith("self.logger.")


class Subst(ast.NodeTransformer):
    """remembered locals / resolved module constants -> their expressions (keys: a name, or the text of `X.attr`)"""

    def __init__(self, env):
        self.env = env

    def visit_Name(self, node):
        if isinstance(node.ctx, ast.Load) and node.id in self.env:
            return self.env[node.id]
        return node

    def visit_Attribute(self, node):
        if isinstance(node.ctx, ast.Load) and isinstance(node.value, ast.Name) and ast.unparse(node) in self.env:
            return self.env[ast.unparse(node)]
        return self.generic_visit(node)


def _norm(e, env) -> str:
    import copy
    return ast.unparse(Subst(env).visit(copy.deepcopy(e)))


# private one-expression helper methods of the translated classes: name -> (parameter names, returned expression)
_HELPERS: dict[str, tuple[list[str], ast.expr]] = {}


def _pure_arg(e) -> bool:
    """an argument that can be evaluated any number of times: names, attribute reads, constants"""
    return all(isinstance(n, (ast.Name, ast.Attribute, ast.Constant, ast.Load)) for n in ast.walk(e))


def collect_helpers(cls, other_classes=()):
    """
    `def _name(self, p1, ..): [docstring]; return <expr>` (not async, no decorator, no defaults / *args, <expr> reads only
    self and the parameters, no call of another method of the class other than such helpers) is a *helper*: a call
    `self._name(a1, ..)` inside a translated condition is replaced by <expr> with the arguments substituted before the
    atoms are looked up.  The name must not be defined by any other class of the package (an override would make the
    call mean something else in a subclass).
    """
    for f in cls.body:
        if not isinstance(f, ast.FunctionDef) or f.decorator_list or not f.name.startswith("_") or f.name.startswith("__"):
            continue
        a = f.args
        if a.vararg or a.kwarg or a.kwonlyargs or a.defaults or a.posonlyargs or not a.args or a.args[0].arg != "self":
            continue
        b = _body(f.body)
        if len(b) != 1 or not isinstance(b[0], ast.Return) or b[0].value is None:
            continue
        params = [x.arg for x in a.args[1:]]
        free = {n.id for n in ast.walk(b[0].value) if isinstance(n, ast.Name)}
        if not free <= set(params) | {"self"}:
            continue
        if any(isinstance(n, (ast.Await, ast.NamedExpr, ast.Lambda, ast.Yield, ast.YieldFrom)) for n in ast.walk(b[0].value)):
            continue
        if any(isinstance(g, (ast.FunctionDef, ast.AsyncFunctionDef)) and g.name == f.name
               for c in other_classes for g in c.body) or sum(1 for g in cls.body if getattr(g, "name", None) == f.name) != 1:
            continue
        _HELPERS[f.name] = (params, b[0].value)


def _inline(e, where, depth=0):
    """`self._helper(args)` -> the helper's expression; None if e is not such a call"""
    if not (isinstance(e, ast.Call) and isinstance(e.func, ast.Attribute) and isinstance(e.func.value, ast.Name)
            and e.func.value.id == "self" and e.func.attr in _HELPERS):
        return None
    import copy
    params, expr = _HELPERS[e.func.attr]
    if depth > 4:
        raise TranslatorError(f"{where}: helper `{e.func.attr}` is recursive")
    args = dict(zip(params, e.args))
    for k in e.keywords:
        if k.arg is None or k.arg not in params or k.arg in args:
            raise TranslatorError(f"{where}: cannot match the arguments of `{ast.unparse(e)[:80]}`")
        args[k.arg] = k.value
    if len(e.args) > len(params) or set(args) != set(params):
        raise TranslatorError(f"{where}: cannot match the arguments of `{ast.unparse(e)[:80]}`")
    if not all(_pure_arg(x) for x in args.values()):
        raise TranslatorError(f"{where}: argument of `{ast.unparse(e)[:80]}` is not a plain name / attribute read")
    return Subst(args).visit(copy.deepcopy(expr))


class Cond:
    """
    boolean expression over a vocabulary of atoms -> Lean Bool term, in a normal form: negations pushed to the atoms
    (`not (a and b)` = `not a or not b`, double negations dropped), nested and/or of the same kind flattened, operands
    sorted.  Two conditions that differ only by De Morgan, parenthesisation or operand order give the same text.
    """

    def __init__(self, where: str, vocab: dict[str, str], env: dict | None = None):
        self.where, self.vocab, self.env = where, vocab, env or {}
        self.used: set[str] = set()

    def atom(self, e, neg=False) -> str:
        u = _norm(e, self.env)
        if u in self.vocab:
            t = self.vocab[u]
            self.used.add(t.strip("(!)"))
            if t.startswith("(!") and neg:
                return t[2:-1]
            return f"(!{t})" if neg else t
        raise TranslatorError(f"{self.where}: condition `{u[:110]}` is outside the translated vocabulary")

    def _flat(self, e, op, neg, depth):
        """operands of a maximal and/or tree of kind `op` (as seen through negations and helper calls)"""
        h = _inline(e, self.where, depth)
        if h is not None:
            return self._flat(h, op, neg, depth + 1)
        if isinstance(e, ast.UnaryOp) and isinstance(e.op, ast.Not):
            return self._flat(e.operand, op, not neg, depth)
        if isinstance(e, ast.BoolOp):
            eff = ast.And if isinstance(e.op, ast.And) != neg else ast.Or
            if eff is op:
                return [x for v in e.values for x in self._flat(v, op, neg, depth)]
        return [self.tr(e, neg, depth)]

    def tr(self, e, neg=False, depth=0) -> str:
        h = _inline(e, self.where, depth)
        if h is not None:
            return self.tr(h, neg, depth + 1)
        if isinstance(e, ast.BoolOp):
            eff = ast.And if isinstance(e.op, ast.And) != neg else ast.Or
            parts = sorted(x for v in e.values for x in self._flat(v, eff, neg, depth))
            return "(" + (" && " if eff is ast.And else " || ").join(parts) + ")"
        if isinstance(e, ast.UnaryOp) and isinstance(e.op, ast.Not):
            return self.tr(e.operand, not neg, depth)
        if isinstance(e, ast.IfExp):
            return f"(bif {self.tr(e.test, False, depth)} then {self.tr(e.body, neg, depth)} else {self.tr(e.orelse, neg, depth)})"
        if isinstance(e, ast.Compare) and len(e.ops) == 1:
            op, l, r = e.ops[0], e.left, e.comparators[0]
            if isinstance(op, (ast.Is, ast.IsNot)) and isinstance(r, ast.Constant) and r.value is None:
                return self.atom(ast.Compare(left=l, ops=[ast.IsNot()], comparators=[r]), neg != isinstance(op, ast.Is))
            if isinstance(op, ast.NotIn):
                return self.atom(ast.Compare(left=l, ops=[ast.In()], comparators=[r]), not neg)
            if isinstance(op, ast.IsNot):
                return self.atom(ast.Compare(left=l, ops=[ast.Is()], comparators=[r]), not neg)
            if isinstance(op, ast.NotEq):
                return self.atom(ast.Compare(left=l, ops=[ast.Eq()], comparators=[r]), not neg)
        return self.atom(e, neg)


def guard_chain(stmts, where, vocab, env=None, stop=None):
    """(list of conditions, env, index of the first statement after the chain)"""
    env = dict(env or {})
    conds = []
    i = 0
    stmts = _body(stmts)
    while i < len(stmts):
        st = stmts[i]
        if stop is not None and stop(st):
            break
        if _is_log(st):
            pass
        elif isinstance(st, ast.Assign) and len(st.targets) == 1 and isinstance(st.targets[0], ast.Name) \
                and not any(isinstance(x, ast.Await) for x in ast.walk(st.value)):
            env[st.targets[0].id] = Subst(env).visit(st.value)
        elif isinstance(st, ast.If) and not st.orelse and st.body and isinstance(st.body[-1], ast.Return) \
                and st.body[-1].value is None and all(_is_log(x) for x in st.body[:-1]):
            conds.append((st.test, dict(env)))
        else:
            break
        i += 1
    return conds, env, i, stmts


def disj(conds, where, vocab) -> tuple[str, set]:
    used: set[str] = set()
    parts = []
    for test, env in conds:
        c = Cond(where, vocab, env)
        parts.append(c.tr(test))
        used |= c.used
    if not parts:
        raise TranslatorError(f"{where}: no guard found")
    return "(" + " || ".join(sorted(parts)) + ")", used


def lean_fn(name, params, body, doc) -> str:
    ps = " ".join(params)
    return f"/-- {doc} -/\ndef {name} ({ps} : Bool) : Bool :=\n  {body}\n"


def need(used, params, where):
    missing = [p for p in params if p not in used]
    if missing:
        raise TranslatorError(f"{where}: the code no longer tests {missing}")


def module_consts(tree, ids: dict[str, int]) -> dict:
    """
    Names that stand for an integer in every function of the module: `NAME = <int literal>` or `NAME = <Payload>.msg_id`
    at module level, bound exactly once in the whole file (no second assignment, augmented assignment, `global`, loop /
    with / import target of that name anywhere); and the attribute reads `<Payload>.msg_id` themselves.  They are replaced
    by the literal before an atom is looked up, so `cell.message[0] == EXTEND_MSG_ID` is the atom `cell.message[0] == 4`
    exactly when the constant is 4.
    """
    env: dict = {f"{c}.msg_id": ast.Constant(v) for c, v in ids.items()}
    stores: dict[str, int] = {}
    for n in ast.walk(tree):
        if isinstance(n, ast.Name) and isinstance(n.ctx, (ast.Store, ast.Del)):
            stores[n.id] = stores.get(n.id, 0) + 1
        elif isinstance(n, (ast.Global, ast.Nonlocal)):
            for x in n.names:
                stores[x] = stores.get(x, 0) + 2
        elif isinstance(n, (ast.Import, ast.ImportFrom)):
            for a in n.names:
                x = (a.asname or a.name).split(".")[0]
                stores[x] = stores.get(x, 0) + 1
        elif isinstance(n, (ast.FunctionDef, ast.AsyncFunctionDef, ast.ClassDef)):
            stores[n.name] = stores.get(n.name, 0) + 1
    for st in tree.body:
        tgt = val = None
        if isinstance(st, ast.Assign) and len(st.targets) == 1 and isinstance(st.targets[0], ast.Name):
            tgt, val = st.targets[0].id, st.value
        elif isinstance(st, ast.AnnAssign) and isinstance(st.target, ast.Name) and st.value is not None:
            tgt, val = st.target.id, st.value
        if tgt is None or stores.get(tgt) != 1:
            continue
        if isinstance(val, ast.Constant) and type(val.value) is int:
            env[tgt] = ast.Constant(val.value)
        elif ast.unparse(val) in env and isinstance(val, ast.Attribute):
            env[tgt] = env[ast.unparse(val)]
    return env


def fn_env(fn, consts: dict) -> dict:
    """the module constants visible in fn: not shadowed by a parameter or a local binding"""
    local = {a.arg for a in fn.args.args + fn.args.kwonlyargs + fn.args.posonlyargs}
    local |= {x.arg for x in (fn.args.vararg, fn.args.kwarg) if x}
    local |= {n.id for n in ast.walk(fn) if isinstance(n, ast.Name) and isinstance(n.ctx, (ast.Store, ast.Del))}
    return {k: v for k, v in consts.items() if k.split(".")[0] not in local}


# ---- the functions -----------------------------------------------------------------------------------------------------
def translate() -> tuple[str, dict]:
    comm = _parse(COMM)
    tc = _cls(comm, "TunnelCommunity")
    _HELPERS.clear()
    others = [n for rel in (COMM, HIDDEN) if (REPO / rel).exists() for n in _parse(rel).body
              if isinstance(n, ast.ClassDef) and n.name != "TunnelCommunity"]
    collect_helpers(tc, others)
    out = ["/- GENERATED by tools/gen_c05.py from ipv8/messaging/anonymization/{community,crypto,payload,tunnel}.py — do not edit -/",
           "namespace Ipv8.C05.Gen", ""]
    info = {}

    # -- on_create -------------------------------------------------------------------------------------------------------
    v = {"self.settings.peer_flags": "hasFlags",
         "self.request_cache.has(CreatedRequestCache, payload.circuit_id)": "inCreated",
         "payload.circuit_id in self.circuits": "inCircuits",
         "payload.circuit_id in self.relay_from_to": "inRelays",
         "payload.circuit_id in self.exit_sockets": "inExits"}
    conds, _, i, stmts = guard_chain(_fn(tc, "on_create").body, "on_create", v)
    body, used = disj(conds, "on_create", v)
    params = ["hasFlags", "inCreated", "inCircuits", "inRelays", "inExits"]
    need(used, params, "on_create")
    if i >= len(stmts) or "self.should_join_circuit" not in ast.unparse(stmts[i]):
        raise TranslatorError("on_create: the guard chain is not followed by the should_join_circuit call")
    out.append(lean_fn("createRefused", params, body, "on_create returns before should_join_circuit / join_circuit"))
    # the id is checked again after the await (the hook may have suspended the handler)
    conds2, _, j2, stmts2 = guard_chain(stmts[i + 1:], "on_create (after the await)", v)
    if not conds2:
        raise TranslatorError("on_create: the circuit id is not checked again after `await self.should_join_circuit(...)`")
    body2, used2 = disj(conds2, "on_create (after the await)", v)
    need(used2, ["inCreated", "inCircuits", "inRelays", "inExits"], "on_create (after the await)")
    if j2 >= len(stmts2) or "self.join_circuit" not in ast.unparse(stmts2[j2]):
        raise TranslatorError("on_create: the re-check is not followed by the join_circuit call")
    out.append(lean_fn("createRecheckRefused", ["inCreated", "inCircuits", "inRelays", "inExits"], body2,
                       "on_create returns after should_join_circuit was awaited, before join_circuit"))

    # -- should_join_circuit + settings constants -------------------------------------------------------------------------
    ts = _cls(comm, "TunnelSettings")
    consts = {}
    for st in ts.body:
        if isinstance(st, ast.Assign) and len(st.targets) == 1 and isinstance(st.targets[0], ast.Name) \
                and isinstance(st.value, ast.Constant) and isinstance(st.value.value, int):
            consts[st.targets[0].id] = st.value.value
    for k in ("max_joined_circuits", "_max_relay_early"):
        if k not in consts:
            raise TranslatorError(f"TunnelSettings.{k} is not an integer literal")
    sj = _body(_fn(tc, "should_join_circuit").body)
    if not (sj and isinstance(sj[0], ast.If) and isinstance(sj[0].test, ast.Compare) and len(sj[0].test.ops) == 1
            and isinstance(sj[0].test.ops[0], ast.LtE)
            and ast.unparse(sj[0].test.left) == "self.settings.max_joined_circuits"
            and ast.unparse(sj[0].test.comparators[0]) in ("len(self.relay_from_to) + len(self.exit_sockets)",
                                                           "len(self.exit_sockets) + len(self.relay_from_to)")
            and ast.unparse(sj[0].body[-1]) == "return False" and ast.unparse(sj[-1]) == "return True"):
        raise TranslatorError("should_join_circuit: expected `if max_joined_circuits <= len(relay_from_to) + len(exit_sockets): return False`")
    out.append(f"def maxJoined : Nat := {consts['max_joined_circuits']}\n")
    out.append(f"def maxRelayEarly : Nat := {consts['_max_relay_early']}\n")
    out.append("/-- should_join_circuit refuses -/\ndef joinRefused (nRelays nExits : Nat) : Bool :=\n  decide (maxJoined ≤ nRelays + nExits)\n")

    # -- join_circuit: the CreatedRequestCache is constructed (its constructor refuses a number in use) before the table is written
    jc = _body(_fn(tc, "join_circuit").body)
    i_cache = next((k for k, st in enumerate(jc) if "CreatedRequestCache(" in ast.unparse(st)), None)
    i_table = next((k for k, st in enumerate(jc) if isinstance(st, ast.Assign)
                    and ast.unparse(st.targets[0]).startswith("self.exit_sockets[")), None)
    i_send = next((k for k, st in enumerate(jc) if "self.send_cell(" in ast.unparse(st)), None)
    if i_cache is None or i_table is None or i_send is None or not (i_cache < i_send and i_table < i_send):
        raise TranslatorError("join_circuit: expected the CreatedRequestCache, the exit_sockets assignment and then send_cell")
    out.append("/-- join_circuit registers the CreatedRequestCache (which refuses an id that already has one) before it writes "
               f"exit_sockets[id] -/\ndef joinCacheFirst : Bool := {'true' if i_cache < i_table else 'false'}\n")

    # -- on_created ------------------------------------------------------------------------------------------------------
    oc = _body(_fn(tc, "on_created").body)
    env = {}
    branch = None
    for st in oc:
        if isinstance(st, ast.Assign) and len(st.targets) == 1 and isinstance(st.targets[0], ast.Name):
            env[st.targets[0].id] = Subst(env).visit(st.value)
        elif isinstance(st, ast.If) and "CreateRequestCache" in ast.unparse(st):
            branch = st
            break
        elif _is_log(st):
            continue
        else:
            break
    if branch is None:
        raise TranslatorError("on_created: the CreateRequestCache branch was not found")
    vm = {"self.request_cache.get(CreateRequestCache, payload.identifier) is not None": "reqPresent",
          "self.request_cache.has(CreateRequestCache, payload.identifier)": "reqPresent",
          "self.request_cache.get(CreateRequestCache, payload.identifier).to_circuit_id == payload.circuit_id": "toIdIsCid",
          "payload.circuit_id == self.request_cache.get(CreateRequestCache, payload.identifier).to_circuit_id": "toIdIsCid"}
    c = Cond("on_created", vm, env)
    body = c.tr(branch.test)
    need(c.used, ["reqPresent", "toIdIsCid"], "on_created (request match)")
    out.append(lean_fn("createdMatches", ["reqPresent", "toIdIsCid"], body,
                       "on_created treats the CREATED as the answer to a pending extension"))
    inner = [s for s in branch.body if not (isinstance(s, ast.Expr) and "request_cache.pop(CreateRequestCache" in ast.unparse(s))]
    if len(inner) == len(branch.body):
        # `request = self.request_cache.pop(...)` form
        pass
    env2 = dict(env)
    env2["request"] = ast.parse("REQ", mode="eval").body
    vr = {"self.exit_sockets.get(REQ.from_circuit_id) is not None": "exitPresent",
          "REQ.from_circuit_id in self.exit_sockets": "exitPresent",
          "self.exit_sockets.get(REQ.from_circuit_id).hop.peer is REQ.peer": "sameHopObject",
          "REQ.to_circuit_id in self.circuits": "toInCircuits",
          "REQ.to_circuit_id in self.relay_from_to": "toInRelays",
          "REQ.to_circuit_id in self.exit_sockets": "toInExits"}
    conds, _, j, stmts = guard_chain(inner, "on_created", vr, env2,
                                     stop=lambda st: "remove_exit_socket" in ast.unparse(st) or "session_keys" in ast.unparse(st))
    body, used = disj(conds, "on_created", vr)
    params = ["exitPresent", "sameHopObject", "toInCircuits", "toInRelays", "toInExits"]
    need(used, params, "on_created (conversion guards)")
    out.append(lean_fn("createdRefused", params, body,
                       "on_created drops the matching CREATED without converting the exit socket"))
    rm = [n for n in ast.walk(branch) if isinstance(n, ast.Call) and ast.unparse(n.func) == "self.remove_exit_socket"]
    if len(rm) != 1:
        raise TranslatorError("on_created: expected exactly one remove_exit_socket call in the conversion")
    kw = {k.arg: k.value for k in rm[0].keywords}
    now = kw.get("remove_now", rm[0].args[2] if len(rm[0].args) > 2 else ast.Constant(False))
    if not (isinstance(now, ast.Constant) and isinstance(now.value, bool)):
        raise TranslatorError("on_created: remove_now of the conversion is not a boolean literal")
    out.append(f"/-- on_created removes the converted exit socket at once (remove_now) -/\ndef convertRemovesNow : Bool := {'true' if now.value else 'false'}\n")

    # -- on_destroy ------------------------------------------------------------------------------------------------------
    od = _body(_fn(tc, "on_destroy").body)
    env = {}
    tests = []                     # (test, source of the branch body), in the order the code tries them
    k = 0
    while k < len(od):
        st = od[k]
        if isinstance(st, ast.Assign) and len(st.targets) == 1 and isinstance(st.targets[0], ast.Name) and not tests:
            env[st.targets[0].id] = Subst(env).visit(st.value)
        elif isinstance(st, ast.If) and not tests and st.orelse:
            # if / elif / elif [/ else: logging]: each test is tried only when the earlier ones failed
            while True:
                tests.append((st.test, ast.unparse(ast.Module(body=st.body, type_ignores=[]))))
                if len(st.orelse) == 1 and isinstance(st.orelse[0], ast.If):
                    st = st.orelse[0]
                else:
                    if not all(_is_log(x) for x in st.orelse):
                        raise TranslatorError("on_destroy: the final else does more than logging")
                    break
            if not all(_is_log(x) for x in od[k + 1:]):
                raise TranslatorError("on_destroy: statements after the if/elif chain")
            break
        elif isinstance(st, ast.If) and not st.orelse and isinstance(st.body[-1], ast.Return) and st.body[-1].value is None \
                and not any(isinstance(n, ast.Return) for x in st.body[:-1] for n in ast.walk(x)):
            # the same chain written as guard blocks: `if <test>: ...; return`, tried in order, nothing in between
            tests.append((st.test, ast.unparse(ast.Module(body=st.body[:-1], type_ignores=[]))))
        elif not _is_log(st):
            raise TranslatorError(f"on_destroy: unexpected statement `{ast.unparse(st)[:80]}`")
        k += 1
    if not tests:
        raise TranslatorError("on_destroy: if/elif chain not found")
    NXT = "self.relay_from_to.get(payload.circuit_id)"
    PRV = f"self.relay_from_to.get({NXT}.circuit_id) if {NXT} else None"
    vd = {PRV: "prevPresent", f"({PRV})": "prevPresent",
          f"peer == ({PRV}).hop.peer": "signerIsPrevHop",
          "payload.circuit_id in self.exit_sockets": "inExits",
          "peer == self.exit_sockets[payload.circuit_id].hop.peer": "signerIsExitHop",
          "payload.circuit_id in self.circuits": "inCircuits",
          "peer == self.circuits[payload.circuit_id].hop.peer": "signerIsFirstHop"}
    if len(tests) != 3:
        raise TranslatorError(f"on_destroy: {len(tests)} branches where relay / exit socket / circuit were expected")
    for (test, body_src), (name, params, must) in zip(tests, [
            ("destroyViaRelay", ["prevPresent", "signerIsPrevHop"], "self.remove_relay("),
            ("destroyExit", ["inExits", "signerIsExitHop"], "self.remove_exit_socket("),
            ("destroyCircuit", ["inCircuits", "signerIsFirstHop"], "self.remove_circuit(")]):
        if must not in body_src:
            raise TranslatorError(f"on_destroy: branch {name} does not call {must}...)")
        c = Cond("on_destroy", vd, env)
        body = c.tr(test)
        need(c.used, params, f"on_destroy ({name})")
        out.append(lean_fn(name, params, body, f"on_destroy honours the destroy in its `{must[5:-1]}` branch"))

    # -- on_data: the "our circuit" test ---------------------------------------------------------------------------------
    odt = _body(_fn(tc, "on_data").body)
    env = {}
    ours = None
    for st in odt:
        if isinstance(st, ast.Assign) and len(st.targets) == 1 and isinstance(st.targets[0], ast.Name):
            env[st.targets[0].id] = Subst(env).visit(st.value)
        elif isinstance(st, ast.Assign) and isinstance(st.targets[0], ast.Tuple):
            continue
        elif isinstance(st, ast.If):
            ours = st
            break
        elif not _is_log(st):
            raise TranslatorError(f"on_data: unexpected statement `{ast.unparse(st)[:80]}`")
    def src(stmts):
        return ast.unparse(ast.Module(body=list(stmts), type_ignores=[]))
    after = odt[odt.index(ours) + 1:] if ours is not None else []
    if ours is not None and ours.orelse and "exit_data" in src(ours.orelse) and "exit_data" not in src(ours.body) \
            and "exit_data" not in src(after):
        ours_test = ours.test                                        # if <ours>: deliver   else: exit_data
    elif ours is not None and ours.orelse and "exit_data" in src(ours.body) and "exit_data" not in src(ours.orelse) \
            and "exit_data" not in src(after) and not after:
        ours_test = ast.UnaryOp(op=ast.Not(), operand=ours.test)     # if <not ours>: exit_data   else: deliver
    elif ours is not None and not ours.orelse and "exit_data" in src(ours.body) and isinstance(ours.body[-1], ast.Return) \
            and ours.body[-1].value is None and "exit_data" not in src(after) \
            and not any(isinstance(n, ast.Return) for st in ours.body[:-1] for n in ast.walk(st)):
        ours_test = ast.UnaryOp(op=ast.Not(), operand=ours.test)     # guard clause: if <not ours>: exit_data; return
    else:
        raise TranslatorError("on_data: expected `if <our circuit>: ... else: ... exit_data(...)` or the guard-clause form "
                              "`if <not our circuit>: ... exit_data(...); return`")
    vo = {"self.circuits.get(payload.circuit_id, None)": "hasCircuit", "self.circuits.get(payload.circuit_id)": "hasCircuit",
          "payload.org_address": "originTruthy",
          "sock_addr == self.circuits.get(payload.circuit_id, None).hop.address": "srcIsFirstHop",
          "sock_addr == self.circuits.get(payload.circuit_id).hop.address": "srcIsFirstHop",
          "self.circuits.get(payload.circuit_id, None).hop.address == sock_addr": "srcIsFirstHop"}
    c = Cond("on_data", vo, env)
    body = c.tr(ours_test)
    need(c.used, ["hasCircuit", "srcIsFirstHop"], "on_data")
    out.append(lean_fn("dataOurs", ["hasCircuit", "originTruthy", "srcIsFirstHop"], body,
                       "on_data delivers the payload as data of an own circuit (otherwise it goes to exit_data)"))

    # -- exit_data -------------------------------------------------------------------------------------------------------
    ve = {"circuit_id in self.exit_sockets": "inExits", "self.exit_sockets[circuit_id].enabled": "enabled",
          "sock_addr[0] == self.exit_sockets[circuit_id].hop.address[0]": "ipMatches",
          # the same with the socket looked up once into a local
          "self.exit_sockets.get(circuit_id) is not None": "inExits",
          "self.exit_sockets.get(circuit_id).enabled": "enabled",
          "sock_addr[0] == self.exit_sockets.get(circuit_id).hop.address[0]": "ipMatches"}
    conds, env, k, stmts = guard_chain(_fn(tc, "exit_data").body, "exit_data", ve)
    first, used = disj(conds, "exit_data", ve)
    if k >= len(stmts) or not isinstance(stmts[k], ast.If):
        raise TranslatorError("exit_data: the enable-or-drop statement was not found")
    en = stmts[k]
    c = Cond("exit_data", ve, env)
    t_en = c.tr(en.test)
    if not (len(en.body) == 1 and isinstance(en.body[0], ast.If) and en.body[0].orelse
            and isinstance(en.body[0].orelse[-1], ast.Return) and ".enable()" in ast.unparse(en.body[0].body[0])):
        raise TranslatorError("exit_data: expected `if not enabled: if <ip matches>: enable() else: return`")
    t_ip = c.tr(en.body[0].test)
    need(used | c.used, ["inExits", "enabled", "ipMatches"], "exit_data")
    out.append(lean_fn("exitDataRefuses", ["inExits", "enabled", "ipMatches"], f"({first} || ({t_en} && (!{t_ip})))",
                       "exit_data returns without handing the packet to the exit socket"))

    # -- crypto.py -------------------------------------------------------------------------------------------------------
    cr = _parse(CRYPTO)
    pe = _cls(cr, "PythonCryptoEndpoint")
    pay = _parse(PAYLOAD)
    ids = {}
    for n in pay.body:
        if isinstance(n, ast.ClassDef):
            for st in n.body:
                if isinstance(st, ast.Assign) and ast.unparse(st.targets[0]) == "msg_id" and isinstance(st.value, ast.Constant):
                    ids[n.name] = st.value.value
    ncp = next((n for n in pay.body if isinstance(n, ast.Assign) and ast.unparse(n.targets[0]) == "NO_CRYPTO_PACKETS"), None)
    if ncp is None or not isinstance(ncp.value, ast.List):
        raise TranslatorError("payload.py: NO_CRYPTO_PACKETS is not a list literal")
    nc = []
    for e in ncp.value.elts:
        u = ast.unparse(e)
        if not (u.endswith(".msg_id") and u[:-7] in ids):
            raise TranslatorError(f"NO_CRYPTO_PACKETS element `{u}` is not <Payload>.msg_id")
        nc.append(ids[u[:-7]])
    for cname, lname in (("DataPayload", "Data"), ("CreatePayload", "Create"), ("CreatedPayload", "Created"),
                         ("ExtendPayload", "Extend"), ("ExtendedPayload", "Extended"), ("PingPayload", "Ping"),
                         ("PongPayload", "Pong"), ("DestroyPayload", "Destroy")):
        if cname not in ids:
            raise TranslatorError(f"payload.py: {cname}.msg_id not found")
        out.append(f"def msgId{lname} : Nat := {ids[cname]}")
    out.append(f"\n/-- NO_CRYPTO_PACKETS: message ids that may travel with the plaintext flag -/\ndef noCryptoIds : List Nat := {sorted(nc)}\n")

    pc = _body(_fn(pe, "process_cell").body)
    start = next((i for i, st in enumerate(pc) if isinstance(st, ast.If) and "self.incoming_crypto(cell)" in ast.unparse(st.test)), None)
    if start is None or ast.unparse(pc[start].test) != "not self.incoming_crypto(cell)":
        raise TranslatorError("process_cell: `if not self.incoming_crypto(cell): return` not found")
    relay_first = any(isinstance(st, ast.If) and ast.unparse(st.test) in ("next_relay", "next_relay is not None")
                      and "self.relay_cell(cell)" in ast.unparse(st) for st in pc[:start])
    if not relay_first:
        raise TranslatorError("process_cell: relay ids are no longer dispatched to relay_cell before incoming_crypto")
    vp = {"cell.relay_early": "relayEarly", f"cell.message[0] == {ids['ExtendPayload']}": "isExtend",
          "self.max_relay_early <= 0": "noBudgetAtAll", "cell.plaintext": "plaintext",
          "cell.message[0] in NO_CRYPTO_PACKETS": "noCrypto", "self.tunnel_community": "hasCommunity"}
    consts = module_consts(cr, ids)
    conds, _, k, stmts = guard_chain(pc[start + 1:], "process_cell", vp, fn_env(_fn(pe, "process_cell"), consts))
    if k >= len(stmts) or "self.tunnel_community.on_packet" not in ast.unparse(stmts[k]):
        raise TranslatorError("process_cell: the guard chain is not followed by the dispatch to the community")
    body, used = disj(conds, "process_cell", vp)
    params = ["relayEarly", "isExtend", "noBudgetAtAll", "plaintext", "noCrypto", "hasCommunity"]
    need(used, ["relayEarly", "isExtend", "plaintext", "noCrypto"], "process_cell")
    out.append(lean_fn("cellRefused", params, body, "process_cell drops a cell that incoming_crypto let through"))

    vi = {"circuit": "hasCircuit", "exit_socket": "hasExit", "cell.plaintext": "plaintext", "circuit.hops": "hasHops"}
    ic = _body(_fn(pe, "incoming_crypto").body)
    env = {}
    rest = []
    for n_, st in enumerate(ic):
        if isinstance(st, ast.Assign) and len(st.targets) == 1 and isinstance(st.targets[0], ast.Name):
            continue
        rest = ic[n_:]
        break
    conds, _, k, stmts = guard_chain(rest, "incoming_crypto", vi,
                                     stop=lambda st: isinstance(st, ast.Try))
    conds = [(t, {}) for t, _ in conds]
    for t, _ in conds:
        pass
    # returns of the chain are `return None`
    ic_conds = []
    for st in rest:
        if isinstance(st, ast.If) and not st.orelse and isinstance(st.body[-1], ast.Return) \
                and (st.body[-1].value is None or ast.unparse(st.body[-1].value) == "None"):
            ic_conds.append((st.test, {}))
        elif isinstance(st, ast.Try):
            break
        elif not _is_log(st):
            raise TranslatorError(f"incoming_crypto: unexpected statement `{ast.unparse(st)[:80]}`")
    body, used = disj(ic_conds, "incoming_crypto", vi)
    params = ["hasCircuit", "hasExit", "plaintext", "hasHops"]
    need(used, params, "incoming_crypto")
    out.append(lean_fn("inCryptoRefuses", params, body, "incoming_crypto returns None before any decryption is tried"))

    vo2 = {"cell.plaintext": "plaintext", "circuit": "hasCircuit", "circuit.hops": "hasHops", "exit_socket": "hasExit",
           "relay": "hasRelay"}
    og = _fn(pe, "outgoing_crypto")
    raises = [n for n in ast.walk(og) if isinstance(n, ast.If) and any(isinstance(x, ast.Raise) for x in n.body)
              and "hop.keys" not in ast.unparse(n.test)]
    if len(raises) != 1:
        raise TranslatorError("outgoing_crypto: expected exactly one `if <no keys>: raise CryptoException` guard")
    c = Cond("outgoing_crypto", vo2)
    body = c.tr(raises[0].test)
    params = ["plaintext", "hasCircuit", "hasHops", "hasExit", "hasRelay"]
    need(c.used, params, "outgoing_crypto")
    out.append(lean_fn("outCryptoRefuses", params, body, "outgoing_crypto refuses to send (no keys and not flagged plaintext)"))

    vr2 = {"cell.plaintext": "plaintext", "cell.relay_early": "relayEarly",
           "next_relay.relay_early_count >= self.max_relay_early": "budgetSpent",
           "self.max_relay_early <= next_relay.relay_early_count": "budgetSpent"}
    rc = _body(_fn(pe, "relay_cell").body)
    rconds = []
    for st in rc:
        if isinstance(st, ast.If) and not st.orelse and isinstance(st.body[-1], ast.Return):
            rconds.append((st.test, {}))
        elif isinstance(st, ast.Assign) and ast.unparse(st) == "next_relay = self.relays[cell.circuit_id]":
            continue
        elif isinstance(st, ast.Try):
            break
        elif not _is_log(st):
            raise TranslatorError(f"relay_cell: unexpected statement `{ast.unparse(st)[:80]}`")
    body, used = disj(rconds, "relay_cell", vr2)
    params = ["plaintext", "relayEarly", "budgetSpent"]
    need(used, params, "relay_cell")
    out.append(lean_fn("relayRefused", params, body, "relay_cell drops the cell before any crypto"))

    # -- tunnel.py: RelayRoute.relay_early_count at construction -----------------------------------------------------------
    tn = _parse(TUNNEL)
    init = _fn(_cls(tn, "RelayRoute"), "__init__")
    rec = [st for st in ast.walk(init) if isinstance(st, ast.Assign) and ast.unparse(st.targets[0]) == "self.relay_early_count"]
    if len(rec) != 1 or not isinstance(rec[0].value, ast.Constant) or not isinstance(rec[0].value.value, int):
        raise TranslatorError("RelayRoute.__init__: relay_early_count is not set to an integer literal")
    out.append(f"/-- RelayRoute.relay_early_count at construction -/\ndef relayEarlyInit : Nat := {rec[0].value.value}\n")

    out.append("end Ipv8.C05.Gen\n")
    info["msg_ids"] = ids
    return "\n".join(out), info


if __name__ == "__main__":
    print(translate()[0])
